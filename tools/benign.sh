#!/bin/sh
# usage: benign.sh <dir with p*.diff> ...   — runs all checks on each behaviour-preserving patch
# (applied to a scratch worktree of /repo). Any non-zero check is a false alarm of the checker.
cd /verif
PROPS=$(${BIN:-./bin/gocoverif} list)
for d in "$@"; do
 for P in "$d"/p*.diff; do
  [ -f "$P" ] || continue
  WT=$(mktemp -d /tmp/bn.XXXXXX); EV=$(mktemp -d /tmp/bnev.XXXXXX)
  git -C /repo worktree add -q --detach "$WT/r" HEAD
  if ! git -C "$WT/r" apply "$(readlink -f $P)" 2>/dev/null; then echo "$P: DOES-NOT-APPLY"; git -C /repo worktree remove --force "$WT/r"; rm -rf "$WT" "$EV"; continue; fi
  cp known_findings.json MANIFEST.json "$EV/"
  alarms=""
  if [ -n "${SWEEP:-}" ]; then
    # one load of the tree for all 18 checks, controls off (a control cannot fail a check)
    out=$(${BIN:-./bin/gocoverif} sweep --repo "$WT/r" --verif "$EV" 2>&1)
    alarms=$(printf '%s\n' "$out" | sed -n 's/^SWEEP failed://p')
    [ -n "$alarms" ] && printf '%s\n' "$out" | grep -E 'violation:|undecided' | cut -c1-300 | head -6 | sed "s|^|    |"
    PROPS_RUN=""
  else PROPS_RUN=$PROPS; fi
  for id in $PROPS_RUN; do
    out=$(${BIN:-./bin/gocoverif} check "$id" --repo "$WT/r" --verif "$EV" 2>&1); rc=$?
    if [ $rc -ne 0 ]; then alarms="$alarms $id"; printf '%s\n' "$out" | grep -E 'violation:|undecided|MISSED' | cut -c1-300 | head -3 | sed "s|^|    [$id] |"; fi
  done
  echo "$P: alarms:$alarms"
  git -C /repo worktree remove --force "$WT/r"; rm -rf "$WT" "$EV"
 done
done
