#!/usr/bin/env python3
"""Generates /verif/MANIFEST.json from the table below (single source of truth)."""
import json, os, sys

ENV = "GOFLAGS=-mod=mod GOPROXY=off GOSUMDB=off GOTOOLCHAIN=local GOWORK=off"

# id -> (technique, level text, level note, design ref)
CHECKS = {
 "C08": ("finite-domain abstract interpretation of seq's SSA; trace conformance with reference combinator semantics",
         "Structural necessary conditions, decided exhaustively over the paths of package seq: every exported combinator is abstractly evaluated on symbolic arguments and the traces of thunk/cond/post/continuation calls and c.step stores are compared with the reference semantics of the property for all 4 signals x nil-ness of cond/post x cond answers x 5 body behaviours x resumptions x a second run of the same Seq. A change to the runtime that alters any of these tables is reported with the offending trace.",
         "Decides the combinators' own code, not Seq values written by users; continuations are assumed to be used linearly by the Seq arguments; bookkeeping a loop keeps in the coroutine state shared by all terms of a run is re-examined with a body that contains a loop of its own when its values are constants (a computed stamp is not modelled); Send histories are included (BindRecv terms); Go closure semantics and go/ssa are trusted; numeric stack bounds are C17.",
         "DESIGN.md §4 C08"),
 "C09": ("finite-domain abstract interpretation of seq.Start and the iterator methods, driven through every operation history up to a depth bound with the generator body as a two-valued oracle; conformance with the reference protocol",
         "The iterator returned by seq.Start(opaque body) is abstractly driven through every sequence of MoveNext/Send/Current/Result up to length 5 (8 thorough), the body yielding (pending step stored as Bind does) or returning at every step; after each operation the returned values and which generator code ran with which received value are compared with the protocol of the property. Independent of the generator's representation.",
         "The generator body is modelled with the package's own BindRecv (a yield is a run of BindRecv(y, nx) on the coroutine state and continuation the body was given): how a pending step is represented is not assumed; histories longer than the bound are covered through merging of equal abstract states, not enumerated; Go semantics and go/ssa trusted.",
         "DESIGN.md §4 C09"),
 "C14": ("resolved-program scan (package state, stores through captured variables) + abstract second-run check",
         "Decides the structural cause of independence: no package-level state touched by runtime code; no closure of a Seq constructor assigns a variable living outside the returned Seq; Start allocates generator and coroutine state per call; a second run of the same loop Seq starts from scratch; the rewriter never introduces declarations.",
         "Does not decide data-race freedom of user code around iterators; rewriter template part (locals live inside the per-call thunk) is decided under C02/C03's rules.",
         "DESIGN.md §4 C14"),
 "C17": ("abstract stack-height analysis over the K1 state graph of the loop driver; static call-graph cycle check",
         "Decides the structural cause of stack growth: with a body that completes synchronously (Normal/Continue), before and after a resumption, the abstract activation stack at successive body calls of For/While/Loop must not get deeper (also for a loop nested in a loop, incl. the depth at which the inner loop's condition and post statement are reached in successive runs of the same loop value); Bind/BindRecv/Delay/Combine values run repeatedly reach their caller-supplied function at the same depth in every run; no static recursion in package seq.",
         "Nested loops are examined with the inner loop ending on its condition and with the inner loop left by a break. No numeric bound is decided; depth contributed by user thunks is assumed bounded by term size; delegation depth grows linearly by construction.",
         "DESIGN.md §4 C17"),
 "C18": ("resolved-program scan for go/defer/recover/select/sync in the runtime and in emitted AST; path rule on MoveNext/Send",
         "Decides the whole mechanism the property names: the runtime has no construct that could swallow, defer or move a panic to another goroutine; the advance calls the pending resumption synchronously and overwrites current/next only afterwards; resumptions run their thunk inside the call; the rewriter never emits go/defer/select/recover.",
         "Go's panic propagation is trusted; panics raised inside user code called from generator statements propagate like any other.",
         "DESIGN.md §4 C18"),
 "C10": ("induction over the abstract state of each iterator (base + symbolic step) extracted by abstract interpretation of its SSA",
         "Decides, for every input at once, the structural facts Go's range semantics rests on: index iterators start at key 0, step by 1 and stop at n / len of their own slice header with live element reads; the string iterator decodes the remaining bytes with unicode/utf8, reports the byte offset it decoded at and advances by the decoder's width; the map iterator delegates to reflect.MapRange on the live map and cannot panic on nil interface keys/values; the channel iterator reports the comma-ok receive; Current is pure.",
         "reflect.MapIter and unicode/utf8 are trusted to match Go's range; element-level equality beyond these facts is not decided; a hand-written decoder would be reported undecided rather than passed. If a refactored integer / string iterator is in none of the inductive forms, the rule falls back to evaluating it on constant operands (integers -2..5, 11 strings): bounded, labelled as such in the evidence; on the current tree the induction decides.",
         "DESIGN.md §4 C10"),
 "C12": ("abstract interpretation of the statement rewriter on a symbolic AST of every statement kind; hole-coverage path rule; abstract drive of the branch pass over all context nestings",
         "Decides the structural core of 'rejected or preserved, never silently mistranslated': unsupported kinds are rejected on every path; every original part that can contain a yield and still reaches the output is covered by a yield-freeness test answered true on its path (so no Yield can survive as a no-op stub); every nested statement list that reaches the output went through the rewriter's recursion (so nested unsupported constructs were seen); the branch pass keeps/replaces/rejects break/continue/fallthrough/goto exactly per the Go spec's target rule for all context nestings up to depth 3, with balanced context stacks; functions (declarations and literals) are marked as generators only after the signature check; every recover() in the rewriter re-raises what it caught, so a diagnostic always ends the run (RW.RECOVER).",
         "Relies on go/ast grammar facts (init/post are simple statements, switch bodies hold case clauses); the oracles mustNoYield/containsYield are trusted to mean yield-freeness (their own traversal is checked under C13's guard rule); behaviour of accepted programs is C01-C06. Also decided: a function returning a type that only spells like the iterator type is not a generator (RW.ITERPRED); Yield / YieldFrom used as a value is rejected (D38 repaired); every recover re-raises.",
         "DESIGN.md §4 C12"),
 "C01": ("decision-table extraction by abstract interpretation (block tables, termination checker vs spec reference on enumerated shapes, branch pass driven over context nestings), lowering-vs-runtime signal agreement, no-loss and template rules on the symbolic rewriting of every statement kind",
         "Whole-program equivalence is not decided. Decided, for every path of the code that implements them: the combine / implicit-Normal / yield-freeness tables of the block abstraction; the break/continue pass against the Go spec's target rule for every nesting of native contexts up to depth 3; the termination checker never over-approximates the spec's 'terminating statements' on ~2000 enumerated shapes; Loop/While/For choice and argument roles; the lowering of every break/continue target agrees with the signal tables extracted from the runtime in the same run; plus the runtime tables of C08.",
         "Known findings D19 (continue with a yielding for-post) and D33 (a break nested in a yielding statement of a switch clause: the repair of D18 is partial) are recorded in known_findings.json; the containment scan that decides which headers and switch breaks need lowering is decided too (RW.ORACLE containsYield), and the breaks of a switch none of whose clauses yields stay breaks; Go closure semantics, go/ssa and go/ast grammar facts are trusted.",
         "DESIGN.md §4 C01"),
 "C03": ("template extraction by abstract interpretation (constructed AST as heap tree with holes) + scoping obligations on the templates",
         "Decides the structural conditions of 'same variable as in the source': continuation nested in the Bind thunk; combine only after statements with their own scope; ':=' initialisers of for/switch/type-switch hoisted into a fresh block (inside generators only), never moved otherwise; ':=' range bodies nested as one block after the generated binding, with the loop's own token; both halves of a Combine are thunks; iterator temporaries from gensym.",
         "Go's capture-by-reference is trusted; known findings D15 (consumer loop body spliced), D23 (yielding post appended to the body's block) and D35 (a multi-variable := after a suspension point redeclares variables of the enclosing block: RW.SCOPE.REDECL, a necessary condition only) are recorded; a nested block keeps its scope (RW.NOLOSS block rows).",
         "DESIGN.md §4 C03"),
 "C04": ("template extraction for every variable form x token; dispatch table by operand kind cross-checked with seq's constructor signatures; iterator induction (C10)",
         "Decides: operand evaluated once before the loop, key/value/token mapping for all 18 variable forms, ':=' body nesting, gensym'd iterator; operand kind -> constructor table vs Go's range table and the constructors' parameter kinds; traversal enters nested closures; plus the iterators' inductive facts of C10 re-established in the same run.",
         "Known finding D16 (array operands sliced in place) is recorded (D21, D30 repaired); element-level equality is C10's scope.",
         "DESIGN.md §4 C04"),
 "C05": ("template extraction of the YieldFrom and consumer-loop lowerings for every operand form; pass-order path rule on rewriteFile; runtime tables",
         "Decides: YieldFrom(x) becomes exactly `for v := range x { Yield(v) }` with x once; the consumer lowering evaluates the delegate once, advances once per iteration, reads once per iteration; the passes run YieldFrom -> range-over-iterator -> generator bodies; the statements after the delegation run only after exhaustion by SEQ.FOR/SEQ.COMBINE; a function whose only yield is a delegation (of any element type) is recorded as a generator on every path that passes the signature check; the yield-containment scan finds a delegation however the call is spelled; the delegation rewriter keeps no state between files.",
         "Behaviour under deep recursion follows from C17/C08's rules; D15 recorded.",
         "DESIGN.md §4 C05"),
 "C06": ("template extraction of rewriteForRange / rewriteIter / result type; pass-order rule",
         "Decides: consumer loops evaluate their operand exactly once, pull exactly one element per iteration in the loop condition (no prefetch), bind with the loop's own ':='/'=' token; the iterator type is replaced iff the iterator predicate holds, uniformly by seq.Iterator[T] under the file's import name; the post-less runtime loops the consumer is lowered to evaluate their condition once per iteration and never after a break (SEQ.FOR rows with a nil post).",
         "Completeness of the type replacement in every syntactic position shows as a build error and is not decided; D15 recorded (D32, the loop without a variable, repaired). The iterator-type predicate itself is decided by identity of the type, never by its name (RW.ITERPRED: on the rewriter its own constructor builds, two questions in a row in both orders, so an answer remembered under a spelling is seen), and what it remembers does not outlive a file. The '=' form is checked for left-hand sides that are fields, elements or dereferences; every path of the pass that finds a range statement asks whether its operand is an iterator.",
         "DESIGN.md §4 C06"),
 "C02": ("abstract interpretation of the seq constructors and resumptions (laziness, suspension, take-and-clear), template extraction of the generator wrapper / Bind / Combine / loop arguments, pattern-term extraction of the Delay-elision whitelist",
         "Decides the structural reasons nothing runs early, late or twice: constructors run nothing; Bind suspends; resumptions run the thunk once inside the advance; Start runs nothing; exhaustion is absorbing; the generator body is exactly Start(Delay(thunk)); the continuation after a yield is the Bind thunk and the yielded expression its unwrapped first argument; loop cond/post/body and both Combine halves are thunks; a Delay is only elided around certified effect-free constructors or Bind with a basic literal.",
         "Relative timing of effects inside one user expression is Go's evaluation order (trusted); pattern-combinator semantics trusted.",
         "DESIGN.md §4 C02"),
 "C07": ("pattern-term extraction of optimizeDelayCall checked against certification of package seq; table extraction of the eta-reduction callback over closure shapes x callee classes; call-graph inventory of rewrite rules; per-file step order (two-file drive)",
         "Decides the side conditions of both optimisations from their source: Delay elision only under certified effect-free constructors / Bind(basic literal), on thunks consisting of the single return; eta reduction keeps the closure on all 18 meaning-changing rows (mutable function variable, method value on user variable, builtin, conversion, generic function with inferred arguments, swapped/duplicated/dropped arguments, differing types, variadic slice passing); imports cleaned before printing; files not using seq are not written.",
         "go-imports and the pattern-combinator library are trusted; observational equality of the two stages on all programs is not decided. Because Delay elision makes one term value serve many runs, the re-enterability of every seq term (second run from scratch, overlapping runs, no constructor-level state) is re-established in this check.",
         "DESIGN.md §4 C07"),
 "C11": ("abstract interpretation of the statement rewriter on symbolic ASTs of every supported kind (dispatch, factory totality, closing of thunk bodies), termination-checker table vs spec reference, block tables, loop-call template, branch pass, eta table, import-name dataflow",
         "Decides the classes of compiler panics and ill-formed output the property names: every supported statement kind is accepted (and a statement without any yield in it is rejected on no path: RW.DISPATCH yield-free), the AST factory and the termination checker never panic on their optional parts / ordinary breaks, every statement list wrapped into a thunk ends in a return on its path, no nil node reaches a loop call, select is a break target in nested closures, closures over builtins/conversions/generics are kept, seq is referred to under its import name.",
         "'The generated package type-checks for every input' is not decided; D15 and D16 are recorded build-breaking findings (D21, D30 repaired). Also decided: a yield whose operand is assignable to the element type is never rejected; panic call sites are calls of the builtin; a last statement answering 'nothing follows' has closed its block; kind tags of pushed statements; qualified names under every import form; a tree that does not use the API passes through.",
         "DESIGN.md §4 C11"),
 "C13": ("resolved enumeration of all Cursor mutator call sites + abstract evaluation of the file-level callbacks over node kinds (edits only under API-membership predicates) + call-graph confinement; eta-reduction table; pass0 in nested closures; branch pass boundary",
         "Decides that bystander code is only touched under a generator / iterator-type / Yield-call predicate, that the one pass rewriting arbitrary closures (eta reduction) keeps every closure whose reduction changes meaning, that returns/initialisers/branches inside ordinary closures nested in generators are left alone, and that no declaration is added.",
         "Doc comments in directive positions (file, declaration, spec) are decided to survive the installed comment list (collected per node type, traversal not pruned, merged in source order); loss of free-floating and line comments is behaviour-neutral and not judged; go-imports trusted. Also decided: a bystander type that only spells like co.Iter is left alone (RW.ITERPRED); a labelled range loop in an ordinary closure survives the range pass (D36 repaired); a processed file is chosen for writing before any optimisation pass has run (D37 repaired) and is processed once even when it is visited twice (D39 repaired); memoised verdicts are keyed by what determines them.",
         "DESIGN.md §4 C13"),
 "C15": ("resolved-program scans (map ranges, nondeterminism sources), per-file reset path rule on rewriteFile, counter lifetime analysis of gensym, event-order rule on the intermediate directory, SSA backward slice of memo tables (key determines value)",
         "Decides the absence of every source of run-to-run or context dependence in the output path: no map iteration, no time/rand/pid/env, per-file state re-initialised before the first pass, unique-name counter advanced once per temporary and alive for exactly one file, intermediate directory emptied before use and removed afterwards, each stage loads the directory the previous one wrote and removes nothing else, iterator temporaries named through gensym, no table outliving a call filled with a value its key does not determine (OPT.MEMO), no stage loaded with type errors suppressed (DET.PARTIALTYPES: recorded finding D31).",
         "File order of go/packages and the output of go/printer are trusted; byte identity itself is not compared. The imports of a file are cleaned after the optimisation passes have run for it (OPT.ORDER), the name generator of the temporaries is found by its call (whatever it is called).",
         "DESIGN.md §4 C15"),
 "C16": ("abstract interpretation of GoGen / cogen with constant folding of string functions (file filter and both printers evaluated on concrete names), header constant checked with go/build/constraint, event-order rule on the intermediate directory",
         "Decides necessary conditions of 'exactly the derived files': header well-formed and generated-code convention; loader tag = negated header tag; exactly *_co.go / *_co_test.go processed; each is written exactly to the sibling with the suffix removed (also for base names and directories containing the marker), through an intermediate directory that is emptied before and removed after; files not using the runtime are not written; cogen only runs in go:generate mode.",
         "GoGen is evaluated with the default options and with WithBuildTag/WithFileSuffix. That the package builds and its tests pass afterwards is the correctness of the whole compiler and is answered by the checks of C01-C07 and C11-C13, not by this one; byte identity of a second run quantifies over file-system states and toolchain behaviour and is not decided. A derived file is written for every processed file: the import of the runtime is added per file, and which files use it is decided before the optimiser runs (D37 repaired).",
         "DESIGN.md §4 C16"),
}

NOT_APPLICABLE = {
}

PENDING_REASON = "check not built yet in this revision (static rule designed in DESIGN.md §4; will be claimed once implemented and validated)"

def main():
    root = os.path.dirname(os.path.dirname(os.path.abspath(__file__)))
    ids = ["C%02d" % i for i in range(1, 19)]
    checks = []
    na = []
    for i in ids:
        if i in CHECKS:
            tech, text, note, ref = CHECKS[i]
            checks.append({
                "property_id": i,
                "quick_cmd": "./check.sh %s quick" % i,
                "thorough_cmd": "./check.sh %s thorough" % i,
                "evidence_file": "/verif/evidence/%s.json" % i,
                "replay_cmd_template": "cat {path}; ./check.sh %s quick" % i,
                "engine": "gocoverif",
                "level_claimed": {"category": "other", "text": text, "design_ref": ref},
                "level_note": note,
                "technique": tech,
            })
        else:
            na.append({"property_id": i, "reason": NOT_APPLICABLE.get(i, PENDING_REASON)})
    m = {
        "version": 1,
        "setup_cmd": "cd /verif && ./setup.sh",
        "hooks": {
            "guard": "verif",
            "enable": "none needed: static analysis reads /repo's source as is; no instrumentation is compiled in (build tag 'verif' reserved, unused)",
            "baseline_off_cmd": "cd /repo && %s go test -vet=off -count=1 ./seq ./rewriter ./example ./example/lexer ./example/linq ./example/sched1 ./example/sched2 ./example/tree" % ENV,
            "source_commits": [],
            "add_only": True,
        },
        "engines": [{
            "name": "gocoverif",
            "path": "/verif/checker",
            "serves_properties": [c["property_id"] for c in checks],
            "kind_free_text": "Go program on golang.org/x/tools v0.29.0 (go/packages, go/ssa): loads and type-checks /repo's current working tree on every run, builds SSA, and evaluates repository-specific rules (finite-domain abstract interpretation with trace partitioning, path queries, template extraction, call-graph and resolved-program scans). Nothing from /repo is executed.",
        }],
        "checks": checks,
        "not_applicable": na,
        "notes": "All checks are static analysis of /repo's current source (see DESIGN.md). Known, recorded defects of the pinned tree are in known_findings.json; repaired ones are 'fix:' commits in /repo. Seeded breaking changes used to validate the checks are under seeded/.",
    }
    if not na:
        del m["not_applicable"]
    with open(os.path.join(root, "MANIFEST.json"), "w") as f:
        json.dump(m, f, indent=1)
        f.write("\n")
    print("MANIFEST.json: %d checks, %d not_applicable" % (len(checks), len(na)))

if __name__ == "__main__":
    main()
