#!/usr/bin/env python3
"""usage: mk_matrix_md.py <matrix.txt>  — writes seeded/MATRIX.md and updates seeded/*/meta.json"""
import sys, json, os, re
rows = []
for l in open(sys.argv[1]):
    m = re.match(r'^(\S+): detected-by:(.*)$', l.strip())
    if m:
        rows.append((m.group(1), m.group(2).split()))
notes = {
 # seeds written against a clause that the property's own check does not claim (DESIGN.md section 4, C16):
 # "afterwards the package builds and its tests pass" is answered by the checks of the compiler properties
 "C16-r3-mut1": "miscompiles `for v = range g` (C06's clause); C16's check does not claim 'tests pass afterwards'",
 "C08-r5-mut2": "changes stack depth only (values and order unchanged): C17's clause, written against C08 by the sub-agent",
 "C16-r3-mut2": "miscompiles break/continue after a closure (C01/C13's clause); C16's check does not claim 'tests pass afterwards'",
 "C01-r6-mut2": "lost shadowing of a tuple-valued `:=` loop/switch header (C03's clause: the sub-agent flagged it as a scoping change itself)",
 "C02-r8-mut1": "the breaks of a switch that yields only in its initialiser are turned into `return Normal()` and complete the whole thunk (C01's break clause: RW.SCOPEAGREE 'breaks of a switch without a yielding clause stay breaks'; same change as C01-r8-mut1)",
 "C02-r8-mut2": "the yield-freeness assertion is skipped for range loops that stay native: the yields in them call the stub (C12's clause 'no yield survives as a stub': RW.FIELDCOV)",
 "C04-r8-mut1": "the break rewriting of a yielding switch descends into native range loops (C01's break clause: the traversal callback is driven on every node kind)",
 "C16-r8-mut2": "eta reduction accepts callees without a type-checker object: a closure over a function declared in a plain sibling file is reduced in go:generate mode (C07/C11/C13: OPT.ETA 'unresolved identifier'); C16's own check does not claim 'tests pass afterwards'",
 "C18-r8-mut1": "the 'first iteration' flag of For belongs to the For value instead of the run: a second run of the same value runs the post statement first (re-startability of terms: SEQ.FOR second run in C01/C02/C03/C07/C08/C14; the sub-agent demonstrates it through the panic of a skipped cell)",
 "C18-r8-mut2": "the break rewriting of a yielding switch descends into native range loops: control is misrouted and a panic after the loop never happens (C01's break clause; same change as C04-r8-mut1)",
 "C03-r7-mut2": "`k, v = range` split into two sequential assignments: evaluation order of the left-hand sides of an `=` range clause (C04's clause, RW.TMPL.RANGE.TUPLE; the sub-agent rates the fit to C03 as moderate itself)",
 "C05-r7-mut1": "generator declarations remembered by name: a same-named plain method is rewritten into an empty generator (C12 'wrong signature' / C13 'bystander' clauses; the sub-agent calls the fit to C05 weak: the delegation itself is faithful)",
 "C05-r7-mut2": "break after a delegation in a yielding switch is no longer retargeted (C01's break/continue clause: RW.SCOPEAGREE)",
 "C09-r7-mut2": "Bind memoises its resumption per Seq value: only one Seq value *started twice* misbehaves (re-startability of terms: C07/C14's clause; the sub-agent notes that a history checker rebuilding the Seq per history sees nothing)",
 "C18-r7-mut2": "switch breaks rewritten after the clause bodies were lowered: control is misrouted and the panic of the skipped statement never happens (C01's break clause; the sub-agent flags it as off-target for C18 itself)",
 "C03-r6-mut1": "eta reduction of pointer-receiver method values changes when the receiver is evaluated (C13's clause 'time of evaluation of callee and receiver'; also caught by C02/C06/C07/C14/C18)",
}
out = ["# Which checks catch which seeded change", "",
       "Produced by `tools/matrix.sh`: every seeded change is applied to a scratch worktree of /repo (never to /repo itself) and all 18 checks are run on it (controls off).",
       "`own` = the check of the property the change was written against.", "",
       "| seeded change | breaks | caught by own check | other checks that fire |", "|---|---|---|---|"]
missed = []
for name, det in rows:
    d = os.path.join('seeded', name)
    prop = name.split('-')[0]
    mp = os.path.join(d, 'meta.json')
    if os.path.exists(mp):
        meta = json.load(open(mp)); prop = meta.get('property', prop)
        meta['detected_by'] = det
        json.dump(meta, open(mp, 'w'), indent=1, ensure_ascii=False)
    own = 'yes' if prop in det else '**NO**'
    if prop not in det and name in notes and det:
        own = 'no — ' + notes[name]
    elif prop not in det: missed.append(name)
    others = [x for x in det if x != prop]
    out.append("| %s | %s | %s | %s |" % (name, prop, own, ' '.join(others) or '-'))
out += ["", "Seeds not caught by their own check: %s" % (', '.join(missed) or 'none'), "",
 "Other checks fire where the change also breaks a necessary condition of that property (e.g. a runtime loop-table change breaks C08 and, through the shared tables, C01/C02; an eta-reduction change breaks C07 and C13; a map-iterator change breaks C10 and C04). Per-property scoping (DESIGN.md 2.7) removes the rows that are not necessary conditions of the other property."]
open('seeded/MATRIX.md', 'w').write('\n'.join(out) + '\n')
print("rows", len(rows), "missed-by-own", missed)
