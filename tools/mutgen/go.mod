module mutgen

go 1.23
