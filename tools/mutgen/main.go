// mutgen — enumerates first-order syntactic mutants of go-co's non-test sources.
//
//	mutgen list <repo>                 one line per mutant: <id>\t<file>\t<line>\t<operator>\t<description>
//	mutgen apply <repo> <id> <outfile> writes the mutated content of the mutant's file to <outfile>
//
// It is a *tool for measuring the checks* (tools/mutsweep.sh): a mutant that still compiles and still
// passes the existing test suite is a candidate "realistic breaking change"; the checks are then run on it.
// Nothing here is part of a registered check.
package main

import (
	"bytes"
	"fmt"
	"go/ast"
	"go/parser"
	"go/token"
	"os"
	"path/filepath"
	"sort"
	"strconv"
	"strings"
)

var files = []string{
	"seq/seq.go", "seq/iter.go",
	"rewriter/compile.go", "rewriter/const.go", "rewriter/etc.go", "rewriter/optimize.go", "rewriter/range.go",
	"rewriter/return.go", "rewriter/rewrite.go", "rewriter/yield_ast.go", "rewriter/yield_block.go",
	"rewriter/yield_rewrite.go", "rewriter/yieldfrom_rewrite.go", "cmd/cogen/main.go",
}

type mutant struct {
	File       string
	Start, End int // byte offsets replaced
	New        string
	Line       int
	Op, Desc   string
}

func main() {
	if len(os.Args) < 3 {
		fmt.Fprintln(os.Stderr, "usage: mutgen list <repo> | apply <repo> <id> <outfile>")
		os.Exit(2)
	}
	repo := os.Args[2]
	ms := enumerate(repo)
	switch os.Args[1] {
	case "list":
		for i, m := range ms {
			fmt.Printf("%d\t%s\t%d\t%s\t%s\n", i, m.File, m.Line, m.Op, m.Desc)
		}
	case "apply":
		id, err := strconv.Atoi(os.Args[3])
		if err != nil || id < 0 || id >= len(ms) {
			fmt.Fprintln(os.Stderr, "bad id")
			os.Exit(2)
		}
		m := ms[id]
		src, _ := os.ReadFile(filepath.Join(repo, m.File))
		out := append(append(append([]byte{}, src[:m.Start]...), m.New...), src[m.End:]...)
		if err := os.WriteFile(os.Args[4], out, 0o644); err != nil {
			fmt.Fprintln(os.Stderr, err)
			os.Exit(1)
		}
		fmt.Printf("%s\t%d\t%s\t%s\n", m.File, m.Line, m.Op, m.Desc)
	}
}

func enumerate(repo string) []mutant {
	var all []mutant
	// constant groups are shared by the files of one package (kindXxx is declared in yield_block.go and used elsewhere)
	pkgGroups := map[string]map[string][]string{}
	for _, f := range files {
		src, err := os.ReadFile(filepath.Join(repo, f))
		if err != nil {
			continue
		}
		af, err := parser.ParseFile(token.NewFileSet(), f, src, 0)
		if err != nil {
			continue
		}
		g := &gen{}
		g.constGroups(af)
		d := filepath.Dir(f)
		if pkgGroups[d] == nil {
			pkgGroups[d] = map[string][]string{}
		}
		for k, v := range g.groups {
			pkgGroups[d][k] = v
		}
	}
	for _, f := range files {
		path := filepath.Join(repo, f)
		src, err := os.ReadFile(path)
		if err != nil {
			continue
		}
		fset := token.NewFileSet()
		af, err := parser.ParseFile(fset, path, src, parser.ParseComments)
		if err != nil {
			continue
		}
		g := &gen{fset: fset, src: src, file: f, groups: pkgGroups[filepath.Dir(f)]}
		ast.Inspect(af, g.visit)
		sort.SliceStable(g.out, func(i, j int) bool { return g.out[i].Start < g.out[j].Start })
		all = append(all, g.out...)
	}
	return all
}

type gen struct {
	fset   *token.FileSet
	src    []byte
	file   string
	out    []mutant
	groups map[string][]string // constant name -> names of its const group
}

func (g *gen) off(p token.Pos) int { return g.fset.Position(p).Offset }
func (g *gen) text(n ast.Node) string {
	return string(g.src[g.off(n.Pos()):g.off(n.End())])
}
func (g *gen) add(start, end token.Pos, repl, op, desc string) {
	g.out = append(g.out, mutant{File: g.file, Start: g.off(start), End: g.off(end), New: repl,
		Line: g.fset.Position(start).Line, Op: op, Desc: strings.ReplaceAll(short(desc), "\t", " ")})
}
func short(s string) string {
	s = strings.Join(strings.Fields(s), " ")
	if len(s) > 110 {
		s = s[:110] + "…"
	}
	return s
}

// constGroups: constants declared in one parenthesised const block are interchangeable candidates
func (g *gen) constGroups(af *ast.File) {
	g.groups = map[string][]string{}
	for _, d := range af.Decls {
		gd, ok := d.(*ast.GenDecl)
		if !ok || gd.Tok != token.CONST || !gd.Lparen.IsValid() {
			continue
		}
		var names []string
		for _, s := range gd.Specs {
			for _, n := range s.(*ast.ValueSpec).Names {
				if n.Name != "_" {
					names = append(names, n.Name)
				}
			}
		}
		for _, n := range names {
			g.groups[n] = names
		}
	}
}

var binSwap = map[token.Token][]token.Token{
	token.EQL: {token.NEQ}, token.NEQ: {token.EQL},
	token.LSS: {token.LEQ, token.GEQ}, token.LEQ: {token.LSS}, token.GTR: {token.GEQ, token.LEQ}, token.GEQ: {token.GTR},
	token.LAND: {token.LOR}, token.LOR: {token.LAND},
	token.ADD: {token.SUB}, token.SUB: {token.ADD},
}

// identSub: in one function, a use of a parameter / local variable is replaced by another parameter / local
// of that function ("value taken from the wrong variable"); the compiler filters the ill-typed ones. Only uses
// in argument lists, as the base of a selector, on the right of an assignment and in return statements are
// mutated, and only by variables declared before the use.
func (g *gen) identSub(body *ast.BlockStmt, ft *ast.FuncType) {
	if os.Getenv("MUTGEN_IDENTSUB") == "" || body == nil {
		return
	}
	type decl struct {
		name string
		pos  token.Pos
		obj  *ast.Object
	}
	var decls []decl
	seen := map[*ast.Object]bool{}
	addIdent := func(id *ast.Ident) {
		if id == nil || id.Name == "_" || id.Obj == nil || id.Obj.Kind != ast.Var || seen[id.Obj] {
			return
		}
		seen[id.Obj] = true
		decls = append(decls, decl{id.Name, id.Pos(), id.Obj})
	}
	if ft.Params != nil {
		for _, f := range ft.Params.List {
			for _, n := range f.Names {
				addIdent(n)
			}
		}
	}
	ast.Inspect(body, func(n ast.Node) bool {
		switch x := n.(type) {
		case *ast.FuncLit:
			return false // nested literals are functions of their own
		case *ast.AssignStmt:
			if x.Tok == token.DEFINE {
				for _, l := range x.Lhs {
					if id, ok := l.(*ast.Ident); ok && id.Obj != nil && id.Obj.Pos() == id.Pos() {
						addIdent(id)
					}
				}
			}
		case *ast.ValueSpec:
			for _, n := range x.Names {
				addIdent(n)
			}
		}
		return true
	})
	if len(decls) < 2 {
		return
	}
	mutate := func(e ast.Expr) {
		id, ok := e.(*ast.Ident)
		if !ok || id.Obj == nil || !seen[id.Obj] || id.Obj.Pos() == id.Pos() {
			return
		}
		for _, d := range decls {
			if d.obj == id.Obj || d.name == id.Name || d.pos > id.Pos() {
				continue
			}
			g.add(id.Pos(), id.End(), d.name, "identsub", id.Name+" -> "+d.name+"   in: "+g.lineOf(id))
		}
	}
	ast.Inspect(body, func(n ast.Node) bool {
		switch x := n.(type) {
		case *ast.FuncLit:
			return false
		case *ast.CallExpr:
			for _, a := range x.Args {
				mutate(a)
			}
		case *ast.SelectorExpr:
			mutate(x.X)
		case *ast.AssignStmt:
			for _, r := range x.Rhs {
				mutate(r)
			}
		case *ast.ReturnStmt:
			for _, r := range x.Results {
				mutate(r)
			}
		}
		return true
	})
}

func (g *gen) visit(n ast.Node) bool {
	switch n := n.(type) {
	case *ast.FuncDecl:
		g.identSub(n.Body, n.Type)
	case *ast.FuncLit:
		g.identSub(n.Body, n.Type)
	}
	switch n := n.(type) {
	case *ast.GenDecl:
		if n.Tok == token.CONST || n.Tok == token.IMPORT {
			return false // declarations of constants are not mutated (their uses are)
		}
	case *ast.BinaryExpr:
		for _, t := range binSwap[n.Op] {
			if n.Op == token.ADD && isString(n) {
				continue
			}
			g.add(n.OpPos, n.OpPos+token.Pos(len(n.Op.String())), t.String(), "binop", g.text(n)+"  :  "+n.Op.String()+" -> "+t.String())
		}
		if n.Op == token.LAND || n.Op == token.LOR {
			// drop one operand
			g.add(n.Pos(), n.End(), g.text(n.X), "dropright", g.text(n)+"  ->  "+g.text(n.X))
			g.add(n.Pos(), n.End(), g.text(n.Y), "dropleft", g.text(n)+"  ->  "+g.text(n.Y))
		}
	case *ast.UnaryExpr:
		if n.Op == token.NOT {
			g.add(n.Pos(), n.End(), g.text(n.X), "unnot", g.text(n)+"  ->  "+g.text(n.X))
		}
	case *ast.IfStmt:
		if _, isNot := n.Cond.(*ast.UnaryExpr); !isNot {
			g.add(n.Cond.Pos(), n.Cond.End(), "!("+g.text(n.Cond)+")", "negif", "if "+g.text(n.Cond))
		}
		if n.Else != nil {
			// drop the else branch
			g.add(n.Body.End(), n.Else.End(), "", "dropelse", "if "+g.text(n.Cond)+" {…} else …")
		}
	case *ast.ForStmt:
		if n.Cond != nil {
			g.add(n.Cond.Pos(), n.Cond.End(), "!("+g.text(n.Cond)+")", "negfor", "for "+g.text(n.Cond))
		}
	case *ast.Ident:
		switch n.Name {
		case "true":
			g.add(n.Pos(), n.End(), "false", "bool", "true -> false")
		case "false":
			g.add(n.Pos(), n.End(), "true", "bool", "false -> true")
		default:
			if grp, ok := g.groups[n.Name]; ok && len(grp) > 1 {
				// the two neighbours in the const block
				for i, c := range grp {
					if c != n.Name {
						continue
					}
					for _, j := range []int{i - 1, i + 1} {
						if j >= 0 && j < len(grp) {
							g.add(n.Pos(), n.End(), grp[j], "const", n.Name+" -> "+grp[j]+"   in: "+g.lineOf(n))
						}
					}
				}
			}
		}
	case *ast.SelectorExpr:
		// token.X constants
		if id, ok := n.X.(*ast.Ident); ok && id.Name == "token" {
			alt := map[string]string{"BREAK": "CONTINUE", "CONTINUE": "BREAK", "DEFINE": "ASSIGN", "ASSIGN": "DEFINE", "GOTO": "FALLTHROUGH", "FALLTHROUGH": "GOTO"}
			if a, ok := alt[n.Sel.Name]; ok {
				g.add(n.Sel.Pos(), n.Sel.End(), a, "token", "token."+n.Sel.Name+" -> token."+a+"   in: "+g.lineOf(n))
			}
		}
	case *ast.BasicLit:
		if n.Kind == token.INT {
			switch n.Value {
			case "0":
				g.add(n.Pos(), n.End(), "1", "int", "0 -> 1   in: "+g.lineOf(n))
			case "1":
				g.add(n.Pos(), n.End(), "0", "int", "1 -> 0   in: "+g.lineOf(n))
				g.add(n.Pos(), n.End(), "2", "int", "1 -> 2   in: "+g.lineOf(n))
			}
		}
	case *ast.BlockStmt:
		g.stmtList(n.List)
	case *ast.CaseClause:
		g.stmtList(n.Body)
		if len(n.List) > 1 {
			// drop one alternative of a case list
			for i, e := range n.List {
				var keep []string
				for j, o := range n.List {
					if j != i {
						keep = append(keep, g.text(o))
					}
				}
				g.add(n.List[0].Pos(), n.List[len(n.List)-1].End(), strings.Join(keep, ", "), "dropcase", "case list without "+g.text(e))
			}
		}
	case *ast.CommClause:
		g.stmtList(n.Body)
	case *ast.CallExpr:
		// swap two adjacent arguments (the compiler filters the ill-typed ones)
		for i := 0; i+1 < len(n.Args); i++ {
			a, b := n.Args[i], n.Args[i+1]
			if g.text(a) == g.text(b) {
				continue
			}
			g.add(a.Pos(), b.End(), g.text(b)+string(g.src[g.off(a.End()):g.off(b.Pos())])+g.text(a), "swapargs", g.text(n.Fun)+"(… "+g.text(a)+" <-> "+g.text(b)+" …)")
		}
	}
	return true
}

func (g *gen) lineOf(n ast.Node) string {
	s := g.off(n.Pos())
	e := s
	for s > 0 && g.src[s-1] != '\n' {
		s--
	}
	for e < len(g.src) && g.src[e] != '\n' {
		e++
	}
	return strings.TrimSpace(string(g.src[s:e]))
}

func isString(n *ast.BinaryExpr) bool {
	has := false
	ast.Inspect(n, func(x ast.Node) bool {
		if l, ok := x.(*ast.BasicLit); ok && l.Kind == token.STRING {
			has = true
		}
		return true
	})
	return has
}

// stmtList: delete one statement (calls, plain assignments, inc/dec, branch and bare/bool returns stay:
// the compiler filters deletions that leave a variable unused or a function without return)
func (g *gen) stmtList(list []ast.Stmt) {
	for _, s := range list {
		switch s := s.(type) {
		case *ast.ExprStmt:
			if c, ok := s.X.(*ast.CallExpr); ok {
				if id, ok := c.Fun.(*ast.Ident); ok && id.Name == "panic" {
					continue
				}
				if bytes.HasPrefix([]byte(g.text(c.Fun)), []byte("log.")) {
					continue // logging is not behaviour any property speaks about
				}
			}
			g.add(s.Pos(), s.End(), "", "delstmt", "delete: "+g.text(s))
		case *ast.AssignStmt:
			if s.Tok != token.DEFINE {
				g.add(s.Pos(), s.End(), "", "delstmt", "delete: "+g.text(s))
			}
		case *ast.IncDecStmt:
			g.add(s.Pos(), s.End(), "", "delstmt", "delete: "+g.text(s))
		case *ast.DeferStmt:
			g.add(s.Pos(), s.End(), "", "delstmt", "delete: "+g.text(s))
		case *ast.BranchStmt:
			g.add(s.Pos(), s.End(), "", "delstmt", "delete: "+g.text(s))
		case *ast.ReturnStmt:
			if len(s.Results) == 0 {
				g.add(s.Pos(), s.End(), "", "delstmt", "delete: return")
			}
		case *ast.IfStmt:
			if s.Else == nil && s.Init == nil {
				g.add(s.Pos(), s.End(), "", "delif", "delete: if "+g.text(s.Cond)+" {…}")
			}
		}
	}
}
