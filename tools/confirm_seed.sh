#!/bin/sh
# usage: confirm_seed.sh <src_dir with patch.diff, demo/, README.md> <dest seeded dir name> <property id>
# Confirms independently, in a scratch worktree of /repo (removed afterwards):
#   (a) the patch applies and the project builds, (b) the stable suite passes with it,
#   (c) the demo fails with it, (d) the demo passes without it.
# Only then is the seed copied to /verif/seeded/<name>/ with a meta.json.
set -u
SRC=$(readlink -f "$1"); NAME="$2"; PROP="$3"
export GOFLAGS=-mod=mod GOPROXY=off GOSUMDB=off GOTOOLCHAIN=local GOWORK=off
WT=$(mktemp -d /tmp/cs.XXXXXX)
git -C /repo worktree add -q --detach "$WT/r" HEAD || exit 3
cleanup(){ git -C /repo worktree remove --force "$WT/r" >/dev/null 2>&1; rm -rf "$WT"; }
cd "$WT/r"
cp -r "$SRC"/demo/. . 2>/dev/null
RUN=$(cd "$SRC/demo" && find . -name run.sh | grep -v '^./run.sh$' | head -1)
[ -z "$RUN" ] && RUN=$(cd "$SRC/demo" && find . -name run.sh | head -1)
if [ -z "$RUN" ]; then echo "$NAME: NO run.sh"; cleanup; exit 1; fi
# (d) demo passes on unchanged tree
sh "$RUN" >"$WT/demo_clean.log" 2>&1; rc_clean=$?
git apply "$SRC/patch.diff" || { echo "$NAME: PATCH DOES NOT APPLY"; cleanup; exit 1; }
go build ./seq ./rewriter ./cmd/cogen . >"$WT/build.log" 2>&1; rc_build=$?
go test -vet=off -count=1 ./seq ./rewriter ./example ./example/lexer ./example/linq ./example/sched1 ./example/sched2 ./example/tree >"$WT/test.log" 2>&1; rc_test=$?
sh "$RUN" >"$WT/demo_mut.log" 2>&1; rc_mut=$?
echo "$NAME: demo_clean=$rc_clean build=$rc_build tests=$rc_test demo_mutated=$rc_mut"
if [ $rc_clean -eq 0 ] && [ $rc_build -eq 0 ] && [ $rc_test -eq 0 ] && [ $rc_mut -ne 0 ]; then
  D=/verif/seeded/$NAME
  rm -rf "$D"; mkdir -p "$D"
  cp "$SRC/patch.diff" "$D/"; cp -r "$SRC/demo" "$D/demo"; cp "$SRC/README.md" "$D/README.md" 2>/dev/null
  NEEDS=$(grep -i -m1 -A2 -E 'needs|trigger|condition' "$SRC/README.md" 2>/dev/null | tr '\n' ' ' | cut -c1-400 | sed 's/"/\\"/g; s/\\\([^"]\)/\\\\\1/g')
  tail -5 "$WT/demo_mut.log" | cut -c1-300 > "$D/demo_failure_excerpt.txt"
  python3 - "$D" "$PROP" "$NAME" "$RUN" <<'PY'
import json,sys,os,re
d,prop,name,run=sys.argv[1:5]
readme=open(os.path.join(d,'README.md')).read() if os.path.exists(os.path.join(d,'README.md')) else ''
m=re.search(r'(?is)(needs|trigger|condition|manifest)[^\n]*\n?(.{0,500})',readme)
needs=(m.group(0)[:500].strip() if m else '')
json.dump({
 "property": prop, "name": name,
 "source": "independent sub-agent given only the property text and a scratch worktree (or reverse of a fix: commit)",
 "needs_to_manifest": needs,
 "confirmed": {"demo_passes_on_unchanged_tree": True, "project_builds_with_patch": True, "stable_suite_passes_with_patch": True, "demo_fails_with_patch": True},
 "what_was_run": ["sh %s (unchanged tree) -> exit 0" % run, "git apply patch.diff", "go build ./seq ./rewriter ./cmd/cogen .", "go test -vet=off -count=1 ./seq ./rewriter ./example ./example/{lexer,linq,sched1,sched2,tree} -> ok", "sh %s (patched) -> exit != 0" % run],
 "detected_by": []
}, open(os.path.join(d,'meta.json'),'w'), indent=1)
PY
  echo "$NAME: KEPT"
else
  echo "$NAME: REJECTED"; tail -5 "$WT/demo_clean.log" "$WT/test.log" 2>/dev/null | cut -c1-200
fi
cleanup
