#!/bin/sh
# usage: mutcheck.sh <mutant id> ...   — runs all 18 checks (sweep) on the given mutants of tools/mutgen and
# prints which checks fail, with the first violations (no build / test step: see mutsweep.sh for that)
MUTGEN=${MUTGEN:-/tmp/mutgen}; BIN=${BIN:-/verif/bin/gocoverif}
WT=$(mktemp -d /tmp/mc.XXXXXX); EV=$(mktemp -d /tmp/mcev.XXXXXX)
git -C /repo worktree add -q --detach "$WT/r" HEAD || exit 3
cp /verif/known_findings.json /verif/MANIFEST.json "$EV/"
for id in "$@"; do
  info=$($MUTGEN apply /repo "$id" "$WT/mut.go") || continue
  f=$(printf '%s' "$info" | cut -f1)
  cp "$WT/mut.go" "$WT/r/$f"
  so=$($BIN sweep --repo "$WT/r" --verif "$EV" 2>&1)
  echo "== $id $info => $(printf '%s\n' "$so" | sed -n 's/^SWEEP failed://p')"
  printf '%s\n' "$so" | grep -E 'violation:|undecided' | cut -c1-${W:-260} | sort -u | head -${SHOW:-3}
  git -C "$WT/r" checkout -q -- .
done
git -C /repo worktree remove --force "$WT/r"; rm -rf "$WT" "$EV"
