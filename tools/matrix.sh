#!/bin/sh
# Runs every claimed check against every seed in /verif/seeded (each applied to a scratch
# worktree of /repo, never to /repo itself) and prints which checks detect which seed.
# usage: matrix.sh [seed-name ...]
cd /verif
SEEDS="$@"; [ -z "$SEEDS" ] && SEEDS=$(ls seeded | grep -v '\.md$')
PROPS=$(${BIN:-./bin/gocoverif} list)
for s in $SEEDS; do
  P=seeded/$s/patch.diff; [ -f "$P" ] || continue
  WT=$(mktemp -d /tmp/mx.XXXXXX); EV=$(mktemp -d /tmp/mxev.XXXXXX)
  git -C /repo worktree add -q --detach "$WT/r" HEAD
  if ! git -C "$WT/r" apply "$(readlink -f $P)" 2>/dev/null; then echo "$s: PATCH-DOES-NOT-APPLY"; git -C /repo worktree remove --force "$WT/r"; rm -rf "$WT" "$EV"; continue; fi
  cp known_findings.json MANIFEST.json "$EV/"
  det=""
  if [ -n "${SWEEP:-}" ]; then
    # one load of the tree for all 18 checks (gocoverif sweep): same verdicts, ~15x faster
    det=$(${BIN:-./bin/gocoverif} sweep --repo "$WT/r" --verif "$EV" 2>/dev/null | sed -n 's/^SWEEP failed://p')
    PROPS_RUN=""
  else PROPS_RUN=$PROPS; fi
  for id in $PROPS_RUN; do
    ${BIN:-./bin/gocoverif} check "$id" --repo "$WT/r" --verif "$EV" --no-controls >/dev/null 2>&1; rc=$?
    [ $rc -ne 0 ] && det="$det $id"
  done
  echo "$s: detected-by:$det"
  git -C /repo worktree remove --force "$WT/r"; rm -rf "$WT" "$EV"
done
