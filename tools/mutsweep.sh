#!/bin/sh
# Mutation sweep: measures the checks against first-order syntactic mutants of go-co (tools/mutgen).
# usage: mutsweep.sh <file with mutant ids, one per line> <result file>
# For every mutant (applied to a scratch worktree of /repo, never to /repo itself):
#   nocompile                    the mutant does not build                         (not a realistic change)
#   testkilled                   the existing stable suite fails                   (the tests settle it)
#   caught: Cxx ...              builds, passes the suite, and these checks fail   (what the checks add)
#   SURVIVED                     builds, passes the suite, all 18 checks pass      (equivalent mutant, or a miss: triage)
# MUTGEN and BIN pin the tool binaries (defaults: /tmp/mutgen, /verif/bin/gocoverif).
IDS="$1"; OUT="$2"
MUTGEN=${MUTGEN:-/tmp/mutgen}; BIN=${BIN:-/verif/bin/gocoverif}
export GOFLAGS=-mod=mod GOPROXY=off GOSUMDB=off GOTOOLCHAIN=local GOWORK=off
WT=$(mktemp -d /tmp/ms.XXXXXX); EV=$(mktemp -d /tmp/msev.XXXXXX)
git -C /repo worktree add -q --detach "$WT/r" HEAD || exit 3
cp /verif/known_findings.json /verif/MANIFEST.json "$EV/"
: > "$OUT"
while read -r id; do
  [ -z "$id" ] && continue
  info=$($MUTGEN apply /repo "$id" "$WT/mut.go") || { echo "$id	ERROR" >> "$OUT"; continue; }
  f=$(printf '%s' "$info" | cut -f1)
  cp "$WT/mut.go" "$WT/r/$f"
  verdict=""
  if ! (cd "$WT/r" && go build ./seq ./rewriter ./cmd/cogen . ) >/dev/null 2>&1; then verdict="nocompile"
  elif ! (cd "$WT/r" && timeout 600 go test -vet=off -count=1 -timeout 300s ./seq ./rewriter ./example ./example/lexer ./example/linq ./example/sched1 ./example/sched2 ./example/tree) >/dev/null 2>&1; then verdict="testkilled"
  else
    git -C "$WT/r" checkout -q -- . ; git -C "$WT/r" clean -fdxq; cp "$WT/mut.go" "$WT/r/$f"
    so=$($BIN sweep --repo "$WT/r" --verif "$EV" 2>/dev/null)
    det=$(printf '%s\n' "$so" | sed -n 's/^SWEEP failed://p')
    if ! printf '%s\n' "$so" | grep -q '^SWEEP failed:'; then verdict="SWEEPERROR"
    elif [ -n "$det" ]; then verdict="caught:$det"; else verdict="SURVIVED"; fi
  fi
  printf '%s\t%s\t%s\n' "$id" "$verdict" "$info" >> "$OUT"
  git -C "$WT/r" checkout -q -- . ; git -C "$WT/r" clean -fdxq
done < "$IDS"
git -C /repo worktree remove --force "$WT/r"; rm -rf "$WT" "$EV"
echo done >> "$OUT"
