#!/bin/sh
# usage: try_patch.sh [-R] <patch.diff> <Cxx> [Cyy ...]
# Applies a patch to a scratch worktree of /repo (never to /repo itself), runs the
# given checks against it with a scratch evidence dir, prints verdict per check.
set -u
REV=""
if [ "$1" = "-R" ]; then REV="-R"; shift; fi
PATCH=$(readlink -f "$1"); shift
WT=$(mktemp -d /tmp/vt.XXXXXX)
EV=$(mktemp -d /tmp/vtev.XXXXXX)
git -C /repo worktree add -q --detach "$WT/r" HEAD || exit 3
if ! git -C "$WT/r" apply $REV "$PATCH"; then echo "PATCH DOES NOT APPLY"; git -C /repo worktree remove --force "$WT/r"; rm -rf "$WT" "$EV"; exit 3; fi
cp /verif/known_findings.json "$EV/" 2>/dev/null
cp /verif/MANIFEST.json "$EV/" 2>/dev/null
for id in "$@"; do
  out=$(${BIN:-/verif/bin/gocoverif} check "$id" --repo "$WT/r" --verif "$EV" --no-controls 2>&1); rc=$?
  nv=$(printf '%s\n' "$out" | grep -c '^VIOLATION')
  echo "== $id exit=$rc violations=$nv"
  printf '%s\n' "$out" | grep -E 'violation:|undecided' | cut -c1-400 | head -${SHOW:-6}
done
git -C /repo worktree remove --force "$WT/r"; rm -rf "$WT" "$EV"
