package main

// OPT.* — the optimisation pass (properties C02, C07, C13, C11).
//
// OPT.WHITELIST / OPT.BINDLIT: optimizeDelayCall is abstractly evaluated with the
// pattern-combinator library treated as *term constructors*, which yields the
// matcher pattern as a tree. From it the set of callees under which a Delay is
// elided is read off and checked against what the analysis of package seq
// certifies: an unconditional entry must be a Seq constructor whose parameters
// are all function- or Seq-typed and that runs nothing when called (SEQ.LAZY);
// an entry with a value parameter (Bind) is only admissible when that position
// is matched by a basic-literal pattern.
//
// OPT.ETA: the callback of etaReduction is abstractly evaluated on concrete
// closure shapes × callee classes (declared function, variable, builtin, type
// name, method value, generic function, ...): a closure may be replaced by its
// callee only in the rows where that preserves meaning.

import (
	"fmt"
	"go/token"
	"go/types"
	"os"
	"sort"
	"strings"

	"golang.org/x/tools/go/ssa"
)

func isMatcherLib(fn *ssa.Function) bool {
	if fn == nil {
		return false
	}
	obj := fn.Object()
	if obj == nil || obj.Pkg() == nil {
		if o := fn.Origin(); o != nil && o.Object() != nil && o.Object().Pkg() != nil {
			return strings.Contains(o.Object().Pkg().Path(), "goghcrow/go-matcher")
		}
		return false
	}
	return strings.Contains(obj.Pkg().Path(), "goghcrow/go-matcher")
}

// termName: function name with short type arguments, e.g. MkPattern[BasicLitPattern]
func termName(fn *ssa.Function) string {
	name := fn.Name()
	if i := strings.Index(name, "["); i >= 0 {
		base := name[:i]
		var ts []string
		for _, t := range fn.TypeArgs() {
			s := t.String()
			if j := strings.LastIndex(s, "."); j >= 0 {
				s = s[j+1:]
			}
			ts = append(ts, s)
		}
		return base + "[" + strings.Join(ts, ",") + "]"
	}
	return name
}

func (r *rwRT) optInterp(root *ssa.Function) *Interp {
	in := r.interp(rwConfig{root: root, inlineAll: true})
	in.MaxRecur = 12
	in.MaxDepth = 30
	in.MaxVisits = 12
	in.OnCall = wrapOnCall(in.OnCall, func(cc *CallCtx) []Answer {
		if cc.Fn != nil && isMatcherLib(cc.Fn) && cc.Fn.Name() != "Match" {
			return []Answer{{Ret: []AV{Expr{Op: termName(cc.Fn), Args: cc.Args}}, NoEvent: true}}
		}
		if cc.Fn != nil && cc.Fn.Name() == "MustLookup" && len(cc.Args) == 2 {
			if s, ok := asString(cc.Args[1]); ok {
				return []Answer{{Ret: []AV{Sym{Name: "obj:" + s, NN: true}}, NoEvent: true}}
			}
		}
		// a looked-up object of package seq: its name, and its type (the functions of seq have signature types,
		// one per function)
		name, recv := "", AV(nil)
		switch {
		case cc.Method != "":
			name, recv = cc.Method, cc.Recv
		case cc.Fn != nil && fnPkgPath(cc.Fn) == "go/types" && cc.Fn.Signature.Recv() != nil && len(cc.Args) == 1:
			name, recv = cc.Fn.Name(), cc.Args[0]
		}
		if recv != nil {
			rv := unwrap(recv)
			if fr, ok := rv.(FieldRef); ok { // the embedded object of a *types.Func
				rv = unwrap(fr.Base)
			}
			if sy, ok := rv.(Sym); ok && strings.HasPrefix(sy.Name, "obj:"+pathSeq+".") {
				short := strings.TrimPrefix(sy.Name, "obj:"+pathSeq+".")
				switch name {
				case "Name":
					return []Answer{{Ret: []AV{mkString(short)}, NoEvent: true}}
				case "Type":
					if tp := r.w.importedPkg(pathRw, "go/types"); tp != nil {
						return []Answer{{Ret: []AV{Dyn{T: types.NewPointer(tp.Scope().Lookup("Signature").Type()), V: Sym{Name: "sigof:" + short, NN: true, Uniq: true}}}, NoEvent: true}}
					}
				}
			}
		}
		return nil
	})
	return in
}

// matchCall finds the call o.m.Match(pattern, callback) on the single path of fn.
func (r *rwRT) matchCall(fn *ssa.Function) (*State, AV, AV, *Interp) {
	in := r.optInterp(fn)
	// the receiver is the optimizer its constructor builds (tables it keeps start out as the constructor leaves
	// them, e.g. empty memo maps); a symbolic receiver is the fallback
	var recv AV = Sym{Name: "o", NN: true}
	var st0 *State
	if mk := r.w.FuncOpt(pathRw, "mkOptimizer"); mk != nil && mk.Signature.Params().Len() == 1 {
		inC := r.optInterp(mk)
		co := inC.Run(nil, mk, []AV{Sym{Name: "o.m", NN: true}}, nil)
		r.account(inC)
		if len(co) == 1 && !co[0].Panicked && len(co[0].Ret) == 1 {
			if ref, ok := co[0].Ret[0].(Ref); ok && co[0].St.Obj(ref) != nil {
				recv, st0 = ref, co[0].St
			}
		}
	}
	outs := in.Run(st0, fn, []AV{recv}, nil)
	r.account(in)
	if (len(outs) != 1 || outs[0].Panicked || outs[0].St.Truncated) && st0 != nil {
		// fall back to the symbolic receiver
		in = r.optInterp(fn)
		outs = in.Run(nil, fn, []AV{Sym{Name: "o", NN: true}}, nil)
		r.account(in)
	}
	if len(outs) != 1 || outs[0].Panicked || outs[0].St.Truncated {
		undecided("%s is not a single complete path (%d paths)", relName(fn), len(outs))
	}
	for _, e := range outs[0].St.Events {
		if e.Kind == "call" && e.Fn != nil && e.Fn.Name() == "Match" && len(e.Args) == 3 {
			return outs[0].St, e.Args[1], e.Args[2], in
		}
	}
	// the pass may build its pattern once and hand back the function that runs it
	if len(outs[0].Ret) == 1 {
		if cl, ok := outs[0].Ret[0].(Closure); ok {
			ro := in.Apply(outs[0].St, cl, nil)
			r.account(in)
			if len(ro) == 1 && !ro[0].Panicked && !ro[0].St.Truncated {
				for _, e := range ro[0].St.Events {
					if e.Kind == "call" && e.Fn != nil && e.Fn.Name() == "Match" && len(e.Args) == 3 {
						return ro[0].St, e.Args[1], e.Args[2], in
					}
				}
			}
		}
	}
	undecided("%s does not call Match(pattern, callback)", relName(fn))
	return nil, nil, nil, nil
}

// flattenOr returns the alternatives of an Or(m, a, b) chain.
func flattenOr(v AV) []AV {
	v = unwrap(v)
	if e, ok := v.(Expr); ok && strings.HasPrefix(e.Op, "Or") && len(e.Args) == 3 {
		return append(flattenOr(e.Args[1]), flattenOr(e.Args[2])...)
	}
	return []AV{v}
}

// calleesOfTerm: the functions of package seq a callee pattern accepts. FuncCallee(m, obj, name) names one;
// FuncCalleeOf(m, predicate) accepts what its predicate accepts: the predicate is run on every function of seq
// (its name and type answered from the package), and must give a definite answer for each.
func (r *rwRT) calleesOfTerm(st *State, in *Interp, v AV) ([]string, bool) {
	if n, ok := calleeOfTerm(v); ok {
		return []string{n}, true
	}
	e, ok := unwrap(v).(Expr)
	if !ok || !strings.HasPrefix(e.Op, "FuncCalleeOf") || len(e.Args) != 2 {
		return nil, false
	}
	pred, ok := e.Args[1].(Closure)
	if !ok {
		return nil, false
	}
	tp := r.w.importedPkg(pathRw, "go/types")
	if tp == nil {
		return nil, false
	}
	var names []string
	scope := r.w.Pkgs[pathSeq].Types.Scope()
	for _, n := range scope.Names() {
		if _, isFn := scope.Lookup(n).(*types.Func); !isFn {
			continue
		}
		f := Dyn{T: types.NewPointer(tp.Scope().Lookup("Func").Type()), V: Sym{Name: "obj:" + pathSeq + "." + n, NN: true}}
		outs := in.Apply(st, pred, []AV{Sym{Name: "matchctx", NN: true}, f})
		r.account(in)
		yes, no := 0, 0
		for _, o := range outs {
			if o.Panicked || len(o.Ret) != 1 {
				if os.Getenv("VERIF_DEBUG_CALLEE") != "" {
					fmt.Fprintln(os.Stderr, "CALLEE", n, "panicked/ret", pathSummary(o))
				}
				return nil, false
			}
			b, known := asBool(o.Ret[0])
			if !known {
				if os.Getenv("VERIF_DEBUG_CALLEE") != "" {
					fmt.Fprintln(os.Stderr, "CALLEE", n, "unknown", canon(o.Ret[0]), pathSummary(o))
				}
				return nil, false
			}
			if b {
				yes++
			} else {
				no++
			}
		}
		if yes > 0 && no > 0 {
			return nil, false
		}
		if yes > 0 {
			names = append(names, n)
		}
	}
	return names, len(names) > 0
}

// calleeOfTerm: FuncCallee(m, obj:<path>.<Name>, "Name") -> Name
func calleeOfTerm(v AV) (string, bool) {
	e, ok := unwrap(v).(Expr)
	if !ok || !strings.HasPrefix(e.Op, "FuncCallee") || len(e.Args) != 3 {
		return "", false
	}
	s, ok := e.Args[1].(Sym)
	if !ok || !strings.HasPrefix(s.Name, "obj:"+pathSeq+".") {
		return "", false
	}
	return strings.TrimPrefix(s.Name, "obj:"+pathSeq+"."), true
}

func (r *rwRT) ruleOptWhitelist(s *seqRT) {
	c := r.c
	c.min("OPT.WHITELIST", 4)
	c.min("OPT.BINDLIT", 1)
	fn := r.method("optimizer", "optimizeDelayCall")
	c.fn(relName(fn))
	pos := r.w.FnPos(fn)
	st, pattern, cb, in := r.matchCall(fn)
	// outer shape: AndEx(m, FuncCallee(Delay), &CallExpr{Args: [&FuncLit{Body: Block{[Return{[Bind(m, name, alts)]}]}}]})
	top, ok := unwrap(pattern).(Expr)
	if !ok || !strings.HasPrefix(top.Op, "AndEx") || len(top.Args) != 3 {
		c.und("OPT.WHITELIST", "pattern shape", pos, "the Delay-elision pattern is not AndEx(callee, call shape): "+st.Render(pattern))
		return
	}
	outers, isDelay := r.calleesOfTerm(st, in, top.Args[1])
	if !isDelay || len(outers) != 1 || outers[0] != "Delay" {
		c.bad("OPT.WHITELIST", "pattern shape", pos, "the elision pattern is not anchored on calls of seq.Delay: "+st.Render(top.Args[1]))
		return
	}
	var bound AV
	var bindName string
	shape := nd("CallExpr", map[string]Pat{"Args": lst(ndOpen("FuncLit", map[string]Pat{"Body": nd("BlockStmt", map[string]Pat{"List": lst(nd("ReturnStmt", map[string]Pat{"Results": lst(pBind{"ret", pAny{}})}))})}))})
	m := &matcher{st: st, binds: map[string]AV{}}
	if err := m.match(top.Args[2], shape, "pattern"); err != nil {
		c.bad("OPT.WHITELIST", "pattern shape", pos, "the thunk pattern is not `func() { return <call> }` with exactly one statement (anything else in the thunk would be dropped): "+err.Error())
		return
	}
	if be, ok := m.binds["ret"].(Expr); ok && strings.HasPrefix(be.Op, "Bind") && len(be.Args) == 3 {
		bindName, _ = asString(be.Args[1])
		bound = be.Args[2]
	} else if d, ok := m.binds["ret"].(Dyn); ok {
		if be, ok := d.V.(Expr); ok && strings.HasPrefix(be.Op, "Bind") && len(be.Args) == 3 {
			bindName, _ = asString(be.Args[1])
			bound = be.Args[2]
		}
	}
	if bound == nil {
		c.und("OPT.WHITELIST", "pattern shape", pos, "the returned call is not captured by a binding pattern: "+st.Render(m.binds["ret"]))
		return
	}
	c.ok("OPT.WHITELIST", "pattern shape", pos, "Delay(func() Seq { return <call> }) with a single return statement; the call is bound as "+fmt.Sprintf("%q", bindName))
	// callback: c.Replace(ctx.Binds[bindName])
	{
		ctxObj := st.alloc(&Obj{Kind: 's', Fields: map[string]AV{"Binds": MapV{M: map[string]AV{mkString(bindName).String(): Sym{Name: "boundcall", NN: true}}}}})
		ctxV := StructV{Fields: map[string]AV{"MatchCtx": ctxObj, "File": Sym{Name: "file"}}}
		outs := in.Apply(st, cb, []AV{Sym{Name: "cursor", NN: true}, ctxV})
		good := len(outs) == 1 && !outs[0].Panicked
		if good {
			edits := cursorEdits(outs[0].St, len(st.Events))
			good = len(edits) == 1 && edits[0].Fn.Name() == "Replace" && strings.Contains(edits[0].Args[1].String(), "boundcall")
		}
		c.check(good, "OPT.WHITELIST", "replacement", pos, "the matched Delay call is replaced by exactly the bound call expression", "the callback does not replace the Delay call by the bound call")
	}
	// alternatives
	type cert struct {
		ok  bool
		why string
	}
	certify := func(name string) cert {
		obj, _ := r.w.Pkgs[pathSeq].Types.Scope().Lookup(name).(*types.Func)
		if obj == nil || !obj.Exported() {
			return cert{false, "not an exported function of seq"}
		}
		sig := obj.Type().(*types.Signature)
		for i := 0; i < sig.Params().Len(); i++ {
			t := sig.Params().At(i).Type()
			if _, isFn := t.Underlying().(*types.Signature); !isFn {
				return cert{false, fmt.Sprintf("parameter %s has the value type %s: its argument expression would be evaluated when the enclosing Seq is built instead of when the thunk runs", sig.Params().At(i).Name(), t)}
			}
		}
		if sig.Results().Len() != 1 {
			return cert{false, "does not return a Seq"}
		}
		// SEQ.LAZY established by abstract evaluation in this run
		sin := s.interp()
		var args []AV
		for i := 0; i < sig.Params().Len(); i++ {
			args = append(args, Sym{Name: sig.Params().At(i).Name(), NN: true})
		}
		outs := sin.Run(nil, s.w.Func(pathSeq, name), args, nil)
		s.account(sin)
		for _, o := range outs {
			if o.Panicked {
				return cert{false, "constructor can panic"}
			}
			for _, e := range o.St.Events {
				if e.Kind != "load" {
					return cert{false, "constructor has an effect when called: " + e.String()}
				}
			}
		}
		return cert{true, "all parameters function/Seq-typed; calling it only allocates a closure"}
	}
	var names []string
	for _, alt := range flattenOr(bound) {
		if ns, ok := r.calleesOfTerm(st, in, alt); ok {
			for _, name := range ns {
				names = append(names, name)
				ct := certify(name)
				c.check(ct.ok, "OPT.WHITELIST", "Delay elided around seq."+name+"(...)", pos, ct.why, "seq."+name+" is whitelisted unconditionally but is not an effect-free constructor: "+ct.why)
			}
			continue
		}
		// conditional alternative: AndEx(m, FuncCallee(N), &CallExpr{Args: [...]})
		ae, ok := unwrap(alt).(Expr)
		if ok && strings.HasPrefix(ae.Op, "AndEx") && len(ae.Args) == 3 {
			cns, isCallee := r.calleesOfTerm(st, in, ae.Args[1])
			name := ""
			if isCallee && len(cns) == 1 {
				name = cns[0]
			} else {
				isCallee = false
			}
			callObj := st.Obj(unwrap(ae.Args[2]))
			if isCallee && callObj != nil {
				obj, _ := r.w.Pkgs[pathSeq].Types.Scope().Lookup(name).(*types.Func)
				args, _ := callObj.Fields["Args"].(SliceV)
				if obj == nil || len(args.Elems) != obj.Type().(*types.Signature).Params().Len() {
					c.bad("OPT.BINDLIT", "Delay elided around seq."+name+"(<patterns>)", pos, "argument patterns do not line up with the parameters of seq."+name)
					continue
				}
				sig := obj.Type().(*types.Signature)
				good := true
				why := ""
				for i, a := range args.Elems {
					t := sig.Params().At(i).Type()
					_, isFn := t.Underlying().(*types.Signature)
					pe, _ := unwrap(a).(Expr)
					switch {
					case isFn:
						// any expression of function type is fine here only if it is itself effect-free; generated code always passes a func literal
					case strings.HasPrefix(pe.Op, "MkPattern[BasicLitPattern]"), strings.HasPrefix(pe.Op, "Wildcard[BasicLitPattern]"):
						// literal only: a pattern of the basic-literal pattern type matches *ast.BasicLit nodes only, whatever
						// its predicate (the library's Wildcard[T] is MkPattern[T] with a constant-true predicate)
					default:
						good = false
						why = fmt.Sprintf("value parameter %s is matched by %s, which accepts more than basic literals: the yielded expression would be evaluated early (when the enclosing Seq is built) and only once", sig.Params().At(i).Name(), st.Render(a))
					}
				}
				c.check(good, "OPT.BINDLIT", "Delay elided around seq."+name+"(<patterns>)", pos, "every value-typed argument position is restricted to basic literals", why)
				names = append(names, name+"(literal)")
				continue
			}
		}
		c.und("OPT.WHITELIST", "alternative "+st.Render(alt), pos, "unrecognised alternative in the elision pattern")
	}
	sort.Strings(names)
	c.Notes = append(c.Notes, "Delay elision whitelist read from the pattern: "+strings.Join(names, ", "))
}

// ------------------------------------------------------------------ OPT.ETA

type etaScenario struct {
	name     string
	params   [][2]string // (name, objectKey) ; type "..." marks variadic via variadic flag
	args     []string    // names of identifier arguments; "#call" = non-identifier argument
	argObjs  []string    // object key of each ident argument ("" = same as the like-named param)
	variadic bool
	ellipsis bool
	fun      string // callee class
	same     bool   // types identical
	may      bool   // replacement preserves meaning
	// partSame: answer for a comparison of only the result tuples / only the parameter tuples
	// ("" = same as `same`): a comparison of a part must not stand in for the whole type
	resSame, parSame string
}

func (r *rwRT) ruleOptEta() {
	c := r.c
	c.min("OPT.ETA", 20)
	fn := r.method("optimizer", "etaReduction")
	c.fn(relName(fn))
	pos := r.w.FnPos(fn)
	st0, pattern, cb, in := r.matchCall(fn)
	// pattern: func(<params>) { return <fun>(<args>) }
	m := &matcher{st: st0, binds: map[string]AV{}}
	shape := ndOpen("FuncLit", map[string]Pat{
		"Type": ndOpen("FuncType", map[string]Pat{"Params": pBind{"params", pAny{}}}),
		"Body": nd("BlockStmt", map[string]Pat{"List": lst(nd("ReturnStmt", map[string]Pat{"Results": lst(nd("CallExpr", map[string]Pat{"Fun": pBind{"fun", pAny{}}, "Args": pBind{"args", pAny{}}}))}))}),
	})
	// ... or with the whole call bound to one variable and taken apart in the callback
	wholeCall := false
	if err := m.match(pattern, shape, "pattern"); err != nil {
		m = &matcher{st: st0, binds: map[string]AV{}}
		shape2 := ndOpen("FuncLit", map[string]Pat{
			"Type": ndOpen("FuncType", map[string]Pat{"Params": pBind{"params", pAny{}}}),
			"Body": nd("BlockStmt", map[string]Pat{"List": lst(nd("ReturnStmt", map[string]Pat{"Results": lst(pBind{"call", pAny{}})}))}),
		})
		if err2 := m.match(pattern, shape2, "pattern"); err2 != nil {
			c.und("OPT.ETA", "pattern shape", pos, "the eta pattern is not `func(params) { return fun(args) }`: "+err.Error())
			return
		}
		if e, ok := unwrap(m.binds["call"]).(Expr); !ok || !strings.Contains(e.Op, "CallExpr") {
			c.und("OPT.ETA", "pattern shape", pos, "the eta pattern is not `func(params) { return fun(args) }`: the returned expression is not restricted to calls")
			return
		}
		wholeCall = true
	}
	varName := func(v AV) string {
		if e, ok := unwrap(v).(Expr); ok && strings.HasPrefix(e.Op, "MkVar") && len(e.Args) == 2 {
			s, _ := asString(e.Args[1])
			return s
		}
		return ""
	}
	pN, fN, aN := varName(m.binds["params"]), varName(m.binds["fun"]), varName(m.binds["args"])
	cN := varName(m.binds["call"])
	if wholeCall {
		fN, aN = "-", "-"
	}
	if pN == "" || fN == "" || aN == "" || wholeCall && cN == "" {
		c.und("OPT.ETA", "pattern shape", pos, "pattern variables not recognised")
		return
	}
	c.ok("OPT.ETA", "pattern shape", pos, "matches func(params) { return fun(args) } with a single return statement")
	// the asserted type of the args binding (ExprsNode)
	var exprsT types.Type
	if cl, ok := cb.(Closure); ok {
		for _, b := range cl.Fn.Blocks {
			for _, ins := range b.Instrs {
				if ta, ok := ins.(*ssa.TypeAssert); ok && strings.HasSuffix(ta.AssertedType.String(), "ExprsNode") {
					exprsT = ta.AssertedType
				}
			}
		}
	}
	if exprsT == nil && !wholeCall {
		undecided("callback of etaReduction does not read the args binding as ExprsNode")
	}
	tp := r.w.importedPkg(pathRw, "go/types")
	tptr := func(name string) types.Type { return types.NewPointer(tp.Scope().Lookup(name).Type()) }

	ok2 := func(ps ...string) [][2]string {
		var out [][2]string
		for _, p := range ps {
			out = append(out, [2]string{p, p})
		}
		return out
	}
	scen := []etaScenario{
		{name: "f(a,b) forwarded in order", params: ok2("a", "b"), args: []string{"a", "b"}, fun: "func", same: true, may: true},
		{name: "no parameters", params: nil, args: nil, fun: "func", same: true, may: true},
		{name: "arguments swapped f(b,a)", params: ok2("a", "b"), args: []string{"b", "a"}, fun: "func", same: true},
		{name: "argument duplicated f(a,a)", params: ok2("a", "b"), args: []string{"a", "a"}, fun: "func", same: true},
		{name: "argument dropped f(a)", params: ok2("a", "b"), args: []string{"a"}, fun: "func", same: true},
		{name: "extra argument f(a,b) from (a)", params: ok2("a"), args: []string{"a", "b"}, fun: "func", same: true},
		{name: "argument is another variable of the same name", params: ok2("a"), args: []string{"a"}, argObjs: []string{"other"}, fun: "func", same: true},
		{name: "argument is not an identifier f(g(a))", params: ok2("a"), args: []string{"#call"}, fun: "func", same: true},
		{name: "types differ (func(x int) any { return f(x) })", params: ok2("a"), args: []string{"a"}, fun: "func", same: false},
		{name: "parameter types differ, results identical (func(x int) string { return f(x) }, f func(any) string)", params: ok2("a"), args: []string{"a"}, fun: "func", same: false, resSame: "true", parSame: "false"},
		{name: "result types differ, parameters identical (func(x int) any { return f(x) }, f func(int) int)", params: ok2("a"), args: []string{"a"}, fun: "func", same: false, resSame: "false", parSame: "true"},
		{name: "variadic closure passing the slice f(xs)", params: ok2("xs"), args: []string{"xs"}, variadic: true, ellipsis: false, fun: "func", same: true},
		{name: "variadic closure spreading f(xs...)", params: ok2("xs"), args: []string{"xs"}, variadic: true, ellipsis: true, fun: "func", same: true, may: true},
		{name: "callee is a function variable", params: ok2("a"), args: []string{"a"}, fun: "var", same: true},
		{name: "callee is a builtin (len)", params: ok2("a"), args: []string{"a"}, fun: "builtin", same: true},
		{name: "callee is a type (conversion)", params: ok2("a"), args: []string{"a"}, fun: "typename", same: true},
		{name: "callee is an unresolved identifier", params: ok2("a"), args: []string{"a"}, fun: "nilobj", same: true},
		{name: "callee is pkg.Func", params: ok2("a"), args: []string{"a"}, fun: "pkgfunc", same: true, may: true},
		{name: "callee is a method value on a user variable s.M", params: ok2("a"), args: []string{"a"}, fun: "method:s", same: true},
		{name: "callee is a method value on a user iterator variable it.MoveNext", params: nil, args: nil, fun: "method:it", same: true},
		{name: "callee is a method value on a generated iterator variable ɪʇ1.MoveNext", params: nil, args: nil, fun: "method:ɪʇ1", same: true, may: true},
		{name: "callee is a method value on a call result f().M", params: ok2("a"), args: []string{"a"}, fun: "method:#call", same: true},
		{name: "callee is a struct field of function type s.F", params: ok2("a"), args: []string{"a"}, fun: "field", same: true},
		{name: "callee is a generic function with inferred type arguments", params: ok2("a"), args: []string{"a"}, fun: "generic", same: true},
		{name: "callee is an explicitly instantiated generic function id[int]", params: ok2("a"), args: []string{"a"}, fun: "generic-inst", same: true, may: true},
		{name: "callee is a generic function with inferred type arguments left: conv[int] of two type parameters", params: ok2("a"), args: []string{"a"}, fun: "generic-partial", same: true},
		{name: "callee is a call f()(a)", params: ok2("a"), args: []string{"a"}, fun: "call", same: true},
		{name: "callee is a function literal", params: ok2("a"), args: []string{"a"}, fun: "funclit", same: true},
		{name: "callee is a parenthesised function (f)", params: ok2("a"), args: []string{"a"}, fun: "paren", same: true, may: true},
	}
	replaced := 0
	for _, sc := range scen {
		st := st0.clone()
		objs := map[string]AV{}   // ident ref -> object
		recvOf := map[string]AV{} // sig name -> recv
		tparams := map[string]int64{}
		namedOf := map[string]string{} // ident ref -> qualified name of its named type
		mkObj := func(kind, key string, recv bool, generic int64) AV {
			o := Dyn{T: tptr(kind), V: Sym{Name: "obj:" + key, NN: true, Uniq: true}}
			if kind == "Func" {
				if recv {
					recvOf["sig:"+key] = Sym{Name: "recv:" + key, NN: true}
				} else {
					recvOf["sig:"+key] = Nil{}
				}
				tparams["sig:"+key] = generic
			}
			return o
		}
		ident := func(name string, obj AV) AV {
			ref, d := r.identNode(st, name)
			if obj != nil {
				objs[ref.String()] = obj
			}
			return d
		}
		// parameters
		var names []AV
		paramObj := map[string]AV{}
		for _, p := range sc.params {
			o := mkObj("Var", "param:"+p[1], false, 0)
			paramObj[p[0]] = o
			names = append(names, unwrap(ident(p[0], o)))
		}
		var fields []AV
		if len(names) > 0 {
			var ftype AV = exprLeaf(r, "T")
			if sc.variadic {
				_, ftype = r.heapNode(st, "Ellipsis", map[string]AV{"Elt": exprLeaf(r, "T")})
			}
			fref, _ := r.heapNode(st, "Field", map[string]AV{"Names": SliceV{Elems: names}, "Type": ftype})
			fields = append(fields, fref)
		}
		flRef, fl := r.heapNode(st, "FieldList", map[string]AV{"List": SliceV{Elems: fields}})
		_ = flRef
		// arguments
		var args []AV
		for i, a := range sc.args {
			if a == "#call" {
				_, ce := r.heapNode(st, "CallExpr", map[string]AV{"Fun": exprLeaf(r, "g")})
				args = append(args, ce)
				continue
			}
			o := paramObj[a]
			if i < len(sc.argObjs) && sc.argObjs[i] != "" {
				o = mkObj("Var", "arg:"+sc.argObjs[i], false, 0)
			}
			if o == nil {
				o = mkObj("Var", "free:"+a, false, 0)
			}
			args = append(args, ident(a, o))
		}
		// callee
		var fun AV
		switch {
		case sc.fun == "func":
			fun = ident("f", mkObj("Func", "f", false, 0))
		case sc.fun == "var":
			fun = ident("f", mkObj("Var", "f", false, 0))
		case sc.fun == "builtin":
			fun = ident("len", mkObj("Builtin", "len", false, 0))
		case sc.fun == "typename":
			fun = ident("int64", mkObj("TypeName", "int64", false, 0))
		case sc.fun == "nilobj":
			fun = ident("f", Nil{})
		case sc.fun == "pkgfunc":
			_, fun = r.heapNode(st, "SelectorExpr", map[string]AV{"X": ident("pkg", mkObj("PkgName", "pkg", false, 0)), "Sel": unwrap(ident("F", mkObj("Func", "pkg.F", false, 0)))})
		case strings.HasPrefix(sc.fun, "method:"):
			rn := strings.TrimPrefix(sc.fun, "method:")
			var x AV
			if rn == "#call" {
				_, x = r.heapNode(st, "CallExpr", map[string]AV{"Fun": exprLeaf(r, "g")})
			} else {
				x = ident(rn, mkObj("Var", "recvvar:"+rn, false, 0))
				// static type of the receiver variable: the runtime's iterator interface for the
				// iterator scenarios (user-declared and generated alike), a user type otherwise
				if rn == "s" {
					namedOf[unwrap(x).String()] = "user.T"
				} else {
					namedOf[unwrap(x).String()] = pathSeq + ".Iterator"
				}
			}
			_, fun = r.heapNode(st, "SelectorExpr", map[string]AV{"X": x, "Sel": unwrap(ident("M", mkObj("Func", "T.M", true, 0)))})
		case sc.fun == "field":
			_, fun = r.heapNode(st, "SelectorExpr", map[string]AV{"X": ident("s", mkObj("Var", "s", false, 0)), "Sel": unwrap(ident("F", mkObj("Var", "s.F", false, 0)))})
		case sc.fun == "generic":
			fun = ident("id", mkObj("Func", "id", false, 1))
		case sc.fun == "generic-inst":
			_, fun = r.heapNode(st, "IndexExpr", map[string]AV{"X": ident("id", mkObj("Func", "id", false, 1)), "Index": exprLeaf(r, "int")})
		case sc.fun == "generic-partial":
			_, fun = r.heapNode(st, "IndexExpr", map[string]AV{"X": ident("conv", mkObj("Func", "conv", false, 2)), "Index": exprLeaf(r, "int")})
		case sc.fun == "call":
			_, fun = r.heapNode(st, "CallExpr", map[string]AV{"Fun": ident("f", mkObj("Func", "f", false, 0))})
		case sc.fun == "funclit":
			_, fun = r.heapNode(st, "FuncLit", map[string]AV{})
		case sc.fun == "paren":
			_, fun = r.heapNode(st, "ParenExpr", map[string]AV{"X": ident("f", mkObj("Func", "f", false, 0))})
		}
		var ell AV = mkInt(0)
		if sc.ellipsis {
			ell = mkInt(9)
		}
		_, call := r.heapNode(st, "CallExpr", map[string]AV{"Fun": fun, "Args": SliceV{Elems: args}, "Ellipsis": ell})
		_, ret := r.heapNode(st, "ReturnStmt", map[string]AV{"Results": SliceV{Elems: []AV{call}}})
		bodyRef, _ := r.heapNode(st, "BlockStmt", map[string]AV{"List": SliceV{Elems: []AV{ret}}})
		ftRef, _ := r.heapNode(st, "FuncType", map[string]AV{"Params": unwrap(fl)})
		_, lit := r.heapNode(st, "FuncLit", map[string]AV{"Type": ftRef, "Body": bodyRef})
		binds := MapV{M: map[string]AV{
			mkString(pN).String(): fl,
			mkString(aN).String(): Dyn{T: exprsT, V: SliceV{Elems: args}},
			mkString(fN).String(): fun,
		}}
		if wholeCall {
			binds = MapV{M: map[string]AV{mkString(pN).String(): fl, mkString(cN).String(): call}}
		}
		ctxObj := st.alloc(&Obj{Kind: 's', Fields: map[string]AV{"Binds": binds}})
		ctxV := StructV{Fields: map[string]AV{"MatchCtx": ctxObj, "File": Sym{Name: "file"}}}
		same := sc.same
		in2 := *in
		in2.Paths, in2.Steps = 0, 0
		in2.OnCall = wrapOnCall(in.OnCall, func(cc *CallCtx) []Answer {
			if cc.Fn == nil {
				return nil
			}
			switch cc.Fn.Name() {
			case "Node":
				if cc.Fn.Signature.Recv() != nil && strings.Contains(cc.Fn.Signature.Recv().Type().String(), "astutil.Cursor") {
					return []Answer{{Ret: []AV{lit}, NoEvent: true}}
				}
			case "ObjectOf":
				a := cc.Args[len(cc.Args)-1]
				if o, ok := objs[unwrap(a).String()]; ok {
					return []Answer{{Ret: []AV{o}, NoEvent: true}}
				}
				return []Answer{{Ret: []AV{Nil{}}, NoEvent: true}}
			case "TypeOf":
				a := cc.Args[len(cc.Args)-1]
				if q, ok := namedOf[unwrap(a).String()]; ok {
					return []Answer{{Ret: []AV{Dyn{T: tptr("Named"), V: Sym{Name: "named:" + q, NN: true}}}, NoEvent: true}}
				}
				return []Answer{{Ret: []AV{Dyn{T: tptr("Signature"), V: Sym{Name: "type:" + unwrap(a).String(), NN: true}}}, NoEvent: true}}
			case "Identical":
				ans := same
				if len(cc.Args) == 2 {
					a0, a1 := argLabel(cc.Args[0]), argLabel(cc.Args[1])
					switch {
					case a0 == a1: // a type compared with itself
						ans = true
					case strings.HasPrefix(a0, "results:") && strings.HasPrefix(a1, "results:") && sc.resSame != "":
						ans = sc.resSame == "true"
					case strings.HasPrefix(a0, "params:") && strings.HasPrefix(a1, "params:") && sc.parSame != "":
						ans = sc.parSame == "true"
					}
				}
				return []Answer{{Ret: []AV{mkBool(ans)}, NoEvent: true}}
			case "Underlying":
				// the types in play are signatures: their own underlying types
				if len(cc.Args) == 1 {
					if sy, ok := unwrap(cc.Args[0]).(Sym); ok && (strings.HasPrefix(sy.Name, "type:") || strings.HasPrefix(sy.Name, "sig:")) {
						return []Answer{{Ret: []AV{Dyn{T: tptr("Signature"), V: sy}}, NoEvent: true}}
					}
				}
			case "Variadic":
				if len(cc.Args) == 1 {
					if sy, ok := unwrap(cc.Args[0]).(Sym); ok && (strings.HasPrefix(sy.Name, "type:") || strings.HasPrefix(sy.Name, "sig:")) {
						return []Answer{{Ret: []AV{mkBool(sc.variadic)}, NoEvent: true}}
					}
				}
			case "Results", "Params":
				if len(cc.Args) == 1 {
					if sy, ok := unwrap(cc.Args[0]).(Sym); ok && (strings.HasPrefix(sy.Name, "type:") || strings.HasPrefix(sy.Name, "sig:")) {
						return []Answer{{Ret: []AV{Sym{Name: strings.ToLower(cc.Fn.Name()) + ":" + sy.Name, NN: true}}, NoEvent: true}}
					}
				}
			case "Type":
				if len(cc.Args) == 1 {
					a0 := unwrap(cc.Args[0])
					if fr, ok := a0.(FieldRef); ok {
						a0 = unwrap(fr.Base)
					}
					if sy, ok := a0.(Sym); ok && strings.HasPrefix(sy.Name, "obj:") {
						return []Answer{{Ret: []AV{Dyn{T: tptr("Signature"), V: Sym{Name: "sig:" + strings.TrimPrefix(sy.Name, "obj:"), NN: true}}}, NoEvent: true}}
					}
				}
			case "Obj", "Origin":
				if len(cc.Args) == 1 {
					if sy, ok := unwrap(cc.Args[0]).(Sym); ok && strings.HasPrefix(sy.Name, "named:") {
						if cc.Fn.Name() == "Origin" {
							return []Answer{{Ret: []AV{cc.Args[0]}, NoEvent: true}}
						}
						return []Answer{{Ret: []AV{Dyn{T: tptr("TypeName"), V: Sym{Name: "tn:" + strings.TrimPrefix(sy.Name, "named:"), NN: true}}}, NoEvent: true}}
					}
				}
			case "Pkg":
				if len(cc.Args) == 1 {
					if sy, ok := baseSym(cc.Args[0]); ok && strings.HasPrefix(sy.Name, "tn:") {
						q := strings.TrimPrefix(sy.Name, "tn:")
						return []Answer{{Ret: []AV{Sym{Name: "tpkg:" + q[:strings.LastIndex(q, ".")], NN: true}}, NoEvent: true}}
					}
				}
			case "Path":
				if len(cc.Args) == 1 {
					if sy, ok := unwrap(cc.Args[0]).(Sym); ok && strings.HasPrefix(sy.Name, "tpkg:") {
						return []Answer{{Ret: []AV{mkString(strings.TrimPrefix(sy.Name, "tpkg:"))}, NoEvent: true}}
					}
				}
			case "Name":
				if len(cc.Args) == 1 {
					if sy, ok := baseSym(cc.Args[0]); ok && strings.HasPrefix(sy.Name, "tn:") {
						q := strings.TrimPrefix(sy.Name, "tn:")
						return []Answer{{Ret: []AV{mkString(q[strings.LastIndex(q, ".")+1:])}, NoEvent: true}}
					}
				}
			case "Recv":
				if len(cc.Args) == 1 {
					if sy, ok := unwrap(cc.Args[0]).(Sym); ok {
						if rv, ok := recvOf[sy.Name]; ok {
							return []Answer{{Ret: []AV{rv}, NoEvent: true}}
						}
					}
				}
			case "TypeParams":
				if len(cc.Args) == 1 {
					if sy, ok := unwrap(cc.Args[0]).(Sym); ok {
						return []Answer{{Ret: []AV{Sym{Name: "tparams:" + sy.Name, NN: true}}, NoEvent: true}}
					}
				}
			case "Len":
				if len(cc.Args) == 1 {
					if sy, ok := unwrap(cc.Args[0]).(Sym); ok && strings.HasPrefix(sy.Name, "tparams:") {
						return []Answer{{Ret: []AV{mkInt(tparams[strings.TrimPrefix(sy.Name, "tparams:")])}, NoEvent: true}}
					}
				}
			case "IsValid":
				if len(cc.Args) == 1 {
					if n, ok := asInt(cc.Args[0]); ok {
						return []Answer{{Ret: []AV{mkBool(n != 0)}, NoEvent: true}}
					}
				}
			}
			return nil
		})
		outs := in2.Apply(st, cb, []AV{Sym{Name: "cursor", NN: true}, ctxV})
		r.c.Paths += in2.Paths
		r.c.States += in2.Steps
		anyReplace, allReplace, panicked := false, true, false
		for _, o := range outs {
			if o.Panicked {
				panicked = true
				allReplace = false
				continue
			}
			if len(cursorEdits(o.St, len(st.Events))) > 0 {
				anyReplace = true
			} else {
				allReplace = false
			}
		}
		construct := sc.name
		switch {
		case panicked:
			tr := []string{}
			for _, o := range outs {
				if o.Panicked {
					tr = o.St.TraceStrings()
					if len(tr) > 12 {
						tr = tr[len(tr)-12:]
					}
					break
				}
			}
			c.bad("OPT.ETA", construct, pos, "the eta-reduction callback can panic on this closure shape", tr...)
		case sc.may:
			if anyReplace {
				replaced++
			}
			c.ok("OPT.ETA", construct, pos, fmt.Sprintf("reduction is meaning-preserving here (reduced: %v)", anyReplace && allReplace))
		default:
			var tr []string
			for _, o := range outs {
				if !o.Panicked && len(cursorEdits(o.St, len(st.Events))) > 0 {
					tr = o.St.TraceStrings()
					if len(tr) > 25 {
						tr = tr[len(tr)-25:]
					}
					break
				}
			}
			c.check(!anyReplace, "OPT.ETA", construct, pos, "closure is kept", "the closure is replaced by its callee although that changes its meaning or does not build: "+sc.name, tr...)
		}
	}
	if replaced == 0 {
		c.und("OPT.ETA", "liveness", pos, "no scenario leads to a replacement: the analysis does not see the reduction at all")
	}
}

// ------------------------------------------------------------------ OPT.ORDER

func (r *rwRT) ruleOptOrder() {
	c := r.c
	c.min("OPT.ORDER", 4)
	fn := r.method("optimizer", "optimizeAllFiles")
	c.fn(relName(fn))
	pos := r.w.FnPos(fn)
	// optimizeAllFiles is evaluated with VisitAllFiles as an event; then every callback it handed to VisitAllFiles
	// is driven, in order, over two different files (what VisitAllFiles does). A question about a file ("does it
	// use seq") is answered the same way every time it is asked on one path.
	in := r.interp(rwConfig{root: fn, boundaries: map[string]bool{"optimizeDelayCall": true, "etaReduction": true, "optimizeBindCall": true}})
	in.MaxVisits = 12 // the passes of a file may be a table that is looped over
	outs := in.Run(nil, fn, []AV{Sym{Name: "o", NN: true}, Sym{Name: "printer", NN: true}}, nil)
	r.account(in)
	var visits []AV
	var base *State
	for _, o := range outs {
		var vs []AV
		for _, e := range o.St.Events {
			if e.Kind == "call" && e.Fn != nil && e.Fn.Name() == "VisitAllFiles" && len(e.Args) == 2 {
				vs = append(vs, e.Args[1])
			}
		}
		if len(vs) > len(visits) {
			visits, base = vs, o.St
		}
	}
	if len(visits) == 0 {
		c.und("OPT.ORDER", "per-file steps", pos, "optimizeAllFiles does not visit files through VisitAllFiles")
		return
	}
	files := []string{"f", "f2"}
	fileOf := func(v AV) string {
		l := argLabel(unwrap(v))
		for _, f := range files {
			if l == f {
				return f
			}
		}
		return ""
	}
	in.OnCall = wrapOnCall(in.OnCall, func(cc *CallCtx) []Answer {
		if cc.Fn != nil && cc.Fn.Name() == "Uses" && len(cc.Args) >= 1 {
			f := fileOf(cc.Args[0])
			for _, l := range cc.St.Labels {
				if l == f+" uses seq" {
					return []Answer{{Ret: []AV{mkBool(true)}, Label: f + " asked again"}}
				}
				if l == f+" does not use seq" {
					return []Answer{{Ret: []AV{mkBool(false)}, Label: f + " asked again"}}
				}
			}
			return []Answer{{Ret: []AV{mkBool(true)}, Label: f + " uses seq"}, {Ret: []AV{mkBool(false)}, Label: f + " does not use seq"}}
		}
		return nil
	})
	in.Fields["f.Filename"] = Sym{Name: "filename1", Uniq: true}
	in.Fields["f2.Filename"] = Sym{Name: "filename2", Uniq: true}
	// a file that reaches this stage has an import declaration (the rewrite stage made it import seq): code that
	// looks at the declarations before cleaning the imports finds one
	{
		gt := r.astPtr("GenDecl")
		ref := base.alloc(&Obj{T: gt.(*types.Pointer).Elem(), Kind: 's', Fields: map[string]AV{"Tok": r.tokConst("IMPORT"), "Specs": SliceV{Elems: []AV{Sym{Name: "importspec:seq", NN: true}}}}})
		for _, f := range []string{"f", "f2"} {
			in.Fields[f+".File.Decls"] = SliceV{Elems: []AV{Dyn{T: gt, V: ref}}}
			in.Fields[f+".File.Imports"] = SliceV{Elems: []AV{Sym{Name: "importspec:seq", NN: true}}}
		}
	}
	sts := []*State{base}
	for _, visit := range visits {
		for _, f := range files {
			var next []*State
			for _, st := range sts {
				for _, o := range in.Apply(st, visit, []AV{Sym{Name: f, NN: true}}) {
					if !o.Panicked {
						next = append(next, o.St)
					}
				}
			}
			sts = next
		}
	}
	r.account(in)
	if len(sts) == 0 {
		c.und("OPT.ORDER", "per-file steps", pos, "no completed path through the per-file callbacks")
		return
	}
	// per path: the sequence of steps, each attributed to a file where it has one
	type step struct{ what, file string }
	type verdict struct {
		ok  bool
		why string
	}
	res := map[string]*verdict{}
	note := func(key string, ok bool, why string) {
		v := res[key]
		if v == nil {
			v = &verdict{ok: true}
			res[key] = v
		}
		if !ok && v.ok {
			v.ok, v.why = false, why
		}
	}
	for _, st := range sts {
		uses := map[string]bool{}
		asked := map[string]int{} // index of the first question about the file
		var seq []step
		li := 0
		for _, e := range st.Events[len(base.Events):] {
			if os.Getenv("VERIF_DEBUG_ORDER") != "" {
				fmt.Fprintf(os.Stderr, "ORDER %s %s callee=%v note=%s\n", e.Kind, e.Name(), e.Callee, e.Note)
			}
			if e.Kind != "call" {
				continue
			}
			switch {
			case e.Fn != nil && e.Fn.Name() == "Uses" && len(e.Args) >= 1:
				f := fileOf(e.Args[0])
				if _, ok := asked[f]; !ok {
					asked[f] = len(seq)
				}
				seq = append(seq, step{"uses?", f})
			case e.Fn != nil && inRw(e.Fn):
				f := ""
				for _, a := range e.Args {
					if x := fileOf(a); x != "" {
						f = x
					}
				}
				seq = append(seq, step{e.Fn.Name(), f})
			case e.Fn != nil && e.Fn.Name() == "Clean" && strings.Contains(fnPkgPath(e.Fn), "go-imports"):
				f := ""
				for _, a := range e.Args {
					if x := fileOf(a); x != "" {
						f = x
					}
				}
				seq = append(seq, step{"cleanImports", f})
			case isSymNamed(e.Callee, "printer"):
				f := ""
				for _, a := range e.Args {
					if x := fileOf(a); x != "" {
						f = x
					}
				}
				seq = append(seq, step{"print", f})
			}
		}
		_ = li
		for _, l := range st.Labels {
			for _, f := range files {
				if l == f+" uses seq" {
					uses[f] = true
				}
			}
		}
		var shown []string
		for _, s := range seq {
			if s.file != "" {
				shown = append(shown, s.what+"("+s.file+")")
			} else {
				shown = append(shown, s.what)
			}
		}
		got := strings.Join(shown, ",")
		isPass := func(s step) bool { return s.what != "uses?" && s.what != "cleanImports" && s.what != "print" }
		for fi, f := range files {
			prints, printAt, cleanAt := 0, -1, -1
			for i, s := range seq {
				if s.what == "print" && s.file == f {
					prints++
					printAt = i
				}
			}
			for i, s := range seq {
				if s.what == "cleanImports" && s.file == f && (printAt < 0 || i < printAt) {
					cleanAt = i
				}
			}
			if !uses[f] {
				note("file not using seq", prints == 0, "a file that does not use seq is printed: an extra generated file appears in the package: "+got)
				continue
			}
			key := "file using seq"
			if fi > 0 {
				key = "second file using seq"
			}
			if fi == 0 {
				note(key, prints == 1 && cleanAt >= 0, "unexpected per-file sequence (the file is to be printed exactly once, after its imports were cleaned): "+got)
			} else {
				note(key, prints == 1, "a file that uses seq is not written because of another file processed earlier (its plain declarations vanish from the generated package): "+got)
			}
			if prints == 1 && cleanAt >= 0 {
				// an optimisation can drop the last use of an import (a reduced closure's parameter type): the
				// clean-up must see the file as it will be printed
				lastOpt := -1
				for i, s := range seq[:printAt] {
					if isPass(s) && (s.file == "" || s.file == f) {
						lastOpt = i
					}
				}
				note("imports cleaned after the last optimisation", cleanAt > lastOpt,
					"an optimisation pass runs after the import clean-up of the file being printed: a closure such as func(s fmt.Stringer) string { return describe(s) } reduced to describe leaves \"fmt\" imported and not used, the generated file does not build: "+got)
			}
			// the optimisation passes run over every loaded file each time (they take no file): whether a file is
			// written must be decided before any of them has run, otherwise a pass that removes the file's last
			// use of seq (a forwarding closure over a generator reduced to the generator) makes the file vanish
			if _, ok := asked[f]; ok {
				// (every question about the file, not only the first: an answer obtained before the passes and
				// then asked for again after them is the late one)
				early := true
				passed := false
				for _, s := range seq {
					if isPass(s) && (s.file == "" || s.file == f) {
						passed = true
					}
					if s.what == "uses?" && s.file == f && passed {
						early = false
					}
				}
				note("a file is chosen for writing before any optimisation pass has run", early,
					"the question whether "+f+" uses seq is asked after an optimisation pass that runs over all files: when that pass removes the file's last use of seq (`var mk = func() Iter[int] { return gen() }` reduced to `gen`) the file is skipped and its declarations are missing from the generated package: "+got)
			}
		}
	}
	// A file shared by a package and its test variant is handed to the callbacks twice, with one and the same syntax
	// tree: its per-file steps run once (a second import clean-up works on specs the first one has rewritten and
	// drops the blank imports: `_ "embed"` next to a //go:embed directive).
	{
		sts2 := []*State{base}
		for _, visit := range visits {
			for i := 0; i < 2; i++ {
				var next []*State
				for _, st := range sts2 {
					for _, o := range in.Apply(st, visit, []AV{Sym{Name: "f", NN: true}}) {
						if !o.Panicked {
							next = append(next, o.St)
						}
					}
				}
				sts2 = next
			}
		}
		r.account(in)
		for _, st := range sts2 {
			uses := false
			for _, l := range st.Labels {
				if l == "f uses seq" {
					uses = true
				}
			}
			if !uses {
				continue
			}
			cleans, prints := 0, 0
			for _, e := range st.Events[len(base.Events):] {
				if e.Kind != "call" {
					continue
				}
				if e.Fn != nil && e.Fn.Name() == "Clean" && strings.Contains(fnPkgPath(e.Fn), "go-imports") {
					cleans++
				}
				if isSymNamed(e.Callee, "printer") {
					prints++
				}
			}
			note("a file visited twice is processed once", cleans == 1 && prints == 1,
				fmt.Sprintf("a file that is visited twice (it belongs to a package and to its test variant, one syntax tree) has its imports cleaned %d times and is printed %d times: the second clean-up no longer recognises a blank import and removes it (`_ \"embed\"` disappears, the //go:embed directive stays: the generated file does not build, and its bytes depend on whether the package has a test file)", cleans, prints))
		}
	}
	for _, key := range []string{"file using seq", "second file using seq", "file not using seq", "imports cleaned after the last optimisation", "a file is chosen for writing before any optimisation pass has run", "a file visited twice is processed once"} {
		v := res[key]
		if v == nil {
			c.und("OPT.ORDER", key, pos, "no path of the per-file callbacks exercises this obligation")
			continue
		}
		c.check(v.ok, "OPT.ORDER", key, pos, fmt.Sprintf("holds on all %d paths of the per-file callbacks driven over two files", len(sts)), v.why)
	}
}

// ------------------------------------------------------------------ OPT.RULES
//
// Inventory: the rewrite rules the optimiser applies are exactly the ones this
// check analyses. Every call of ASTMatcher.Match reachable from
// optimizeAllFiles is located (static callees and closures, resolved through
// SSA); the analysed ones are the single Match of optimizeDelayCall
// (OPT.WHITELIST/BINDLIT) and the single Match of etaReduction (OPT.ETA). Any
// further reachable Match call is a rewrite of the generated code that no rule
// vouches for: reported as undecided, never assumed harmless.
func (r *rwRT) ruleOptRules() {
	c := r.c
	c.min("OPT.RULES", 2)
	root := r.method("optimizer", "optimizeAllFiles")
	c.fn(relName(root))
	counts := map[string]int{}
	where := map[string]token.Pos{}
	seen := map[*ssa.Function]bool{}
	var walk func(fn *ssa.Function, owner string)
	walk = func(fn *ssa.Function, owner string) {
		fn = bodyOf(fn)
		if fn == nil || seen[fn] {
			return
		}
		seen[fn] = true
		if fn.Parent() == nil {
			owner = fn.Name()
		}
		for _, b := range fn.Blocks {
			for _, ins := range b.Instrs {
				if mc, ok := ins.(*ssa.MakeClosure); ok {
					if f, ok := mc.Fn.(*ssa.Function); ok {
						walk(f, owner)
					}
				}
				call, ok := ins.(ssa.CallInstruction)
				if !ok {
					continue
				}
				callee := call.Common().StaticCallee()
				if callee == nil {
					continue
				}
				if callee.Name() == "Match" && strings.Contains(fnPkgPath(callee), "go-ast-matcher") {
					counts[owner]++
					where[owner] = ins.Pos()
					continue
				}
				if inRw(callee) {
					walk(callee, owner)
				}
			}
		}
	}
	walk(root, "")
	analysed := map[string]string{"optimizeDelayCall": "OPT.WHITELIST / OPT.BINDLIT", "etaReduction": "OPT.ETA"}
	var owners []string
	for o := range counts {
		owners = append(owners, o)
	}
	sort.Strings(owners)
	for _, o := range owners {
		rule, known := analysed[o]
		pos := r.w.Pos(where[o])
		switch {
		case known && counts[o] == 1:
			c.ok("OPT.RULES", "rewrite rule of "+o, pos, "the single Match call of "+o+" is the one analysed by "+rule)
		case known:
			c.und("OPT.RULES", "rewrite rule of "+o, pos, fmt.Sprintf("%s applies %d rewrite rules (Match calls); %s analyses one: an additional rule rewrites the generated code without being vouched for", o, counts[o], rule))
		default:
			c.und("OPT.RULES", "rewrite rule of "+o, pos, fmt.Sprintf("the optimiser reaches a rewrite rule in %s (%d Match call(s)) that no rule of this check analyses", o, counts[o]))
		}
	}
	for o, rule := range analysed {
		if counts[o] == 0 {
			c.und("OPT.RULES", "rewrite rule of "+o, r.w.FnPos(root), "the pass "+o+" ("+rule+") is not reachable from optimizeAllFiles or applies no rewrite rule")
		}
	}
}

// baseSym: the symbol a receiver denotes, looking through the address of an embedded field
// (methods promoted from an embedded struct receive &x.embedded).
func baseSym(a AV) (Sym, bool) {
	a = unwrap(a)
	for {
		fr, ok := a.(FieldRef)
		if !ok {
			break
		}
		a = unwrap(fr.Base)
	}
	sy, ok := a.(Sym)
	return sy, ok
}
