package main

// RW.TMPL.* — templates of the syntax the rewriter constructs (properties
// C02–C06): range lowering inside generators, consumer-side range lowering,
// YieldFrom, Bind nesting, the Start(Delay(...)) wrapper, init hoisting and
// return rewriting of pass0. Each rewrite function is abstractly evaluated on a
// symbolic input node; the constructed tree is matched against the shape that
// Go's scoping / evaluate-once / laziness rules require.

import (
	"fmt"
	"go/types"
	"strings"

	"golang.org/x/tools/go/ssa"
)

func (r *rwRT) heapNode(st *State, kind string, f map[string]AV) (Ref, AV) {
	t := r.astPtr(kind)
	ref := st.alloc(&Obj{T: t.(*types.Pointer).Elem(), Kind: 's', Fields: f, Site: "input " + kind})
	return ref, Dyn{T: t, V: ref}
}

func (r *rwRT) identNode(st *State, name string) (Ref, AV) {
	return r.heapNode(st, "Ident", map[string]AV{"Name": mkString(name)})
}

func leafSym(name string) AV { return Sym{Name: name, NN: true} }

func exprLeaf(r *rwRT, name string) AV { return Dyn{T: r.astPtr("Ident"), V: leafSym(name)} }

// ------------------------------------------------------------------ RW.TMPL.RANGE

func (r *rwRT) ruleTmplRange() {
	c := r.c
	c.min("RW.TMPL.RANGE", 12)
	fn := r.method("yieldRewriter", "rewriteRangeToForIter")
	c.fn(relName(fn))
	pos := r.w.FnPos(fn)
	type vs struct{ name string }
	variants := []string{"nil", "_", "named"}
	for _, kvar := range variants {
		for _, vvar := range variants {
			for _, tok := range []string{"DEFINE", "ASSIGN"} {
				st := newState()
				mkVar := func(v, name string) (AV, AV) {
					switch v {
					case "nil":
						return Nil{}, nil
					case "_":
						ref, d := r.identNode(st, "_")
						return d, ref
					}
					ref, d := r.identNode(st, name)
					return d, ref
				}
				key, keyRef := mkVar(kvar, "k")
				val, valRef := mkVar(vvar, "v")
				bodyRef, _ := r.heapNode(st, "BlockStmt", map[string]AV{"List": leafSym("n.Body.List")})
				nRef, _ := r.heapNode(st, "RangeStmt", map[string]AV{"Key": key, "Value": val, "Tok": r.tokConst(tok), "X": exprLeaf(r, "n.X"), "Body": bodyRef})
				gen := r.nameGenerator()
				genName := "-"
				if gen != nil {
					genName = gen.Name()
				}
				in := r.interp(rwConfig{root: fn, boundaries: map[string]bool{genName: true}})
				in.OnCall = wrapOnCall(in.OnCall, func(cc *CallCtx) []Answer {
					if cc.Fn != nil && gen != nil && bodyOf(cc.Fn) == gen {
						return []Answer{{Ret: []AV{Sym{Name: "gensym()"}}, Label: "gensym"}}
					}
					return nil
				})
				outs := in.Run(st, fn, []AV{Sym{Name: "r", NN: true}, nRef, exprLeaf(r, "iter")}, nil)
				r.account(in)
				construct := fmt.Sprintf("range[key=%s,value=%s,%s]", kvar, vvar, strings.ToLower(tok))
				if len(outs) != 1 || outs[0].Panicked || len(outs[0].Ret) != 2 {
					c.bad("RW.TMPL.RANGE", construct, pos, fmt.Sprintf("expected one straight-line construction, got %d paths", len(outs)))
					continue
				}
				o := outs[0]
				ignoreK, ignoreV := kvar != "named", vvar != "named"
				it := pBind{"it", nd("Ident", map[string]Pat{"Name": pAny{}})}
				cur := pMethodCall(pSame{"it"}, "Current")
				initP := nd("AssignStmt", map[string]Pat{"Lhs": lst(it), "Tok": pTok{r.tokConst("DEFINE")}, "Rhs": lst(pLeaf{"iter"})})
				var bodyP, seqBodyP Pat
				if ignoreK && ignoreV {
					bodyP = pVal{bodyRef}
				} else {
					var lhs, rhs []Pat
					if !ignoreK {
						lhs = append(lhs, pVal{keyRef})
						rhs = append(rhs, pSelect(cur, "Key"))
					}
					if !ignoreV {
						lhs = append(lhs, pVal{valRef})
						rhs = append(rhs, pSelect(cur, "Val"))
					}
					kv := nd("AssignStmt", map[string]Pat{"Lhs": lst(lhs...), "Tok": pTok{r.tokConst(tok)}, "Rhs": lst(rhs...)})
					nested := nd("BlockStmt", map[string]Pat{"List": lst(kv, pVal{bodyRef})})
					if tok == "DEFINE" {
						// the original body must stay one nested block: it may re-declare the loop variables
						bodyP = nested
						if len(lhs) == 2 {
							// two fresh variables may also be bound one after the other (either order): with ':='
							// neither right-hand side can mention the other variable. For '=' the single tuple
							// assignment is required (`for i, a[i] = range x` evaluates a[i]'s index first).
							one := func(i int) Pat {
								return nd("AssignStmt", map[string]Pat{"Lhs": lst(lhs[i]), "Tok": pTok{r.tokConst(tok)}, "Rhs": lst(rhs[i])})
							}
							bodyP = pOr{[]Pat{nested,
								nd("BlockStmt", map[string]Pat{"List": lst(one(0), one(1), pVal{bodyRef})}),
								nd("BlockStmt", map[string]Pat{"List": lst(one(1), one(0), pVal{bodyRef})})}}
						}
					} else {
						bodyP = pOr{[]Pat{nested, nd("BlockStmt", map[string]Pat{"List": lst(kv, pSpread{"n.Body.List"})})}}
						if len(lhs) == 2 {
							one := func(i int) Pat {
								return nd("AssignStmt", map[string]Pat{"Lhs": lst(lhs[i]), "Tok": pTok{r.tokConst(tok)}, "Rhs": lst(rhs[i])})
							}
							var alts []Pat
							for _, ord := range [][2]int{{0, 1}, {1, 0}} {
								alts = append(alts, nd("BlockStmt", map[string]Pat{"List": lst(one(ord[0]), one(ord[1]), pVal{bodyRef})}),
									nd("BlockStmt", map[string]Pat{"List": lst(one(ord[0]), one(ord[1]), pSpread{"n.Body.List"})}))
							}
							seqBodyP = pOr{alts}
						}
					}
				}
				forP := nd("ForStmt", map[string]Pat{"Cond": pMethodCall(pSame{"it"}, "MoveNext"), "Body": bodyP})
				m := &matcher{st: o.St, binds: map[string]AV{}}
				err := m.match(o.Ret[0], initP, "init")
				if err == nil {
					err = m.match(o.Ret[1], forP, "for")
				}
				if seqBodyP != nil {
					// '=' with two variables: Go performs one tuple assignment per iteration
					m2 := &matcher{st: o.St, binds: map[string]AV{}}
					split := err != nil && m2.match(o.Ret[0], initP, "init") == nil &&
						m2.match(o.Ret[1], nd("ForStmt", map[string]Pat{"Cond": pMethodCall(pSame{"it"}, "MoveNext"), "Body": seqBodyP}), "for") == nil
					c.check(!split, "RW.TMPL.RANGE.TUPLE", construct, pos,
						"key and value of a '=' range loop are assigned by one tuple assignment (operands of the left-hand sides are evaluated before either variable changes, as in Go's range)",
						"key and value of a '=' range loop are assigned one after the other: `for i, a[i] = range x` then indexes a with the new i, Go's range statement evaluates the index operands first")
					if split {
						err, m = nil, m2
					}
				}
				if err == nil && countLeaf(o.St, o.Ret[1], "n.X") != 0 {
					err = fmt.Errorf("the range operand is evaluated again inside the loop")
				}
				if itv, bound := m.binds["it"]; bound {
					// the iterator variable must come from gensym (unique per loop)
					itObj := o.St.Obj(unwrap(itv))
					named := itObj != nil && itObj.Fields["Name"] != nil && strings.Contains(itObj.Fields["Name"].String(), "gensym")
					c.check(named, "RW.TMPL.RANGE.GENSYM", construct, pos, "the iterator temporary is named through gensym (unique within the file, so sequential and nested range loops never clash)",
						"the iterator temporary's name does not come from gensym: sequential or nested range loops in one scope clash")
				}
				if err == nil {
					c.ok("RW.TMPL.RANGE", construct, pos, "it := <iter>; for it.MoveNext() { vars (tok) it.Current().Key/.Val; body } — operand once, loop's own token, key from .Key, value from .Val, original body nested for ':='")
				} else {
					c.bad("RW.TMPL.RANGE", construct, pos, "lowered range loop has the wrong shape: "+err.Error(), "init: "+o.St.Render(o.Ret[0]), "for: "+o.St.Render(o.Ret[1]))
				}
			}
		}
	}
}

func wrapOnCall(prev func(*CallCtx) []Answer, extra func(*CallCtx) []Answer) func(*CallCtx) []Answer {
	return func(cc *CallCtx) []Answer {
		if a := extra(cc); a != nil {
			return a
		}
		if prev != nil {
			return prev(cc)
		}
		return nil
	}
}

// ------------------------------------------------------------------ RW.TMPL.CONSUMER

func (r *rwRT) ruleTmplConsumer() {
	c := r.c
	c.min("RW.TMPL.CONSUMER", 2)
	fn := r.method("rewriter", "rewriteForRange")
	c.fn(relName(fn))
	pos := r.w.FnPos(fn)
	for _, tok := range []string{"DEFINE", "ASSIGN"} {
		for _, opKind := range []string{"Ident", "SelectorExpr", "IndexExpr", "CallExpr"} {
			st := newState()
			keyRef, key := r.identNode(st, "v")
			bodyRef, _ := r.heapNode(st, "BlockStmt", map[string]AV{"List": leafSym("fr.Body.List")})
			// the operand can be any expression form: a hole of each expression kind
			operand := Dyn{T: r.astPtr(opKind), V: leafSym("fr.X")}
			frRef, _ := r.heapNode(st, "RangeStmt", map[string]AV{"Key": key, "Value": Nil{}, "Tok": r.tokConst(tok), "X": operand, "Body": bodyRef})
			in := r.interp(rwConfig{root: fn})
			outs := in.Run(st, fn, []AV{Sym{Name: "r", NN: true}, Sym{Name: "pkg", NN: true}, frRef}, nil)
			r.account(in)
			construct := fmt.Sprintf("for v %s range <%s>", map[string]string{"DEFINE": ":=", "ASSIGN": "="}[tok], opKind)
			var live []Outcome
			for _, o := range outs {
				if !o.Panicked && !notAnIterator(o) {
					live = append(live, o)
				}
			}
			if len(live) == 0 {
				c.bad("RW.TMPL.CONSUMER", construct, pos, "the consumer loop is rejected on every path")
				continue
			}
			var firstErr error
			var shown string
			for _, o := range live {
				it := pBind{"it", pAny{}}
				bind := nd("AssignStmt", map[string]Pat{"Lhs": lst(pVal{keyRef}), "Tok": pTok{r.tokConst(tok)}, "Rhs": lst(pMethodCall(pSame{"it"}, "Current"))})
				spliced := nd("BlockStmt", map[string]Pat{"List": lst(bind, pSpread{"fr.Body.List"})})
				nested := nd("BlockStmt", map[string]Pat{"List": lst(bind, pVal{bodyRef})})
				want := nd("ForStmt", map[string]Pat{
					"Init": nd("AssignStmt", map[string]Pat{"Lhs": lst(it), "Tok": pTok{r.tokConst("DEFINE")}, "Rhs": lst(pLeaf{"fr.X"})}),
					"Cond": pMethodCall(pSame{"it"}, "MoveNext"),
					"Body": pOr{[]Pat{spliced, nested}},
				})
				err := matchTmpl(o.St, o.Ret[0], want)
				if err == nil && countLeaf(o.St, o.Ret[0], "fr.X") != 1 {
					err = fmt.Errorf("range operand occurs %d times in the lowered loop (must be evaluated exactly once, in the init statement)", countLeaf(o.St, o.Ret[0], "fr.X"))
				}
				if err != nil && firstErr == nil {
					firstErr = err
					shown = o.St.Render(o.Ret[0])
				}
			}
			if firstErr == nil {
				c.ok("RW.TMPL.CONSUMER", construct, pos, "for it := <operand>; it.MoveNext(); { v (tok) it.Current(); body }: operand once, one MoveNext per iteration in the condition (no prefetch), the loop's own token")
			} else {
				c.bad("RW.TMPL.CONSUMER", construct, pos, "consumer loop lowering has the wrong shape: "+firstErr.Error(), shown)
			}
			// nesting obligation for ':=' (re-declaration of the loop variable in the body)
			if tok == "DEFINE" && opKind == "Ident" && firstErr == nil {
				nestedOK := true
				for _, o := range live {
					fo := o.St.Obj(unwrap(o.Ret[0]))
					bo := o.St.Obj(unwrap(fo.Fields["Body"]))
					if l, ok := bo.Fields["List"].(SliceV); ok && len(l.Elems) == 2 {
						if _, isSpread := l.Elems[1].(Spread); isSpread {
							nestedOK = false
						}
					}
				}
				c.check(nestedOK, "RW.TMPL.CONSUMER", "body of a ':=' consumer loop is nested in its own block", pos,
					"the original body is one nested block after the generated ':=' binding",
					"the body statements are spliced next to the generated `v := it.Current()`: a body that re-declares v at its top level (`for v := range g { v := v + 1 }`) no longer builds")
			}
		}
	}
	r.ruleTmplConsumerNoVar()
	r.ruleTmplConsumerLhs()
}

// the '=' form with a left-hand side that is not a plain identifier (`for st.last = range it`, `for xs[i] = range it`,
// `for *p = range it`): the binding is still `lhs = it.Current()`.
func (r *rwRT) ruleTmplConsumerLhs() {
	c := r.c
	fn := r.method("rewriter", "rewriteForRange")
	pos := r.w.FnPos(fn)
	for _, lhsKind := range []string{"SelectorExpr", "IndexExpr", "StarExpr", "ParenExpr"} {
		st := newState()
		key := Dyn{T: r.astPtr(lhsKind), V: leafSym("fr.Key")}
		bodyRef, _ := r.heapNode(st, "BlockStmt", map[string]AV{"List": leafSym("fr.Body.List")})
		frRef, _ := r.heapNode(st, "RangeStmt", map[string]AV{"Key": key, "Value": Nil{}, "Tok": r.tokConst("ASSIGN"), "X": exprLeaf(r, "fr.X"), "Body": bodyRef})
		in := r.interp(rwConfig{root: fn})
		outs := in.Run(st, fn, []AV{Sym{Name: "r", NN: true}, Sym{Name: "pkg", NN: true}, frRef}, nil)
		r.account(in)
		construct := "for <" + lhsKind + "> = range x"
		var firstErr error
		live := 0
		for _, o := range outs {
			if o.Panicked || notAnIterator(o) {
				continue
			}
			live++
			it := pBind{"it", pAny{}}
			bind := nd("AssignStmt", map[string]Pat{"Lhs": lst(pLeaf{"fr.Key"}), "Tok": pTok{r.tokConst("ASSIGN")}, "Rhs": lst(pMethodCall(pSame{"it"}, "Current"))})
			want := nd("ForStmt", map[string]Pat{
				"Init": nd("AssignStmt", map[string]Pat{"Lhs": lst(it), "Tok": pTok{r.tokConst("DEFINE")}, "Rhs": lst(pLeaf{"fr.X"})}),
				"Cond": pMethodCall(pSame{"it"}, "MoveNext"),
				"Body": pOr{[]Pat{nd("BlockStmt", map[string]Pat{"List": lst(bind, pSpread{"fr.Body.List"})}), nd("BlockStmt", map[string]Pat{"List": lst(bind, pVal{bodyRef})})}},
			})
			if err := matchTmpl(o.St, o.Ret[0], want); err != nil && firstErr == nil {
				firstErr = fmt.Errorf("%v: %s", err, o.St.Render(o.Ret[0]))
			}
		}
		if live == 0 {
			firstErr = fmt.Errorf("rejected on every path")
		}
		c.check(firstErr == nil, "RW.TMPL.CONSUMER", construct, pos,
			"for it := <operand>; it.MoveNext(); { <lhs> = it.Current(); body }: the element is stored through the loop's left-hand side whatever its form",
			"consumer loop lowering has the wrong shape (a left-hand side that is a field, an element or a dereference must still receive every element): "+fmt.Sprint(firstErr))
	}
}

// the loop without a variable: `for range g { body }` is valid Go (the source ranges over a channel type) and
// needs no binding at all: `for it := g; it.MoveNext(); { body }`.
func (r *rwRT) ruleTmplConsumerNoVar() {
	c := r.c
	fn := r.method("rewriter", "rewriteForRange")
	c.fn(relName(fn))
	pos := r.w.FnPos(fn)
	st := newState()
	bodyRef, _ := r.heapNode(st, "BlockStmt", map[string]AV{"List": leafSym("fr.Body.List")})
	operand := Dyn{T: r.astPtr("CallExpr"), V: leafSym("fr.X")}
	frRef, _ := r.heapNode(st, "RangeStmt", map[string]AV{"Key": Nil{}, "Value": Nil{}, "Tok": r.tokConst("ILLEGAL"), "X": operand, "Body": bodyRef})
	in := r.interp(rwConfig{root: fn})
	outs := in.Run(st, fn, []AV{Sym{Name: "r", NN: true}, Sym{Name: "pkg", NN: true}, frRef}, nil)
	r.account(in)
	construct := "for range <CallExpr> (no loop variable)"
	var live []Outcome
	for _, o := range outs {
		if !o.Panicked && !notAnIterator(o) {
			live = append(live, o)
		}
	}
	if len(live) == 0 {
		c.bad("RW.TMPL.CONSUMER", construct, pos, "a consumer loop without a loop variable (`for range g() { … }`, valid Go) is rejected on every path: the compiler ends in an assertion")
		return
	}
	var firstErr error
	shown := ""
	for _, o := range live {
		it := pBind{"it", pAny{}}
		want := nd("ForStmt", map[string]Pat{
			"Init": nd("AssignStmt", map[string]Pat{"Lhs": lst(it), "Tok": pTok{r.tokConst("DEFINE")}, "Rhs": lst(pLeaf{"fr.X"})}),
			"Cond": pMethodCall(pSame{"it"}, "MoveNext"),
			"Body": pOr{[]Pat{nd("BlockStmt", map[string]Pat{"List": lst(pSpread{"fr.Body.List"})}), pVal{bodyRef}, nd("BlockStmt", map[string]Pat{"List": lst(pVal{bodyRef})})}},
		})
		err := matchTmpl(o.St, o.Ret[0], want)
		if err == nil && countLeaf(o.St, o.Ret[0], "fr.X") != 1 {
			err = fmt.Errorf("range operand occurs %d times in the lowered loop", countLeaf(o.St, o.Ret[0], "fr.X"))
		}
		if err != nil && firstErr == nil {
			firstErr, shown = err, o.St.Render(o.Ret[0])
		}
	}
	if firstErr == nil {
		c.ok("RW.TMPL.CONSUMER", construct, pos, "for it := <operand>; it.MoveNext(); { body }: operand once, one MoveNext per iteration, no binding")
	} else {
		c.bad("RW.TMPL.CONSUMER", construct, pos, "consumer loop lowering has the wrong shape: "+firstErr.Error(), shown)
	}
}

// ------------------------------------------------------------------ RW.TMPL.YIELDFROM

func (r *rwRT) ruleTmplYieldFrom() {
	c := r.c
	c.min("RW.TMPL.YIELDFROM", 2)
	// The delegation pass is driven the way rewriteFile drives it: the cursor callback that mkYieldFromRewriter
	// returns is applied to a statement `YieldFrom(arg)`, and the node it is replaced by is the lowering. Which
	// type or closure implements the pass is representation.
	mk := r.w.FuncOpt(pathRw, "mkYieldFromRewriter")
	if mk == nil {
		undecided("constructor of the delegation pass (mkYieldFromRewriter) not found")
	}
	c.fn(relName(mk))
	pos := r.w.FnPos(mk)
	for _, argKind := range []string{"Ident", "CallExpr", "SelectorExpr", "IndexExpr"} {
		for _, inst := range []bool{false, true} {
			st := newState()
			var fun AV
			if inst {
				_, fun = r.heapNode(st, "IndexExpr", map[string]AV{"X": exprLeaf(r, "YieldFrom"), "Index": exprLeaf(r, "T")})
			} else {
				_, fun = r.identNode(st, "YieldFrom")
			}
			arg := Dyn{T: r.astPtr(argKind), V: leafSym("arg0")}
			_, call := r.heapNode(st, "CallExpr", map[string]AV{"Fun": fun, "Args": SliceV{Elems: []AV{arg}}, "Lparen": Sym{Name: "lp"}, "Rparen": Sym{Name: "rp"}})
			_, stmt := r.heapNode(st, "ExprStmt", map[string]AV{"X": call})
			in := r.interp(rwConfig{root: mk, boundaries: map[string]bool{"rangeIter": false, "checkYieldCall": true, "rewriteYieldFrom": false}})
			in.MaxDepth = 16
			r.setImportNames(in, "co", "")
			in.OnCall = wrapOnCall(in.OnCall, func(cc *CallCtx) []Answer {
				if cc.Fn != nil && cc.Fn.Name() == "Node" && cc.Fn.Signature.Recv() != nil && strings.Contains(cc.Fn.Signature.Recv().Type().String(), "astutil.Cursor") {
					return []Answer{{Ret: []AV{stmt}, NoEvent: true}}
				}
				if cc.Fn != nil && inRw(cc.Fn) && cc.Fn.Name() == "isYieldFromCall" {
					return []Answer{{Ret: []AV{unwrap(call), mkBool(true)}, NoEvent: true}}
				}
				return nil
			})
			var outs []Outcome
			for _, o0 := range in.Run(st, mk, []AV{Sym{Name: "r", NN: true}, Sym{Name: "pkg", NN: true}}, nil) {
				if o0.Panicked || len(o0.Ret) != 1 {
					continue
				}
				for _, o := range in.Apply(o0.St, o0.Ret[0], []AV{Sym{Name: "cursor", NN: true}, Sym{Name: "pkg", NN: true}}) {
					if o.Panicked {
						outs = append(outs, o)
						continue
					}
					// the lowering is what the statement is replaced by
					edits := cursorEdits(o.St, 0)
					if len(edits) == 1 && edits[0].Fn.Name() == "Replace" && len(edits[0].Args) == 2 {
						o.Ret = []AV{edits[0].Args[1]}
					} else {
						o.Ret = []AV{Nil{}}
					}
					outs = append(outs, o)
				}
			}
			r.account(in)
			construct := fmt.Sprintf("YieldFrom(<%s>) explicit-instantiation=%v", argKind, inst)
			var firstErr error
			shown := ""
			live := 0
			for _, o := range outs {
				if o.Panicked {
					continue
				}
				live++
				key := pBind{"key", pAny{}}
				yieldFun := pOr{[]Pat{
					pSelect(nd("Ident", map[string]Pat{"Name": pStr{"co"}}), "Yield"),
					nd("IndexExpr", map[string]Pat{"X": pSelect(nd("Ident", map[string]Pat{"Name": pStr{"co"}}), "Yield"), "Index": pLeaf{"T"}}),
				}}
				want := nd("RangeStmt", map[string]Pat{
					"Key": key, "Tok": pTok{r.tokConst("DEFINE")}, "X": pLeaf{"arg0"},
					"Body": nd("BlockStmt", map[string]Pat{"List": lst(nd("ExprStmt", map[string]Pat{"X": ndOpen("CallExpr", map[string]Pat{"Fun": yieldFun, "Args": lst(pSame{"key"})})}))}),
				})
				err := matchTmpl(o.St, o.Ret[0], want)
				if err == nil && countLeaf(o.St, o.Ret[0], "arg0") != 1 {
					err = fmt.Errorf("the delegate expression occurs %d times (must be evaluated exactly once)", countLeaf(o.St, o.Ret[0], "arg0"))
				}
				if err == nil {
					// the synthetic Yield must be made known to the type info as *the* Yield function,
					// otherwise the generator pass does not see the loop as yielding and the stub is called
					fun := calleeBase(o.St, o.Ret[0])
					registered := false
					for _, e := range o.St.Events {
						if e.Kind == "call" && e.Fn != nil && e.Fn.Name() == "UpdateUses" && len(e.Args) == 3 {
							if sameAV(unwrap(e.Args[1]), unwrap(fun)) && strings.Contains(argLabel(e.Args[2]), "yieldFunc") {
								registered = true
							}
						}
					}
					if !registered {
						err = fmt.Errorf("the callee of the generated Yield call is not registered as the API's Yield function (UpdateUses on the very callee node): the generator pass will not recognise the loop body as a yield and the value is dropped")
					}
				}
				if err != nil && firstErr == nil {
					firstErr = err
					shown = o.St.Render(o.Ret[0])
				}
			}
			if live == 0 {
				c.bad("RW.TMPL.YIELDFROM", construct, pos, "YieldFrom is rejected on every path")
				continue
			}
			if firstErr == nil {
				c.ok("RW.TMPL.YIELDFROM", construct, pos, "for v := range <arg> { Yield(v) }: argument once as the range operand, body exactly one Yield of the loop variable")
			} else {
				c.bad("RW.TMPL.YIELDFROM", construct, pos, "YieldFrom lowering has the wrong shape: "+firstErr.Error(), shown)
			}
		}
	}
}

// ------------------------------------------------------------------ RW.TMPL.BIND / YIELDFUNC / COMBINE

func seqCallPat(name string, args ...Pat) Pat {
	return nd("CallExpr", map[string]Pat{
		"Fun":  nd("IndexExpr", map[string]Pat{"X": pSelect(nd("Ident", map[string]Pat{"Name": pAny{}}), name), "Index": pAny{}}),
		"Args": lst(args...),
	})
}

func thunkPat(body Pat) Pat {
	return ndOpen("FuncLit", map[string]Pat{"Body": body})
}

func (r *rwRT) ruleTmplBind() {
	c := r.c
	c.min("RW.TMPL.BIND", 1)
	// the statement rewriter is the entry point: a statement `Yield(v)` goes through whatever checks and helpers
	// the package has (which of them is handed the call and which the operand is its business)
	fn := r.method("yieldRewriter", "rewriteStmt")
	c.fn(relName(fn))
	pos := r.w.FnPos(fn)
	st := newState()
	callRef, call := r.heapNode(st, "CallExpr", map[string]AV{"Fun": exprLeaf(r, "Yield"), "Args": SliceV{Elems: []AV{exprLeaf(r, "v")}}, "Lparen": Sym{Name: "lp"}})
	_, stmt := r.heapNode(st, "ExprStmt", map[string]AV{"X": call})
	in := r.interp(rwConfig{root: fn, blockOracles: true, boundaries: map[string]bool{"rewriteStmt": false, "rewriteYieldCall": false},
		extra: func(cc *CallCtx) []Answer {
			if cc.Fn != nil && inRw(cc.Fn) {
				switch cc.Fn.Name() {
				case "isYieldCall":
					return []Answer{{Ret: []AV{unwrap(callRef), mkBool(true)}, NoEvent: true}}
				case "isYieldFromCall":
					return []Answer{{Ret: []AV{Nil{}, mkBool(false)}, NoEvent: true}}
				}
			}
			return nil
		}})
	in.MaxDepth = 16
	in.Fields["r.yieldAst.funRetParamTy"] = exprLeaf(r, "T")
	outs := in.Run(st, fn, []AV{Sym{Name: "r", NN: true}, stmt, mkBool(false), Sym{Name: "children", NN: true}}, nil)
	r.account(in)
	var err error
	matched := 0
	for _, o := range outs {
		if o.Panicked || len(o.Ret) != 1 {
			continue
		}
		follow := o.St.Obj(o.Ret[0])
		var pushed AV
		for _, e := range o.St.Events {
			if e.Kind == "call" && e.Fn != nil && e.Fn.Name() == "pushReturn" && len(e.Args) >= 2 && isSymNamed(e.Args[0], "children") {
				pushed = e.Args[1]
			}
		}
		if follow == nil || pushed == nil {
			err = fmt.Errorf("no `return Bind(...)` is pushed into the enclosing block, or no continuation block is returned: %s", pathSummary(o))
			continue
		}
		want := seqCallPat("Bind", pLeaf{"v"}, thunkPat(pVal{follow.Fields["block"]}))
		if e := matchTmpl(o.St, pushed, want); e != nil {
			err = e
		} else {
			matched++
		}
	}
	if err == nil && matched == 0 {
		err = fmt.Errorf("the statement `Yield(v)` is rejected on every path")
	}
	c.check(err == nil, "RW.TMPL.BIND", "Yield(v)", pos,
		"pushes `return Bind(v, func() Seq { <continuation> })` into the enclosing block and continues *inside* that thunk: the yielded expression is evaluated when the enclosing thunk runs, later statements are lexically nested under earlier declarations",
		fmt.Sprint("Bind template: ", err))
}

func (r *rwRT) ruleTmplYieldFunc() {
	c := r.c
	c.min("RW.TMPL.YIELDFUNC", 2)
	o, bodyRef, _, pos, derr := r.runYieldFunc()
	if derr != nil {
		c.bad("RW.TMPL.YIELDFUNC", "generator body", pos, derr.Error())
		return
	}
	var order []string
	var stmtsBlock, branchArg AV
	for _, e := range o.St.Events {
		if e.Kind != "call" || e.Fn == nil || !inRw(e.Fn) {
			continue
		}
		switch e.Fn.Name() {
		case "rewriteReturnAndForSwitchInitStmtInYieldFun":
			order = append(order, "pass0")
		case "rewriteRanges":
			order = append(order, "ranges")
		case "rewriteStmts":
			order = append(order, "stmts")
			if len(e.Args) >= 3 {
				stmtsBlock = e.Args[len(e.Args)-1] // the output block is the last argument (with or without a start index)
			}
		case "rewriteBreakContinues":
			order = append(order, "branches")
			if len(e.Args) == 2 {
				branchArg = e.Args[1]
			}
		}
	}
	wantOrder := "pass0,ranges,stmts,branches"
	c.check(strings.Join(order, ",") == wantOrder, "RW.TMPL.YIELDFUNC", "pass order", pos,
		"returns/inits (pass0) -> range loops -> statements -> break/continue, each exactly once",
		"passes run as ["+strings.Join(order, ",")+"], expected ["+wantOrder+"]")
	// final body
	bo := o.St.Obj(bodyRef)
	var err error
	bname := ""
	if ob := o.St.Obj(stmtsBlock); ob != nil {
		bname = ob.Opaque
	}
	if bname == "" {
		err = fmt.Errorf("the block handed to the statement rewriter is not a fresh block")
	} else {
		blk := pLeaf{bname + ".block"}
		want := lst(nd("ReturnStmt", map[string]Pat{"Results": lst(seqCallPat("Start", seqCallPat("Delay", thunkPat(blk))))}))
		err = matchTmpl(o.St, bo.Fields["List"], want)
		if err == nil && (branchArg == nil || !strings.HasPrefix(argLabel(branchArg), bname+".block")) {
			err = fmt.Errorf("the break/continue pass does not run over the rewritten block")
		}
	}
	c.check(err == nil, "RW.TMPL.YIELDFUNC", "generator body", pos,
		"the function body becomes exactly `return Start(Delay(func() Seq { <all rewritten statements> }))`: nothing of the body runs before the first advance, all locals live inside the per-call thunk",
		fmt.Sprint("generator wrapper: ", err), o.St.Render(bo.Fields["List"]))
}

func (r *rwRT) ruleTmplCombine() {
	c := r.c
	c.min("RW.TMPL.COMBINE", 1)
	fn := r.method("yieldAst", "CallCombine")
	c.fn(relName(fn))
	st := newState()
	y := r.newYieldAst(st, "seq", exprLeaf(r, "T"))
	s1, _ := r.heapNode(st, "BlockStmt", map[string]AV{"List": leafSym("s1")})
	s2, _ := r.heapNode(st, "BlockStmt", map[string]AV{"List": leafSym("s2")})
	in := r.interp(rwConfig{root: fn, inlineAll: true})
	outs := in.Run(st, fn, []AV{y, s1, s2}, nil)
	r.account(in)
	var err error
	if len(outs) != 1 || outs[0].Panicked {
		err = fmt.Errorf("not a single path")
	} else {
		err = matchTmpl(outs[0].St, outs[0].Ret[0], seqCallPat("Combine", seqCallPat("Delay", thunkPat(pVal{s1})), seqCallPat("Delay", thunkPat(pVal{s2}))))
	}
	c.check(err == nil, "RW.TMPL.COMBINE", "Combine(first, rest)", r.w.FnPos(fn),
		"Combine(Delay(func(){first}), Delay(func(){rest})): both halves are thunks (two scopes, nothing of the second half is evaluated while the first runs)",
		fmt.Sprint("Combine template: ", err))
}

// ------------------------------------------------------------------ pass0 driver: RW.TMPL.HOIST / RW.TMPL.RETURN

type applyDriver struct {
	r        *rwRT
	in       *Interp
	base     *State
	pre, pst AV
	cur      AV
}

func (r *rwRT) newApplyDriver(fn *ssa.Function, args []AV, cfg rwConfig, fields map[string]AV, extra func(cc *CallCtx) []Answer) *applyDriver {
	d := &applyDriver{r: r}
	in := r.interp(cfg)
	in.MaxDepth = 14
	for k, v := range fields {
		in.Fields[k] = v
	}
	in.OnCall = wrapOnCall(in.OnCall, func(cc *CallCtx) []Answer {
		if cc.Fn != nil && cc.Fn.Name() == "Node" && cc.Fn.Signature.Recv() != nil && strings.Contains(cc.Fn.Signature.Recv().Type().String(), "astutil.Cursor") {
			return []Answer{{Ret: []AV{d.cur}, NoEvent: true}}
		}
		if extra != nil {
			return extra(cc)
		}
		return nil
	})
	d.in = in
	outs := in.Run(nil, fn, args, nil)
	for _, o := range outs {
		for _, e := range o.St.Events {
			if e.Kind == "call" && e.Fn != nil && e.Fn.Name() == "Apply" && len(e.Args) == 3 {
				d.base, d.pre, d.pst = o.St, e.Args[1], e.Args[2]
			}
		}
	}
	if d.base == nil {
		undecided("%s does not call astutil.Apply with callbacks", relName(fn))
	}
	return d
}

func (d *applyDriver) step(st *State, cb AV, node AV) []Outcome {
	d.cur = node
	if n, known := nilness(cb); known && n {
		return []Outcome{{St: st}}
	}
	return d.in.Apply(st, cb, []AV{Sym{Name: "cursor", NN: true}})
}

func cursorEdits(st *State, from int) []Event {
	var out []Event
	for _, e := range st.Events[from:] {
		if e.Kind == "call" && e.Fn != nil && e.Fn.Signature.Recv() != nil && strings.Contains(e.Fn.Signature.Recv().Type().String(), "astutil.Cursor") {
			switch e.Fn.Name() {
			case "Replace", "InsertBefore", "InsertAfter", "Delete":
				out = append(out, e)
			}
		}
	}
	return out
}

func (r *rwRT) rulePass0() {
	c := r.c
	c.min("RW.TMPL.HOIST", 6)
	c.min("RW.TMPL.RETURN", 3)
	fn := r.method("yieldRewriter", "rewriteReturnAndForSwitchInitStmtInYieldFun")
	c.fn(relName(fn))
	pos := r.w.FnPos(fn)
	var nilRet *bool
	d := r.newApplyDriver(fn, []AV{Sym{Name: "r", NN: true}, Sym{Name: "body", NN: true}},
		rwConfig{root: fn, boundaries: map[string]bool{"rewriteReturnAndForSwitchInitStmtInYieldFun": false}},
		map[string]AV{"r.yieldAst.funRetParamTy": exprLeaf(r, "T")},
		func(cc *CallCtx) []Answer {
			// isRetNil's type test: types.Identical(nilType, TypeOf(result))
			if cc.Fn != nil && cc.Fn.Name() == "Identical" && nilRet != nil {
				return []Answer{{Ret: []AV{mkBool(*nilRet)}, NoEvent: true}}
			}
			return nil
		})
	// contexts: directly in the generator (default), inside a nested plain closure, inside a nested generator closure
	type ctx struct {
		name  string
		inGen bool
		setup func(st *State) (*State, bool)
	}
	enterLit := func(isGen bool) func(st *State) (*State, bool) {
		return func(st *State) (*State, bool) {
			node := r.node("FuncLit", "lit")
			d.in.Fields["r.rewriteRetCache"] = MapV{M: map[string]AV{}}
			want := fmt.Sprintf("isYieldFuncLit(lit)=%v", isGen)
			for _, o := range d.step(st, d.pre, node) {
				if o.Panicked {
					continue
				}
				for _, l := range o.St.Labels {
					if l == want {
						return o.St, true
					}
				}
			}
			return nil, false
		}
	}
	ctxs := []ctx{
		{"generator body", true, func(st *State) (*State, bool) { return st, true }},
		{"nested ordinary closure", false, enterLit(false)},
		{"nested generator closure", true, enterLit(true)},
	}
	for _, cx := range ctxs {
		st0, ok := cx.setup(d.base)
		if !ok {
			c.und("RW.TMPL.HOIST", cx.name, pos, "cannot enter context")
			continue
		}
		// init hoisting
		for _, kind := range []string{"ForStmt", "SwitchStmt", "TypeSwitchStmt"} {
			for _, define := range []bool{true, false} {
				st := st0.clone()
				tok := "ASSIGN"
				if define {
					tok = "DEFINE"
				}
				initRef, init := r.heapNode(st, "AssignStmt", map[string]AV{"Tok": r.tokConst(tok), "Lhs": leafSym("init.Lhs"), "Rhs": leafSym("init.Rhs")})
				nRef, n := r.heapNode(st, kind, map[string]AV{"Init": init, "Body": leafSym("n.Body")})
				mark := len(st.Events)
				outs := d.step(st, d.pst, n)
				construct := fmt.Sprintf("%s: %s with %s init", cx.name, strings.TrimSuffix(kind, "Stmt"), map[bool]string{true: "':='", false: "'='"}[define])
				wantHoist := cx.inGen && define
				var err error
				if len(outs) == 0 {
					err = fmt.Errorf("no path")
				}
				for _, o := range outs {
					if err != nil {
						break
					}
					if o.Panicked {
						err = fmt.Errorf("the callback panics on this node")
						break
					}
					edits := cursorEdits(o.St, mark)
					if wantHoist {
						if len(edits) != 1 || edits[0].Fn.Name() != "Replace" {
							err = fmt.Errorf("expected exactly one Replace, got %d edit(s)", len(edits))
						} else {
							err = matchTmpl(o.St, edits[0].Args[1], nd("BlockStmt", map[string]Pat{"List": lst(pVal{initRef}, pVal{nRef})}))
							if err == nil && !isNilLike(o.St.Obj(nRef).Fields["Init"]) {
								err = fmt.Errorf("the statement keeps its init after hoisting (declared twice)")
							}
						}
					} else if len(edits) != 0 {
						err = fmt.Errorf("node is edited (%s) although it must be left alone", edits[0].Fn.Name())
					} else if !sameAV(o.St.Obj(nRef).Fields["Init"], init) {
						err = fmt.Errorf("init statement changed")
					}
				}
				okMsg := "left untouched"
				if wantHoist {
					okMsg = "replaced by a fresh block { init; stmt-without-init }: the ':=' keeps shadowing exactly the statement it belongs to"
				}
				c.check(err == nil, "RW.TMPL.HOIST", construct, pos, okMsg, fmt.Sprint("init hoisting: ", err))
			}
		}
		// return rewriting
		for _, isNil := range []bool{true, false} {
			isNil := isNil
			nilRet = &isNil
			st := st0.clone()
			_, ret := r.heapNode(st, "ReturnStmt", map[string]AV{"Return": mkInt(7), "Results": SliceV{Elems: []AV{exprLeaf(r, "result")}}})
			mark := len(st.Events)
			outs := d.step(st, d.pst, ret)
			construct := fmt.Sprintf("%s: return %s", cx.name, map[bool]string{true: "nil", false: "<expr>"}[isNil])
			if len(outs) != 1 || outs[0].Panicked {
				c.bad("RW.TMPL.RETURN", construct, pos, fmt.Sprintf("%d paths / panic", len(outs)))
				continue
			}
			o := outs[0]
			edits := cursorEdits(o.St, mark)
			var err error
			if !cx.inGen {
				if len(edits) != 0 {
					err = fmt.Errorf("a return statement of an ordinary closure is rewritten (%s)", edits[0].Fn.Name())
				}
			} else {
				var repl, ins *Event
				for i := range edits {
					switch edits[i].Fn.Name() {
					case "Replace":
						repl = &edits[i]
					case "InsertBefore":
						ins = &edits[i]
					}
				}
				if repl == nil {
					err = fmt.Errorf("return is not replaced by `return seq.Return()`")
				} else {
					err = matchTmpl(o.St, repl.Args[1], nd("ReturnStmt", map[string]Pat{"Results": lst(seqCallPat("Return"))}))
				}
				if err == nil && !isNil {
					if ins == nil {
						err = fmt.Errorf("the result expression of `return <expr>` is dropped: it is no longer evaluated (its effects and panics disappear)")
					} else {
						err = matchTmpl(o.St, ins.Args[1], nd("AssignStmt", map[string]Pat{"Lhs": lst(nd("Ident", map[string]Pat{"Name": pStr{"_"}})), "Tok": pTok{r.tokConst("ASSIGN")}, "Rhs": lst(pLeaf{"result"})}))
					}
				}
				if err == nil && isNil && ins != nil {
					err = fmt.Errorf("unexpected statement inserted before `return nil`")
				}
			}
			okMsg := "left untouched"
			if cx.inGen {
				okMsg = "becomes `return seq.Return()`, a non-nil result is still evaluated (`_ = expr`) in place"
			}
			c.check(err == nil, "RW.TMPL.RETURN", construct, pos, okMsg, fmt.Sprint("return rewriting: ", err))
		}
		nilRet = nil
	}
	r.account(d.in)
}

// calleeBase: the callee node (identifier or selector, below any instantiation) of the single
// call statement in the body of a generated range statement.
func calleeBase(st *State, rng AV) AV {
	ro := st.Obj(unwrap(rng))
	if ro == nil {
		return nil
	}
	bo := st.Obj(unwrap(ro.Fields["Body"]))
	if bo == nil {
		return nil
	}
	l, _ := bo.Fields["List"].(SliceV)
	if len(l.Elems) != 1 {
		return nil
	}
	es := st.Obj(unwrap(l.Elems[0]))
	if es == nil {
		return nil
	}
	call := st.Obj(unwrap(es.Fields["X"]))
	if call == nil {
		return nil
	}
	fun := call.Fields["Fun"]
	if fo := st.Obj(unwrap(fun)); fo != nil && typeName(fo.T) == "IndexExpr" {
		fun = fo.Fields["X"]
	}
	return fun
}

// anyLabel reports whether some outcome carries a label with the prefix.
func anyLabel(outs []Outcome, prefix string) bool {
	for _, o := range outs {
		for _, l := range o.St.Labels {
			if strings.HasPrefix(l, prefix) {
				return true
			}
		}
	}
	return false
}

// loweredLoopOf: v is a for statement allocated on this path whose init
// statement takes the range statement's own operand.
func (r *rwRT) loweredLoopOf(st *State, v AV, frRef Ref) bool {
	lo := st.Obj(unwrap(v))
	fo := st.Obj(frRef)
	if lo == nil || fo == nil || typeName(lo.T) != "ForStmt" {
		return false
	}
	io := st.Obj(unwrap(lo.Fields["Init"]))
	if io == nil {
		return false
	}
	rhs, _ := io.Fields["Rhs"].(SliceV)
	return len(rhs.Elems) == 1 && sameAV(unwrap(rhs.Elems[0]), unwrap(fo.Fields["X"]))
}

// ------------------------------------------------------------------ RW.TMPL.CONSUMER (dispatch)
//
// ruleConsumerDispatch drives the cursor callback rewriteForRanges on a range
// statement: when the operand is an iterator the *unmodified* statement (its
// own key, token, operand and body) must be what the lowering receives and the
// statement must be replaced by the lowering's result; otherwise nothing is
// touched. The lowering itself is RW.TMPL.CONSUMER.
func (r *rwRT) ruleConsumerDispatch() {
	c := r.c
	fn := r.method("rewriter", "rewriteForRanges")
	c.fn(relName(fn))
	pos := r.w.FnPos(fn)
	for _, tok := range []string{"DEFINE", "ASSIGN"} {
		for _, emptyBody := range []bool{false, true} {
			for _, isIter := range []bool{true, false} {
				st := newState()
				_, key := r.identNode(st, "v")
				var list AV = leafSym("fr.Body.List")
				if emptyBody {
					list = SliceV{}
				}
				bodyRef, _ := r.heapNode(st, "BlockStmt", map[string]AV{"List": list})
				frRef, fr := r.heapNode(st, "RangeStmt", map[string]AV{"Key": key, "Value": Nil{}, "Tok": r.tokConst(tok), "X": exprLeaf(r, "fr.X"), "Body": bodyRef})
				before := st.Render(frRef)
				in := r.interp(rwConfig{root: fn, boundaries: map[string]bool{"rewriteForRange": true}})
				in.OnCall = wrapOnCall(in.OnCall, func(cc *CallCtx) []Answer {
					if cc.Fn != nil && cc.Fn.Name() == "Node" && cc.Fn.Signature.Recv() != nil && strings.Contains(cc.Fn.Signature.Recv().Type().String(), "astutil.Cursor") {
						return []Answer{{Ret: []AV{fr}, NoEvent: true}}
					}
					return nil
				})
				outs := in.Run(st, fn, []AV{Sym{Name: "r", NN: true}, Sym{Name: "cursor", NN: true}, Sym{Name: "pkg", NN: true}}, nil)
				r.account(in)
				// the lowering may ask the question itself (nil for "not an iterator"): when no path of the
				// callback asks, the callback and the lowering are evaluated as one
				inlined := false
				if !anyLabel(outs, "isIterator(") {
					st = newState()
					_, key = r.identNode(st, "v")
					bodyRef, _ = r.heapNode(st, "BlockStmt", map[string]AV{"List": list})
					frRef, fr = r.heapNode(st, "RangeStmt", map[string]AV{"Key": key, "Value": Nil{}, "Tok": r.tokConst(tok), "X": exprLeaf(r, "fr.X"), "Body": bodyRef})
					before = st.Render(frRef)
					in2 := r.interp(rwConfig{root: fn, boundaries: map[string]bool{"rewriteForRange": false}})
					frNode := fr
					in2.OnCall = wrapOnCall(in2.OnCall, func(cc *CallCtx) []Answer {
						if cc.Fn != nil && cc.Fn.Name() == "Node" && cc.Fn.Signature.Recv() != nil && strings.Contains(cc.Fn.Signature.Recv().Type().String(), "astutil.Cursor") {
							return []Answer{{Ret: []AV{frNode}, NoEvent: true}}
						}
						return nil
					})
					outs = in2.Run(st, fn, []AV{Sym{Name: "r", NN: true}, Sym{Name: "cursor", NN: true}, Sym{Name: "pkg", NN: true}}, nil)
					r.account(in2)
					inlined = true
				}
				construct := fmt.Sprintf("dispatch: for v %s range x {%s}, x iterator = %v", map[string]string{"DEFINE": ":=", "ASSIGN": "="}[tok], map[bool]string{true: "", false: " body "}[emptyBody], isIter)
				found := false
				var err error
				for _, o := range outs {
					match := false
					for _, l := range o.St.Labels {
						if strings.HasPrefix(l, "isIterator(") && strings.HasSuffix(l, fmt.Sprintf("=%v", isIter)) {
							match = true
						}
					}
					if !match && !o.Panicked && isIter && err == nil {
						asked := false
						for _, l := range o.St.Labels {
							if strings.HasPrefix(l, "isIterator(") {
								asked = true
							}
						}
						if !asked {
							err = fmt.Errorf("a range statement is passed over without the question whether its operand is an iterator (a path decided by where the statement stands — e.g. under a label — leaves the loop unlowered while its operand's type becomes seq.Iterator: the output does not build): %s", pathSummary(o))
						}
					}
					if !match || o.Panicked {
						continue
					}
					found = true
					after := o.St.Render(frRef)
					edits := cursorEdits(o.St, 0)
					var lowered *Event
					for i, e := range o.St.Events {
						if e.Kind == "call" && e.Fn != nil && e.Fn.Name() == "rewriteForRange" && inRw(e.Fn) {
							lowered = &o.St.Events[i]
						}
					}
					if inlined {
						switch {
						case err != nil:
						case epochRe.ReplaceAllString(after, "") != epochRe.ReplaceAllString(before, ""):
							err = fmt.Errorf("the range statement is modified by its lowering (its key, token, operand or body are no longer the source's): %s", after)
						case isIter && (len(edits) != 1 || edits[0].Fn.Name() != "Replace" || !r.loweredLoopOf(o.St, edits[0].Args[1], frRef)):
							err = fmt.Errorf("the range statement is not replaced by exactly one loop built from its operand")
						case !isIter && len(edits) != 0:
							err = fmt.Errorf("a range loop whose operand is not an iterator is rewritten by the consumer pass")
						}
						continue
					}
					switch {
					case err != nil:
					case epochRe.ReplaceAllString(after, "") != epochRe.ReplaceAllString(before, ""):
						err = fmt.Errorf("the range statement is modified before it is lowered (its key, token, operand or body are no longer the source's: `for last = range g {}` must still assign last): %s", after)
					case isIter && (lowered == nil || !sameAV(unwrap(lowered.Args[len(lowered.Args)-1]), frRef)):
						err = fmt.Errorf("a range loop over an iterator is not handed to the lowering")
					case isIter && (len(edits) != 1 || edits[0].Fn.Name() != "Replace" || lowered.Ret == nil || argLabel(edits[0].Args[1]) != argLabel(lowered.Ret)):
						err = fmt.Errorf("the range statement is not replaced by exactly the lowering's result")
					case !isIter && (lowered != nil || len(edits) != 0):
						err = fmt.Errorf("a range loop whose operand is not an iterator is rewritten by the consumer pass")
					}
				}
				if !found {
					c.und("RW.TMPL.CONSUMER", construct, pos, "the lowering is not controlled by the iterator-type predicate on this shape")
					continue
				}
				c.check(err == nil, "RW.TMPL.CONSUMER", construct, pos, map[bool]string{true: "the unmodified statement is lowered and replaced by the result", false: "left untouched"}[isIter], fmt.Sprint(err))
			}
		}
	}
}

// runYieldFunc drives rewriteYieldFunc(funTy, body) — the entry point the per-file pass calls for every
// generator — on a symbolic function type and body, whatever way it hands them on to its helpers
// (fields of the rewriter or parameters). The four statement passes are boundary events.
func (r *rwRT) runYieldFunc() (o Outcome, bodyRef, fieldRef Ref, pos string, err error) {
	fn := r.method("yieldRewriter", "rewriteYieldFunc")
	r.c.fn(relName(fn))
	pos = r.w.FnPos(fn)
	st := newState()
	bodyRef, _ = r.heapNode(st, "BlockStmt", map[string]AV{"List": leafSym("body.List")})
	fieldRef, _ = r.heapNode(st, "Field", map[string]AV{"Type": exprLeaf(r, "oldResult")})
	resRef, _ := r.heapNode(st, "FieldList", map[string]AV{"List": SliceV{Elems: []AV{fieldRef}}})
	ftRef, _ := r.heapNode(st, "FuncType", map[string]AV{"Results": resRef})
	in := r.interp(rwConfig{root: fn, blockOracles: true, boundaries: map[string]bool{"rewriteYieldFunc": false, "rewriteYieldFuncBody": false, "rewriteYieldFuncResult": false}})
	in.MaxDepth = 16
	r.setImportNames(in, "", "seq")
	in.OnCall = wrapOnCall(in.OnCall, func(cc *CallCtx) []Answer {
		if cc.Fn != nil && inRw(cc.Fn) && cc.Fn.Name() == "yieldFuncRetParamTy" {
			return []Answer{{Ret: []AV{exprLeaf(r, "T")}, NoEvent: true}}
		}
		return nil
	})
	outs := in.Run(st, fn, []AV{Sym{Name: "r", NN: true}, ftRef, bodyRef}, nil)
	r.account(in)
	if len(outs) != 1 || outs[0].Panicked {
		return Outcome{}, bodyRef, fieldRef, pos, fmt.Errorf("rewriteYieldFunc on a symbolic generator: expected one path, got %d", len(outs))
	}
	return outs[0], bodyRef, fieldRef, pos, nil
}

// notAnIterator: a path of the consumer lowering on which the question "is the operand an iterator" was asked and
// answered no (the lowering may ask it itself and hand back nothing): not a path of a consumer loop.
func notAnIterator(o Outcome) bool {
	for _, l := range o.St.Labels {
		if strings.HasPrefix(l, "isIterator(") && strings.HasSuffix(l, "=false") {
			return true
		}
	}
	return false
}
