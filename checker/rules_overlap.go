package main

// SEQ.OVERLAP — two activations of the same Seq value that overlap in time
// (two iterators started from one term and consumed alternately; a term that
// re-enters itself) must not share anything: the continuation handed out by the
// first activation keeps working for the first activation's (c, k) after a
// second activation of the same value was started with another (c2, k2).

import (
	"fmt"
	"strings"
)

func (s *seqRT) ruleOverlap() {
	c := s.c
	roles := s.ruleRole()
	c.min("SEQ.OVERLAP", 4)
	c1, k1 := AV(Sym{Name: "c", NN: true}), AV(Sym{Name: "k", NN: true})
	c2, k2 := AV(Sym{Name: "c2", NN: true}), AV(Sym{Name: "k2", NN: true})
	uses1 := func(evs []Event) string {
		for _, e := range evs {
			x := e.String()
			if strings.Contains(x, "⟨c⟩") || strings.Contains(x, "⟨k⟩") || strings.HasPrefix(e.Target, "c.") {
				return x
			}
		}
		return ""
	}
	uses2 := func(evs []Event) string {
		for _, e := range evs {
			x := e.String()
			if strings.Contains(x, "⟨c2⟩") || strings.Contains(x, "⟨k2⟩") || strings.Contains(e.Target, "c2.") {
				return x
			}
		}
		return ""
	}
	// Combine: K of activation 1 must start s2 with (c, k)
	{
		in := s.interp()
		fn := s.w.Func(pathSeq, "Combine")
		pos := s.w.FnPos(fn)
		seq, st, ok := s.construct(in, "SEQ.OVERLAP", "Combine", []AV{Sym{Name: "s1", NN: true}, Sym{Name: "s2", NN: true}})
		if ok {
			var err error
			o1 := in.Apply(st, seq, []AV{c1, k1})
			if len(o1) != 1 {
				err = fmt.Errorf("first activation is not a single path")
			} else {
				ev1 := observable(o1[0].St.Events[len(st.Events):])
				var K1 AV
				if len(ev1) == 1 && len(ev1[0].Args) == 2 {
					K1 = ev1[0].Args[1]
				}
				o2 := in.Apply(o1[0].St, seq, []AV{c2, k2})
				if K1 == nil || len(o2) != 1 {
					err = fmt.Errorf("activations do not hand out a continuation")
				} else {
					// the second activation's own continuation must act on the second activation
					ev2 := observable(o2[0].St.Events[len(o1[0].St.Events):])
					if len(ev2) == 1 && len(ev2[0].Args) == 2 {
						K2 := ev2[0].Args[1]
						for _, name := range roles.names {
							for _, o := range in.Apply(o2[0].St, K2, []AV{roles.byName[name], Sym{Name: "v"}}) {
								if u := uses1(observable(o.St.Events[len(o2[0].St.Events):])); u != "" {
									err = fmt.Errorf("the continuation handed out by a second activation of the same Combine value (signal %s) acts on the first activation's state: %s", name, u)
								}
							}
						}
					}
					for _, name := range roles.names {
						o3 := in.Apply(o2[0].St, K1, []AV{roles.byName[name], Sym{Name: "v"}})
						for _, o := range o3 {
							evs := observable(o.St.Events[len(o2[0].St.Events):])
							if u := uses2(evs); u != "" {
								err = fmt.Errorf("after a second activation of the same Combine value, the continuation of the first activation (signal %s) acts on the second activation's state: %s", name, u)
							}
						}
					}
				}
			}
			s.account(in)
			c.check(err == nil, "SEQ.OVERLAP", "Combine", pos, "the continuation of an activation keeps its own (c, k) while another activation of the same value is live", fmt.Sprint(err))
		}
	}
	// Bind / BindRecv: the resumption stored by activation 1 runs with (c, k)
	for _, name := range []string{"Bind", "BindRecv"} {
		in := s.interp()
		fn := s.w.Func(pathSeq, name)
		pos := s.w.FnPos(fn)
		seq, st, ok := s.construct(in, "SEQ.OVERLAP", name, []AV{Sym{Name: "yv"}, Sym{Name: "f", NN: true}})
		if !ok {
			continue
		}
		var err error
		o1 := in.Apply(st, seq, []AV{c1, k1})
		if len(o1) != 1 {
			err = fmt.Errorf("first activation is not a single path")
		} else {
			next := storedResumption(o1[0].St, o1[0].St.Events[len(st.Events):])
			o2 := in.Apply(o1[0].St, seq, []AV{c2, k2})
			if next == nil || len(o2) != 1 {
				err = fmt.Errorf("activation does not store a resumption")
			} else {
				for _, o := range in.Apply(o2[0].St, next, []AV{Sym{Name: "recv"}}) {
					evs := observable(o.St.Events[len(o2[0].St.Events):])
					if u := uses2(evs); u != "" {
						err = fmt.Errorf("the resumption stored by the first activation runs on the second activation's state: %s", u)
					}
				}
			}
		}
		s.account(in)
		c.check(err == nil, "SEQ.OVERLAP", name, pos, "a stored resumption keeps the (c, k) of the activation that stored it", fmt.Sprint(err))
	}
	// For: the body continuation of activation 1, resumed after activation 2 started
	{
		in := s.interp()
		in.MaxRecur, in.MaxVisits, in.MaxDepth = 6, 6, 40
		fn := s.w.Func(pathSeq, "For")
		pos := s.w.FnPos(fn)
		in.OnCall = func(cc *CallCtx) []Answer {
			sym, ok := cc.Callee.(Sym)
			if !ok {
				return nil
			}
			switch sym.Name {
			case "cond":
				return []Answer{{Ret: []AV{mkBool(true)}, Label: "true"}}
			case "body":
				return []Answer{{Label: "suspend"}}
			}
			return nil
		}
		seq, st, ok := s.construct(in, "SEQ.OVERLAP", "For", []AV{Sym{Name: "cond", NN: true}, Sym{Name: "post", NN: true}, Sym{Name: "body", NN: true}})
		if ok {
			var err error
			o1 := in.Apply(st, seq, []AV{c1, k1})
			if len(o1) != 1 {
				err = fmt.Errorf("first activation is not a single path")
			} else {
				K1 := lastSuspendedK(o1[0].St.Events)
				o2 := in.Apply(o1[0].St, seq, []AV{c2, k2})
				if K1 == nil || len(o2) != 1 {
					err = fmt.Errorf("activation does not suspend in its body")
				} else {
					for _, name := range roles.names {
						for _, o := range in.Apply(o2[0].St, K1, []AV{roles.byName[name], Sym{Name: "v"}}) {
							evs := observable(o.St.Events[len(o2[0].St.Events):])
							if u := uses2(evs); u != "" {
								err = fmt.Errorf("after a second activation of the same loop value, resuming the first activation (signal %s) acts on the second activation's state: %s", name, u)
							}
							// and it must still behave like the loop it belongs to
							var got []string
							for _, e := range evs {
								got = append(got, e.String())
							}
							switch name {
							case "Break", "Return":
								if len(evs) != 1 || !isSymNamed(evs[0].Callee, "k") {
									err = fmt.Errorf("resuming the first activation with %s does not finish the first loop through its own k: %s", name, strings.Join(got, " ; "))
								}
							}
						}
					}
				}
			}
			s.account(in)
			c.check(err == nil, "SEQ.OVERLAP", "For", pos, "a suspended iteration keeps the (c, k) and loop state of its own activation while another activation of the same loop value is live", fmt.Sprint(err))
		}
	}
}
