package main

// RW.ORACLE.* — the predicates the other rules treat as oracles are themselves
// decided here (properties C12, C13):
//   containsYield: descends everywhere except into function declarations and
//     literals, and answers true exactly on a call whose callee is Yield or YieldFrom;
//   isCallStmtOf: true exactly for an expression statement that *is* a call of the callee;
//   mustNoYield: nil statements are yield-free, otherwise the negation of containsYield;
//   collectYieldFunc: a Yield/YieldFrom call marks the innermost enclosing function
//     (declaration or literal) — after its signature was checked — and nothing else.

import (
	"fmt"
	"strings"
)

func (r *rwRT) ruleOracles() {
	c := r.c
	c.min("RW.ORACLE", 4)
	// ---- containsYield
	{
		fn := r.method("rewriter", "containsYield")
		c.fn(relName(fn))
		pos := r.w.FnPos(fn)
		yieldObj, fromObj := Sym{Name: "obj:Yield", NN: true, Uniq: true}, Sym{Name: "obj:YieldFrom", NN: true, Uniq: true}
		var callee AV
		d := r.newApplyDriver(fn, []AV{Sym{Name: "r", NN: true}, Sym{Name: "pkg", NN: true}, Sym{Name: "n", NN: true}},
			rwConfig{root: fn, boundaries: map[string]bool{"containsYield": false}},
			map[string]AV{"r.yieldFunc": yieldObj, "r.yieldFromFunc": fromObj},
			func(cc *CallCtx) []Answer {
				if cc.Fn != nil && cc.Fn.Name() == "Callee" {
					return []Answer{{Ret: []AV{callee}, NoEvent: true}}
				}
				return nil
			})
		var err error
		if n, known := nilness(d.pst); !known || !n {
			// a post-order callback is fine as long as it does not edit
		}
		for _, kind := range []string{"FuncDecl", "FuncLit"} {
			for _, o := range d.step(d.base, d.pre, r.node(kind, "n")) {
				if o.Panicked || len(o.Ret) != 1 {
					err = fmt.Errorf("unexpected behaviour on %s", kind)
					continue
				}
				if b, ok := asBool(o.Ret[0]); !ok || b {
					err = fmt.Errorf("the search descends into a nested %s: a yield of an inner function would count for the outer one", kind)
				}
			}
		}
		for _, kind := range []string{"BlockStmt", "IfStmt", "ForStmt", "RangeStmt", "SwitchStmt", "CaseClause", "ExprStmt", "GoStmt", "DeferStmt", "ParenExpr", "AssignStmt", "LabeledStmt", "SelectStmt", "CommClause", "TypeSwitchStmt", "CompositeLit", "KeyValueExpr", "BinaryExpr"} {
			for _, o := range d.step(d.base, d.pre, r.node(kind, "n")) {
				if o.Panicked || len(o.Ret) != 1 {
					err = fmt.Errorf("the search stops with a panic on a %s node", kind)
					continue
				}
				if b, ok := asBool(o.Ret[0]); !ok || !b {
					err = fmt.Errorf("the search does not descend into %s nodes: a yield below one is not seen (and would be emitted as a no-op stub call)", kind)
				}
			}
		}
		for _, tc := range []struct {
			name string
			obj  AV
			hit  bool
		}{{"Yield", yieldObj, true}, {"YieldFrom", fromObj, true}, {"another function", Sym{Name: "obj:other", NN: true, Uniq: true}, false}, {"an unresolved callee", Nil{}, false}} {
			callee = tc.obj
			for _, o := range d.step(d.base, d.pre, r.node("CallExpr", "n")) {
				// "found" is signalled either by aborting the traversal (panic with a private token) or by
				// setting a boolean captured by the callback (and pruning the rest of the traversal)
				found := o.Panicked || flippedToTrue(d.base, o.St, d.pre)
				if found != tc.hit {
					err = fmt.Errorf("a call of %s: found=%v, expected %v", tc.name, found, tc.hit)
				}
				if !found && !o.Panicked && len(o.Ret) == 1 {
					if b, ok := asBool(o.Ret[0]); !ok || !b {
						err = fmt.Errorf("the search does not descend into the arguments of a call of %s", tc.name)
					}
				}
			}
		}
		r.account(d.in)
		c.check(err == nil, "RW.ORACLE", "containsYield", pos, "descends into every statement and expression kind except function declarations/literals; reports exactly calls of Yield and YieldFrom", fmt.Sprint(err))
	}
	// ---- isCallStmtOf
	{
		// decided at the two predicates the passes use (isYieldCall / isYieldFromCall); how they share their
		// implementation (a common helper taking the callee, a classification of the callee, ...) is representation
		var err error
		var pos string
		for _, pred := range []struct{ name, field, other string }{{"isYieldCall", "r.yieldFunc", "r.yieldFromFunc"}, {"isYieldFromCall", "r.yieldFromFunc", "r.yieldFunc"}} {
			fn := r.method("rewriter", pred.name)
			c.fn(relName(fn))
			pos = r.w.FnPos(fn)
			target := Sym{Name: "obj:callee", NN: true, Uniq: true}
			type tc struct {
				name   string
				build  func(st *State) AV
				callee AV
				want   bool
			}
			mkCallStmt := func(x func(st *State) AV) func(st *State) AV {
				return func(st *State) AV { _, n := r.heapNode(st, "ExprStmt", map[string]AV{"X": x(st)}); return n }
			}
			call := func(st *State) AV {
				_, n := r.heapNode(st, "CallExpr", map[string]AV{"Fun": exprLeaf(r, "f")})
				return n
			}
			paren := func(st *State) AV { _, n := r.heapNode(st, "ParenExpr", map[string]AV{"X": call(st)}); return n }
			cases := []tc{
				{"statement that is a call of the callee", mkCallStmt(call), target, true},
				{"statement that is a call of another function", mkCallStmt(call), Sym{Name: "obj:other", NN: true, Uniq: true}, false},
				{"parenthesised call statement", mkCallStmt(paren), target, false},
				{"go statement", func(st *State) AV {
					_, n := r.heapNode(st, "GoStmt", map[string]AV{"Call": unwrap(call(st))})
					return n
				}, target, false},
				{"assignment", func(st *State) AV { _, n := r.heapNode(st, "AssignStmt", map[string]AV{}); return n }, target, false},
			}
			for _, t := range cases {
				st := newState()
				n := t.build(st)
				in := r.interp(rwConfig{root: fn, inlineAll: true, noOracles: true})
				in.Fields[pred.field] = target
				in.Fields[pred.other] = Sym{Name: "obj:the other API function", NN: true, Uniq: true}
				callee := t.callee
				in.OnCall = wrapOnCall(in.OnCall, func(cc *CallCtx) []Answer {
					if cc.Fn != nil && cc.Fn.Name() == "Callee" {
						return []Answer{{Ret: []AV{callee}, NoEvent: true}}
					}
					return nil
				})
				outs := in.Run(st, fn, []AV{Sym{Name: "r", NN: true}, Sym{Name: "pkg", NN: true}, n}, nil)
				r.account(in)
				for _, o := range outs {
					if o.Panicked || len(o.Ret) != 2 {
						err = fmt.Errorf("%s: %s: panics", pred.name, t.name)
						continue
					}
					if b, ok := asBool(o.Ret[1]); !ok || b != t.want {
						err = fmt.Errorf("%s: %s: answers %v, expected %v", pred.name, t.name, o.Ret[1], t.want)
					}
				}
			}
		}
		c.check(err == nil, "RW.ORACLE", "isCallStmtOf", pos, "true exactly for an expression statement whose expression is a call resolving to the given function", fmt.Sprint(err))
	}
	// ---- mustNoYield
	{
		fn := r.method("yieldRewriter", "mustNoYield")
		c.fn(relName(fn))
		pos := r.w.FnPos(fn)
		var err error
		for _, contains := range []bool{true, false} {
			in := r.interp(rwConfig{root: fn, boundaries: map[string]bool{"mustNoYield": false}})
			contains := contains
			var asked AV
			in.OnCall = wrapOnCall(in.OnCall, func(cc *CallCtx) []Answer {
				if cc.Fn != nil && inRw(cc.Fn) && cc.Fn.Name() == "containsYield" {
					asked = cc.Args[len(cc.Args)-1]
					return []Answer{{Ret: []AV{mkBool(contains)}, NoEvent: true}}
				}
				return nil
			})
			stmt := Dyn{T: r.astPtr("ExprStmt"), V: leafSym("s")}
			outs := in.Run(nil, fn, []AV{Sym{Name: "r", NN: true}, stmt}, nil)
			r.account(in)
			for _, o := range outs {
				if o.Panicked || len(o.Ret) != 1 {
					err = fmt.Errorf("panics")
					continue
				}
				if b, ok := asBool(o.Ret[0]); !ok || b != !contains {
					err = fmt.Errorf("containsYield=%v but mustNoYield=%v", contains, o.Ret[0])
				}
				if asked == nil || countLeaf(o.St, asked, "s") != 1 {
					err = fmt.Errorf("the statement itself is not what is searched for yields")
				}
			}
		}
		c.check(err == nil, "RW.ORACLE", "mustNoYield", pos, "the negation of containsYield on the statement itself (nil statements are yield-free)", fmt.Sprint(err))
	}
	// ---- collectYieldFunc: which function is marked
	{
		fn := r.method("rewriter", "collectYieldFunc")
		c.fn(relName(fn))
		pos := r.w.FnPos(fn)
		yieldObj, fromObj := Sym{Name: "obj:Yield", NN: true, Uniq: true}, Sym{Name: "obj:YieldFrom", NN: true, Uniq: true}
		var callee AV
		var useNode, useObj AV // an identifier of the file and the object it denotes (ObjectOf / Uses)
		d := r.newApplyDriver(fn, []AV{Sym{Name: "r", NN: true}, Sym{Name: "pkg", NN: true}, Sym{Name: "f", NN: true}},
			rwConfig{root: fn, boundaries: map[string]bool{"collectYieldFunc": false}},
			map[string]AV{"r.yieldFunc": yieldObj, "r.yieldFromFunc": fromObj},
			func(cc *CallCtx) []Answer {
				if cc.Fn == nil {
					return nil
				}
				switch cc.Fn.Name() {
				case "Callee":
					return []Answer{{Ret: []AV{callee}, NoEvent: true}}
				case "isIterator":
					return []Answer{{Ret: []AV{mkBool(true)}, NoEvent: true}}
				case "ObjectOf":
					if useNode != nil && len(cc.Args) > 0 && sameAV(unwrap(cc.Args[len(cc.Args)-1]), unwrap(useNode)) {
						return []Answer{{Ret: []AV{useObj}, NoEvent: true}}
					}
					return []Answer{{Ret: []AV{Nil{}}, NoEvent: true}}
				}
				return nil
			})
		marked := func(st *State, from int) []string {
			var out []string
			for _, e := range st.Events[from:] {
				// an update of a set the rewriter holds (whatever it is called and however many there are), not of
				// a map local to the collector (its visit cache)
				if e.Kind == "mapupdate" && len(e.Args) == 3 {
					if sy, ok := unwrap(e.Args[0]).(Sym); ok && strings.HasPrefix(sy.Name, "r.") {
						out = append(out, argLabel(e.Args[1]))
					}
				}
			}
			return out
		}
		var err error
		type step struct {
			cb   string
			node AV
		}
		F := r.node("FuncDecl", "F")
		L := r.node("FuncLit", "L")
		call := r.node("CallExpr", "call")
		run := func(seq []step, calleeObj AV) (*State, bool) {
			callee = calleeObj
			st := d.base
			for _, s := range seq {
				cb := d.pre
				if s.cb == "post" {
					cb = d.pst
				}
				var next *State
				for _, o := range d.step(st, cb, s.node) {
					if o.Panicked {
						continue
					}
					// follow the path on which checks succeed (type assertions on the symbolic signature succeed)
					if next == nil || len(o.St.Events) > len(next.Events) {
						next = o.St
					}
				}
				if next == nil {
					return nil, false
				}
				st = next
			}
			return st, true
		}
		mark0 := len(d.base.Events)
		// every scenario for literals with and without a result list (a callback such as
		// func(v int) { Yield(v) } has none: it is still a function of its own)
		for _, litResults := range []AV{Sym{Name: "results", NN: true}, Nil{}} {
			for _, lit := range []string{"L", "D"} {
				d.in.Fields[lit+".Type"] = Sym{Name: lit + ".Type", NN: true}
				d.in.Fields[lit+".Type.Results"] = litResults
			}
			if _, isNil := litResults.(Nil); isNil && err != nil {
				break
			}
			// yield directly in a declared function
			if st, ok := run([]step{{"pre", F}, {"pre", call}, {"post", call}, {"post", F}}, yieldObj); !ok {
				err = fmt.Errorf("traversal over func F() { Yield() } does not complete")
			} else if m := marked(st, mark0); len(m) != 1 || m[0] != "F" {
				err = fmt.Errorf("func F() { Yield() } marks %v, expected exactly F", m)
			}
			// yield inside a literal nested in a declared function: only the literal
			if st, ok := run([]step{{"pre", F}, {"pre", L}, {"pre", call}, {"post", call}, {"post", L}, {"post", F}}, fromObj); !ok {
				if err == nil {
					err = fmt.Errorf("traversal over a nested literal does not complete")
				}
			} else if m := marked(st, mark0); (len(m) != 1 || m[0] != "L") && err == nil {
				err = fmt.Errorf("func F() { g := func() { YieldFrom() } } marks %v, expected exactly the literal (the enclosing ordinary function must stay untouched)", m)
			}
			// yield after the literal closed: the outer function
			if st, ok := run([]step{{"pre", F}, {"pre", L}, {"post", L}, {"pre", call}, {"post", call}, {"post", F}}, yieldObj); ok {
				if m := marked(st, mark0); (len(m) != 1 || m[0] != "F") && err == nil {
					err = fmt.Errorf("func F() { g := func() {}; Yield() } marks %v, expected exactly F", m)
				}
			}
			// yield in F after a closure that itself contains a literal: still F
			D := r.node("FuncLit", "D")
			if st, ok := run([]step{{"pre", F}, {"pre", L}, {"pre", D}, {"post", D}, {"post", L}, {"pre", call}, {"post", call}, {"post", F}}, yieldObj); ok {
				if m := marked(st, mark0); (len(m) != 1 || m[0] != "F") && err == nil {
					err = fmt.Errorf("func F() { c := func() { d := func() {} }; Yield() } marks %v, expected exactly F (the enclosing-function bookkeeping does not return to F after leaving nested literals)", m)
				}
			} else if err == nil {
				err = fmt.Errorf("traversal over doubly nested literals does not complete")
			}
			// yield in the middle literal after its inner literal closed: the middle literal
			if st, ok := run([]step{{"pre", F}, {"pre", L}, {"pre", D}, {"post", D}, {"pre", call}, {"post", call}, {"post", L}, {"post", F}}, yieldObj); ok {
				if m := marked(st, mark0); (len(m) != 1 || m[0] != "L") && err == nil {
					err = fmt.Errorf("a yield in a literal after its inner literal closed marks %v, expected exactly that literal", m)
				}
			}
			// a call of something else marks nothing
			if st, ok := run([]step{{"pre", F}, {"pre", call}, {"post", call}, {"post", F}}, Sym{Name: "obj:other", NN: true, Uniq: true}); ok {
				if m := marked(st, mark0); len(m) != 0 && err == nil {
					err = fmt.Errorf("a call of another function marks %v", m)
				}
			}
			if _, isNil := litResults.(Nil); isNil && err != nil {
				err = fmt.Errorf("for function literals without a result list: %v", err)
			}
		}
		// Yield / YieldFrom used as a *value* (`y := Yield[int]; y(1)`, a callback argument): no call statement to
		// lower, the stub of package co would be called at run time and the value silently lost. Such a use must end
		// in a diagnostic by the time the file has been traversed. (The identifier is shown to the traversal with its
		// object; that it is not the callee of a call is what "no call node follows" means.)
		{
			id := r.node("Ident", "use")
			fileNode := r.node("File", "file")
			for _, ob := range []AV{yieldObj, fromObj} {
				useNode, useObj = id, ob
				// wherever the use stands: alone in a function, before a function literal of the same function
				// (`emit := Yield[int]; go func() { … }()`), at package level before a function
				survive, where := 0, ""
				for _, sc := range []struct {
					desc  string
					steps []step
				}{
					{"in a function", []step{{"pre", fileNode}, {"pre", F}, {"pre", id}, {"post", id}, {"post", F}, {"post", fileNode}}},
					{"in a function, before a function literal", []step{{"pre", fileNode}, {"pre", F}, {"pre", id}, {"post", id}, {"pre", L}, {"post", L}, {"post", F}, {"post", fileNode}}},
					{"at package level, before a function", []step{{"pre", fileNode}, {"pre", id}, {"post", id}, {"pre", F}, {"post", F}, {"post", fileNode}}},
				} {
					sts := []*State{d.base}
					for _, stp := range sc.steps {
						cb := d.pre
						if stp.cb == "post" {
							cb = d.pst
						}
						var next []*State
						for _, st := range sts {
							for _, o := range d.step(st, cb, stp.node) {
								if !o.Panicked {
									next = append(next, o.St)
								}
							}
						}
						sts = next
					}
					if len(sts) > 0 {
						survive += len(sts)
						where = sc.desc
					}
				}
				useNode, useObj = nil, nil
				c.check(survive == 0, "RW.ORACLE", "a use of "+strings.TrimPrefix(argLabel(ob), "obj:")+" that is not called is rejected", pos,
					"an identifier denoting the API function that is not the callee of a call ends the traversal of the file in a diagnostic (in a function, before a function literal, at package level)",
					fmt.Sprintf("%d path(s) of the collector complete although the file uses the API function as a value (%s: `y := Yield[int]; y(1)`): nothing lowers such a use, the generated code calls the stub of package co and the value is lost", survive, where))
			}
		}
		r.account(d.in)
		c.check(err == nil, "RW.ORACLE", "collectYieldFunc marks the innermost enclosing function only", pos, "a Yield/YieldFrom call marks exactly the innermost function declaration or literal around it; other calls mark nothing", fmt.Sprint(err))
	}
}

var _ = strings.Contains

// flippedToTrue: some boolean variable captured by the closure is false before and true after.
func flippedToTrue(before, after *State, clo AV) bool {
	c, ok := clo.(Closure)
	if !ok {
		return false
	}
	for _, b := range c.Bind {
		r, isRef := b.(Ref)
		if !isRef {
			continue
		}
		ob, oa := before.heap[r.ID], after.heap[r.ID]
		if ob != nil && oa != nil && ob.Kind == 's' {
			// a method value: the flag is a field of the receiver
			for k, fa := range oa.Fields {
				va, ka := asBool(fa)
				vb, kb := asBool(ob.Fields[k])
				if ob.Fields[k] == nil {
					vb, kb = false, true
				}
				if _, isZ := ob.Fields[k].(Zero); isZ {
					vb, kb = false, true
				}
				if ka && kb && va && !vb {
					return true
				}
			}
			continue
		}
		if ob == nil || oa == nil || ob.Kind != 'c' {
			continue
		}
		vb, kb := asBool(ob.Val)
		if ob.Val == nil {
			vb, kb = false, true
		}
		if z, isZ := ob.Val.(Zero); isZ {
			_ = z
			vb, kb = false, true
		}
		va, ka := asBool(oa.Val)
		if kb && ka && !vb && va {
			return true
		}
	}
	return false
}
