package main

// RW.SCOPE.INIT, RW.TMPL.FORPOST, RW.RANGEDISPATCH, RW.TMPL.ITERTYPE, RW.FILEPASSES

import (
	"fmt"
	"go/types"
	"strings"
)

// ruleScopeInit: a ':=' initialiser is never moved out of the statement that
// owns it by the statement rewriter (pass0 has already hoisted the for/switch
// ones into a fresh block; an if initialiser must stay where it is).
func (r *rwRT) ruleScopeInit() {
	c := r.c
	c.min("RW.SCOPE.INIT", 4)
	fn := r.method("yieldRewriter", "rewriteStmt")
	pos := r.w.FnPos(fn)
	for _, kind := range []string{"IfStmt", "ForStmt", "SwitchStmt", "TypeSwitchStmt"} {
		st := newState()
		initRef, init := r.heapNode(st, "AssignStmt", map[string]AV{"Tok": r.tokConst("DEFINE"), "Lhs": leafSym("init.Lhs"), "Rhs": leafSym("init.Rhs")})
		body, _ := r.heapNode(st, "BlockStmt", map[string]AV{"List": leafSym("stmt.Body.List")})
		f := map[string]AV{"Init": init, "Body": body}
		switch kind {
		case "IfStmt":
			f["Cond"] = exprLeaf(r, "stmt.Cond")
			f["Else"] = Nil{}
		case "ForStmt":
			f["Cond"], f["Post"] = exprLeaf(r, "stmt.Cond"), Nil{}
		case "SwitchStmt", "TypeSwitchStmt":
			_, c0 := r.heapNode(st, "CaseClause", map[string]AV{"List": Nil{}, "Body": leafSym("case0.Body")})
			b, _ := r.heapNode(st, "BlockStmt", map[string]AV{"List": SliceV{Elems: []AV{c0}}})
			f["Body"] = b
			if kind == "SwitchStmt" {
				f["Tag"] = exprLeaf(r, "stmt.Tag")
			} else {
				f["Assign"] = Dyn{T: r.astPtr("ExprStmt"), V: leafSym("stmt.Assign")}
			}
		}
		_, root := r.heapNode(st, kind, f)
		cfg := rwConfig{root: fn, blockOracles: true, boundaries: map[string]bool{
			"rewriteIfStmt": false, "rewriteSwitchStmt": false, "rewriteForStmt": false,
			"rewriteYieldCall": false, "combineIfNecessary": false, "generateLastNormalIfNecessary": false,
		}}
		in := r.interp(cfg)
		in.MaxRecur, in.MaxVisits, in.MaxDepth = 3, 4, 16
		outs := in.Run(st, fn, []AV{Sym{Name: "r", NN: true}, root, Sym{Name: "isLast"}, Sym{Name: "children", NN: true}}, nil)
		r.account(in)
		moved := ""
		accepting := 0
		for _, o := range outs {
			if o.Panicked || o.St.Truncated {
				continue
			}
			accepting++
			for _, e := range o.St.Events {
				if e.Kind != "call" || e.Fn == nil || !inRw(e.Fn) {
					continue
				}
				switch e.Fn.Name() {
				case "push", "rewriteStmt", "rewriteStmts":
					if len(e.Args) >= 2 && sameAV(unwrap(e.Args[1]), initRef) {
						moved = pathSummary(o)
					}
				}
			}
		}
		construct := strings.TrimSuffix(kind, "Stmt") + " with ':=' init"
		if accepting == 0 {
			c.und("RW.SCOPE.INIT", construct, pos, "no accepting path")
			continue
		}
		c.check(moved == "", "RW.SCOPE.INIT", construct, pos,
			fmt.Sprintf("%d accepting paths: the ':=' initialiser is never emitted outside the statement that owns it (its scope cannot leak into, or capture from, the enclosing block)", accepting),
			"the ':=' initialiser is moved into the enclosing block without a fresh scope: it shadows (or clashes with) variables of the statements that follow: "+moved)
	}
}

// ------------------------------------------------------------------ RW.RANGEDISPATCH

func (r *rwRT) ruleRangeDispatch() {
	c := r.c
	c.min("RW.RANGEDISPATCH", 8)
	fn := r.method("yieldRewriter", "rewriteRanges")
	c.fn(relName(fn))
	pos := r.w.FnPos(fn)
	tp := r.w.importedPkg(pathRw, "go/types")
	if tp == nil {
		undecided("rewriter does not import go/types")
	}
	tptr := func(name string) types.Type { return types.NewPointer(tp.Scope().Lookup(name).Type()) }
	info := func(name string) AV { return Const{tp.Scope().Lookup(name).(*types.Const).Val()} }
	type tk struct {
		name, goType string
		info         AV
		ctor         string // expected seq constructor, "" = left native, "reject"
		slice        bool
		named        bool // the operand has a defined type (type Ints []int): the dispatch goes by its underlying type
	}
	kinds := []tk{
		{"string", "Basic", info("IsString"), "NewStringIter", false, false},
		{"integer", "Basic", info("IsInteger"), "NewIntegerIter", false, false},
		{"float", "Basic", info("IsFloat"), "", false, false},
		{"array", "Array", nil, "NewSliceIter", true, false},
		{"slice", "Slice", nil, "NewSliceIter", false, false},
		{"map", "Map", nil, "NewMapIter", false, false},
		{"chan", "Chan", nil, "NewChanIter", false, false},
		{"func", "Signature", nil, "reject", false, false},
		{"pointer", "Pointer", nil, "", false, false},
		{"interface", "Interface", nil, "", false, false},
		{"slice of a defined type", "Slice", nil, "NewSliceIter", false, true},
		{"map of a defined type", "Map", nil, "NewMapIter", false, true},
		{"string of a defined type", "Basic", info("IsString"), "NewStringIter", false, true},
	}
	var curType AV
	var curInfo AV
	var curUnder types.Type
	curNamed := false
	curIndex := int64(0) // position of the visited statement in its parent's list; -1: not an element of a list
	d := r.newApplyDriver(fn, []AV{Sym{Name: "r", NN: true}, Sym{Name: "block", NN: true}},
		rwConfig{root: fn, boundaries: map[string]bool{"rewriteRanges": false}},
		map[string]AV{"r.yieldAst.seqImportedName": mkString("seq")},
		func(cc *CallCtx) []Answer {
			if cc.Fn == nil {
				return nil
			}
			switch cc.Fn.Name() {
			case "Index":
				if cc.Fn.Signature.Recv() != nil && strings.Contains(cc.Fn.Signature.Recv().Type().String(), "astutil.Cursor") {
					return []Answer{{Ret: []AV{mkInt(curIndex)}, NoEvent: true}}
				}
			case "TypeOf":
				return []Answer{{Ret: []AV{curType}, NoEvent: true}}
			case "Underlying":
				if len(cc.Args) == 1 {
					if curNamed {
						return []Answer{{Ret: []AV{Dyn{T: curUnder, V: Sym{Name: "ty.underlying", NN: true}}}, NoEvent: true}}
					}
					return []Answer{{Ret: []AV{Dyn{T: curType.(Dyn).T, V: cc.Args[0]}}, NoEvent: true}}
				}
			case "Info":
				if curInfo != nil {
					return []Answer{{Ret: []AV{curInfo}, NoEvent: true}}
				}
			}
			return nil
		})
	if n, known := nilness(d.pre); !known || !n {
		// a pre-order callback could prune function literals: ranges in nested closures must be lowered too
		node := r.node("FuncLit", "lit")
		for _, o := range d.step(d.base, d.pre, node) {
			if len(o.Ret) == 1 {
				if b, ok := asBool(o.Ret[0]); ok && !b {
					c.bad("RW.RANGEDISPATCH", "nested closures", pos, "the traversal prunes function literals: range loops inside closures nested in a generator are not lowered")
				}
			}
		}
	}
	c.ok("RW.RANGEDISPATCH", "nested closures", pos, "the traversal descends into function literals (range loops in nested closures are lowered like the others)")
	// a range statement that is not an element of a statement list (the statement of a label: `L: for … range …`,
	// e.g. in an ordinary closure nested in the generator, which this traversal enters): there is no place in front
	// of it for the iterator, Cursor.InsertBefore panics inside astutil ("node not contained in slice")
	{
		st := d.base.clone()
		curType = Dyn{T: tptr("Slice"), V: Sym{Name: "ty", NN: true}}
		curNamed, curUnder, curInfo, curIndex = false, tptr("Slice"), nil, -1
		_, n := r.heapNode(st, "RangeStmt", map[string]AV{"Key": exprLeaf(r, "n.Key"), "Value": Nil{}, "Tok": r.tokConst("DEFINE"), "X": exprLeaf(r, "n.X"), "Body": leafSym("n.Body")})
		mark := len(st.Events)
		bad := ""
		for _, o := range d.step(st, d.pst, n) {
			if o.Panicked {
				continue // rejected with a diagnostic of the rewriter's own
			}
			if len(o.Ret) == 1 {
				if b, known := asBool(o.Ret[0]); known && !b {
					bad = "the traversal callback answers false for a range statement that is not an element of a statement list: astutil.Apply then stops the whole traversal and every range loop after it stays unlowered (a yield in one of them is rejected)"
				}
			}
			for _, e := range cursorEdits(o.St, mark) {
				if e.Fn.Name() == "InsertBefore" || e.Fn.Name() == "InsertAfter" {
					bad = "Cursor." + e.Fn.Name() + " is called for a range statement that is not an element of a statement list (the statement of a label): astutil panics with \"node not contained in slice\" — a labelled range loop in an ordinary closure nested in a generator crashes the compiler"
				}
			}
		}
		curIndex = 0
		c.check(bad == "", "RW.RANGEDISPATCH", "range statement that is not an element of a statement list", pos,
			"no statement is inserted next to a range statement that is not in a list (it stays as it is, or is rejected with a diagnostic)", bad)
	}
	seqScope := r.w.Pkgs[pathSeq].Types.Scope()
	arrayAlias := false
	for _, k := range kinds {
		st := d.base.clone()
		curType = Dyn{T: tptr(k.goType), V: Sym{Name: "ty", NN: true}}
		curNamed, curUnder = k.named, tptr(k.goType)
		if k.named {
			curType = Dyn{T: tptr("Named"), V: Sym{Name: "ty", NN: true}}
		}
		curInfo = k.info
		nRef, n := r.heapNode(st, "RangeStmt", map[string]AV{"Key": exprLeaf(r, "n.Key"), "Value": Nil{}, "Tok": r.tokConst("DEFINE"), "X": exprLeaf(r, "n.X"), "Body": leafSym("n.Body")})
		_ = nRef
		mark := len(st.Events)
		outs := d.step(st, d.pst, n)
		construct := "range over " + k.name
		rejected, lowered := 0, 0
		var err error
		for _, o := range outs {
			if o.Panicked {
				rejected++
				continue
			}
			edits := cursorEdits(o.St, mark)
			var iterArg AV
			for _, e := range o.St.Events[mark:] {
				if e.Kind == "call" && e.Fn != nil && e.Fn.Name() == "rewriteRangeToForIter" && len(e.Args) == 3 {
					iterArg = e.Args[2]
				}
			}
			if k.ctor == "" {
				if len(edits) != 0 || iterArg != nil {
					err = fmt.Errorf("a range loop over %s is rewritten although no iterator exists for it", k.name)
				}
				continue
			}
			if k.ctor == "reject" {
				err = fmt.Errorf("range over func is accepted on some path")
				continue
			}
			lowered++
			if iterArg == nil || len(edits) != 2 || edits[0].Fn.Name() != "InsertBefore" || edits[1].Fn.Name() != "Replace" {
				err = fmt.Errorf("expected `it := seq.%s(x)` inserted before the loop and the loop replaced; got %d cursor edit(s)", k.ctor, len(edits))
				continue
			}
			var argP Pat = pLeaf{"n.X"}
			if k.slice {
				argP = nd("SliceExpr", map[string]Pat{"X": pLeaf{"n.X"}})
			}
			want := nd("CallExpr", map[string]Pat{"Fun": pSelect(nd("Ident", map[string]Pat{"Name": pStr{"seq"}}), k.ctor), "Args": lst(argP)})
			if e2 := matchTmpl(o.St, iterArg, want); e2 != nil {
				if k.slice {
					// a different (e.g. copying) lowering of arrays is acceptable as long as the operand occurs once
					if countLeaf(o.St, iterArg, "n.X") != 1 {
						err = fmt.Errorf("iterator constructor call: %v", e2)
					}
				} else {
					err = fmt.Errorf("iterator constructor call: %v", e2)
				}
			} else if k.slice {
				arrayAlias = true
			}
		}
		if k.ctor == "reject" && rejected == 0 {
			err = fmt.Errorf("range over func is not rejected")
		}
		if k.ctor != "" && k.ctor != "reject" {
			if lowered == 0 && err == nil {
				err = fmt.Errorf("a range loop over %s is not lowered (it would stay native and any yield in its body is lost or rejected)", k.name)
			}
			// cross-layer: the constructor exists in seq and takes this kind of operand
			obj, _ := seqScope.Lookup(k.ctor).(*types.Func)
			if obj == nil {
				err = fmt.Errorf("seq.%s does not exist", k.ctor)
			} else {
				pt := obj.Type().(*types.Signature).Params()
				okKind := pt.Len() == 1
				if okKind {
					// a parameter of type-parameter type stands for its core type (S ~string)
					paramT := pt.At(0).Type()
					under := paramT.Underlying()
					_, isTP := paramT.(*types.TypeParam)
					if isTP {
						under = coreOfTypeParam(paramT.(*types.TypeParam))
						if under == nil && k.name == "integer" && allTermsInteger(paramT.(*types.TypeParam)) {
							under = types.Typ[types.Int] // constrained to the integer types: any integer kind is accepted
						}
					}
					// an operand of a defined type (type Name string, type Ints []int) is assignable to the parameter
					// only if that is a type parameter or an unnamed type literal ([]V, map[K]V, <-chan V), never
					// if it is a named type such as string itself
					if k.named && !isTP {
						switch paramT.(type) {
						case *types.Slice, *types.Map, *types.Chan, *types.Array:
						default:
							if err == nil {
								err = fmt.Errorf("a %s is passed to seq.%s, whose parameter has the named type %s: a value of a defined type is not assignable to it and the generated call does not build (e.g. `type Name string; for _, r := range name`)", k.name, k.ctor, paramT)
							}
						}
					}
					switch u := under.(type) {
					case *types.Basic:
						okKind = (strings.HasPrefix(k.name, "string") && u.Info()&types.IsString != 0) || (k.name == "integer" && u.Info()&types.IsInteger != 0)
					case *types.Slice:
						okKind = strings.HasPrefix(k.name, "slice") || k.name == "array"
					case *types.Map:
						okKind = strings.HasPrefix(k.name, "map")
					case *types.Chan:
						okKind = k.name == "chan"
					default:
						okKind = false
					}
				}
				if !okKind && err == nil {
					err = fmt.Errorf("seq.%s does not take a %s operand", k.ctor, k.name)
				}
			}
		}
		okMsg := "left as a native range loop"
		if k.ctor == "reject" {
			okMsg = "rejected"
		} else if k.ctor != "" {
			okMsg = "lowered through seq." + k.ctor + ", whose parameter is of that kind; init inserted before the loop (operand evaluated once, before the first iteration)"
		}
		c.check(err == nil, "RW.RANGEDISPATCH", construct, pos, okMsg, fmt.Sprint(err))
	}
	r.account(d.in)
	// Go range table: array operands are copied when a value variable is present and need not be addressable
	if arrayAlias {
		c.bad("RW.RANGEDISPATCH", "array operands are ranged over a copy and need not be addressable", pos,
			"an array operand is lowered as seq.NewSliceIter(x[:]): the slice aliases the array (Go ranges over a copy when a value variable is present) and x[:] needs an addressable operand (`range arr()` no longer builds)")
	} else {
		c.ok("RW.RANGEDISPATCH", "array operands are ranged over a copy and need not be addressable", pos, "array operands are not lowered by slicing the operand in place")
	}
	// integer operands: the dispatch accepts every integer kind; does the constructor?
	if obj, _ := seqScope.Lookup("NewIntegerIter").(*types.Func); obj != nil {
		sig := obj.Type().(*types.Signature)
		generic := sig.TypeParams() != nil && sig.TypeParams().Len() > 0
		c.check(generic, "RW.RANGEDISPATCH", "integer operands of any integer type", pos,
			"the integer iterator is generic over the operand's integer type",
			"every integer kind (the dispatch tests IsInteger) is lowered through seq.NewIntegerIter, whose parameter is the fixed type "+sig.Params().At(0).Type().String()+": a range over int8/uint/int64 ... no longer builds, and the key would have the wrong type")
	}
}

// ------------------------------------------------------------------ RW.TMPL.ITERTYPE

func (r *rwRT) ruleIterType() {
	c := r.c
	c.min("RW.TMPL.ITERTYPE", 3)
	fn := r.w.MethodOpt(pathRw, "rewriter", "rewriteIter")
	strFields := map[string]bool{}
	if fn == nil {
		// the pass under another name / as a method of a pass object of its own: the cursor callback of the package
		// that asks the iterator-type predicate and edits the tree, and reaches none of the other lowerings
		for _, f := range r.w.FuncsOf(pathRw) {
			if f.Signature.Recv() == nil || f.Signature.Params().Len() != 2 || !strings.Contains(f.Signature.Params().At(0).Type().String(), "astutil.Cursor") {
				continue
			}
			if r.passClassByReach(f.String()) == "iterType" {
				fn = f
			}
		}
		if fn == nil {
			undecided("the pass that replaces the iterator type is not found (no cursor callback of package rewriter asks the iterator-type predicate and edits the tree)")
		}
		// the name package seq goes by is whatever string the pass object carries
		rt := fn.Signature.Recv().Type()
		if pt, ok := rt.(*types.Pointer); ok {
			rt = pt.Elem()
		}
		if stt, ok := rt.Underlying().(*types.Struct); ok {
			for i := 0; i < stt.NumFields(); i++ {
				if b, ok := stt.Field(i).Type().Underlying().(*types.Basic); ok && b.Kind() == types.String {
					strFields["r."+stt.Field(i).Name()] = true
				}
			}
		}
	}
	c.fn(relName(fn))
	pos := r.w.FnPos(fn)
	for _, isIter := range []bool{true, false} {
		st := newState()
		_, n := r.heapNode(st, "IndexExpr", map[string]AV{"X": exprLeaf(r, "n.X"), "Index": exprLeaf(r, "n.Index")})
		in := r.interp(rwConfig{root: fn})
		// frame condition: the library calls made here (cursor, loader, go/types) cannot reach the rewriter's own fields
		in.HavocKeep = func(key string) bool { return strings.HasPrefix(key, "r.") || strings.HasPrefix(key, "map:r.") }
		r.setImportNames(in, "", "seq")
		for k := range strFields {
			in.Fields[k] = mkString("seq")
		}
		var cur AV = n
		in.OnCall = wrapOnCall(in.OnCall, func(cc *CallCtx) []Answer {
			if cc.Fn != nil && cc.Fn.Name() == "Node" && cc.Fn.Signature.Recv() != nil && strings.Contains(cc.Fn.Signature.Recv().Type().String(), "astutil.Cursor") {
				return []Answer{{Ret: []AV{cur}, NoEvent: true}}
			}
			return nil
		})
		outs := in.Run(st, fn, []AV{Sym{Name: "r", NN: true}, Sym{Name: "cursor", NN: true}, Sym{Name: "pkg", NN: true}}, nil)
		r.account(in)
		want := fmt.Sprintf("isIterator(ret:(github.com/goghcrow/go-loader.Pkg).TypeOf#0)=%v", isIter)
		found := false
		for _, o := range outs {
			match := false
			for _, l := range o.St.Labels {
				if strings.HasPrefix(l, "isIterator(") && strings.HasSuffix(l, fmt.Sprintf("=%v", isIter)) {
					match = true
				}
			}
			if !match {
				continue
			}
			found = true
			edits := cursorEdits(o.St, 0)
			var err error
			// the predicate must be asked about the indexed operand (X of X[T]), not about the whole expression
			operandAsked := false
			for _, e := range o.St.Events {
				if e.Kind == "call" && e.Fn != nil && e.Fn.Name() == "TypeOf" && len(e.Args) >= 1 && e.Ret != nil {
					if countLeaf(o.St, e.Args[len(e.Args)-1], "n.X") == 1 && countLeaf(o.St, e.Args[len(e.Args)-1], "n.Index") == 0 {
						for _, l := range o.St.Labels {
							if strings.HasPrefix(l, "isIterator("+argLabel(e.Ret)+")") {
								operandAsked = true
							}
						}
					}
				}
			}
			if !operandAsked {
				err = fmt.Errorf("the iterator-type predicate is not applied to the type of the indexed operand X of X[T] (an element access such as its[i] of iterator element type would be replaced too)")
			}
			if err != nil {
			} else if isIter {
				if len(edits) != 1 || edits[0].Fn.Name() != "Replace" {
					err = fmt.Errorf("expected one Replace, got %d edits", len(edits))
				} else {
					err = matchTmpl(o.St, edits[0].Args[1], nd("IndexExpr", map[string]Pat{"X": pSelect(nd("Ident", map[string]Pat{"Name": pStr{"seq"}}), "Iterator"), "Index": pLeaf{"n.Index"}}))
				}
			} else if len(edits) != 0 {
				err = fmt.Errorf("an index expression that is not the iterator type is rewritten")
			}
			c.check(err == nil, "RW.TMPL.ITERTYPE", fmt.Sprintf("X[T] with X iterator type = %v", isIter), pos,
				map[bool]string{true: "replaced by seq.Iterator[<same T>] under the file's import name", false: "left untouched"}[isIter], fmt.Sprint(err))
			if isIter && err == nil {
				// the same node can be reached again at another position (the element-type expression of a generator
				// is shared by every seq call generated for it): the decision depends on the node alone, every
				// occurrence is replaced (a "seen" cache leaves Iter[Iter[int]] half rewritten)
				mark := len(o.St.Events)
				again := in.Run(o.St.clone(), fn, []AV{Sym{Name: "r", NN: true}, Sym{Name: "cursor", NN: true}, Sym{Name: "pkg", NN: true}}, nil)
				r.account(in)
				replaced := true
				for _, o2 := range again {
					if o2.Panicked {
						continue
					}
					isIterPath := false
					for _, l := range o2.St.Labels[len(o.St.Labels):] {
						if strings.HasPrefix(l, "isIterator(") && strings.HasSuffix(l, "=true") {
							isIterPath = true
						}
					}
					if len(o2.St.Labels) == len(o.St.Labels) {
						isIterPath = true // the predicate was not even consulted
					}
					if isIterPath && len(cursorEdits(o2.St, mark)) == 0 {
						replaced = false
					}
				}
				c.check(replaced, "RW.TMPL.ITERTYPE", "the same X[T] node visited a second time", pos, "replaced again: the replacement depends on the node alone", "a node that was replaced once is skipped when it is visited again (the iterator type is not replaced consistently where one type expression is shared by several positions)")
			}
		}
		_ = want
		if !found {
			c.und("RW.TMPL.ITERTYPE", fmt.Sprintf("X[T] with X iterator type = %v", isIter), pos, "the replacement is not controlled by the iterator-type predicate")
		}
	}
	// the generator's own result type is built the same way
	o2, _, fieldRef, pos2, derr := r.runYieldFunc()
	var err error
	if derr != nil {
		err = derr
	} else {
		err = matchTmpl(o2.St, o2.St.Obj(fieldRef).Fields["Type"], nd("IndexExpr", map[string]Pat{"X": pSelect(nd("Ident", map[string]Pat{"Name": pStr{"seq"}}), "Iterator"), "Index": pLeaf{"T"}}))
	}
	c.check(err == nil, "RW.TMPL.ITERTYPE", "generator result type", pos2, "the result type becomes seq.Iterator[<element type>] — the same expression rewriteIter builds", fmt.Sprint(err))
}

// coreOfTypeParam: the single underlying type all terms of the type parameter's constraint share (S ~string -> string).
func coreOfTypeParam(tp *types.TypeParam) types.Type {
	iface, _ := tp.Constraint().Underlying().(*types.Interface)
	if iface == nil {
		return nil
	}
	var core types.Type
	for i := 0; i < iface.NumEmbeddeds(); i++ {
		var terms []*types.Term
		switch e := iface.EmbeddedType(i).(type) {
		case *types.Union:
			for j := 0; j < e.Len(); j++ {
				terms = append(terms, e.Term(j))
			}
		default:
			terms = append(terms, types.NewTerm(false, e))
		}
		for _, t := range terms {
			u := t.Type().Underlying()
			if core == nil {
				core = u
			} else if !types.Identical(core, u) {
				return nil
			}
		}
	}
	return core
}

// allTermsInteger: every term of the type parameter's constraint is an integer type.
func allTermsInteger(tp *types.TypeParam) bool {
	iface, _ := tp.Constraint().Underlying().(*types.Interface)
	if iface == nil || iface.NumEmbeddeds() == 0 {
		return false
	}
	for i := 0; i < iface.NumEmbeddeds(); i++ {
		var ts []types.Type
		switch e := iface.EmbeddedType(i).(type) {
		case *types.Union:
			for j := 0; j < e.Len(); j++ {
				ts = append(ts, e.Term(j).Type())
			}
		default:
			ts = append(ts, e)
		}
		for _, t := range ts {
			if b, ok := t.Underlying().(*types.Basic); !ok || b.Info()&types.IsInteger == 0 {
				if it, isI := t.Underlying().(*types.Interface); isI && it.NumEmbeddeds() > 0 {
					continue // a nested constraint interface: its own terms are checked where it is declared
				}
				return false
			}
		}
	}
	return true
}
