package main

// K1 — finite-domain abstract interpreter over go/ssa with trace partitioning.
//
// It explores the paths of a function for one binding of *abstract inputs*:
// constants of small enums, nil/non-nil, dynamic type tags of interface values,
// closures, heap objects for composite literals, and symbolic "holes" for user
// data. Branches whose condition folds are taken one way, all others both ways
// (recording the assumption and refining the hole). Calls inside the analysed
// package are inlined (bounded depth); designated callees are *oracles* whose
// results are enumerated; all other calls become *events* on the path. Nothing
// is executed and no path condition is handed to a solver.

import (
	"fmt"
	"go/constant"
	"go/token"
	"go/types"
	"os"
	"path/filepath"
	"sort"
	"strings"
	"unicode/utf8"

	"golang.org/x/tools/go/ssa"
)

// ------------------------------------------------------------------ values

type AV interface{ String() string }

type (
	Const  struct{ V constant.Value }
	Zero   struct{ T types.Type } // zero value of T (nil for pointer-like types)
	Nil    struct{}
	NonNil struct{ Tag string } // opaque non-nil value
	Sym    struct {
		Name string
		T    types.Type
		NN   bool // known to be non-nil
		Uniq bool // denotes an entity distinct from every other Uniq symbol
	}
	Dyn struct { // interface value with known dynamic type
		T types.Type
		V AV
	}
	Closure struct {
		Fn   *ssa.Function
		Bind []AV
	}
	Ref      struct{ ID int } // pointer to heap object
	FieldRef struct {         // &base.Field
		Base  AV
		Field string
	}
	ElemRef struct { // &base[idx]
		Base AV
		Idx  AV
		// Origin: the address the slice value Base was loaded from right before it was indexed (`zs[i] = g`
		// on a variable zs): a store through the element address updates the value held there
		Origin AV
	}
	StructV struct { // struct value (immutable snapshot)
		T      types.Type
		Fields map[string]AV
	}
	SliceV struct { // slice value; elements may contain Spread of symbolic slices
		Elems []AV
	}
	Spread struct{ V AV }            // all elements of a symbolic slice
	CellV  struct{ V AV }            // the address of a variable that is never assigned again and holds V (a captured constant): state-independent
	MapV   struct{ M map[string]AV } // finite map with known entries (keyed by the key's rendering); other keys absent
	Tuple  struct{ Vs []AV }
	Top    struct{ Why string }
	// Expr: uninterpreted operator application over abstract values (kept for dataflow)
	Expr struct {
		Op   string
		Args []AV
	}
)

func (c Const) String() string { return c.V.ExactString() }
func (z Zero) String() string {
	if z.T == nil {
		return "zero"
	}
	return "zero(" + types.TypeString(z.T, shortQ) + ")"
}
func (Nil) String() string      { return "nil" }
func (n NonNil) String() string { return "nonnil(" + n.Tag + ")" }
func (s Sym) String() string    { return "⟨" + s.Name + "⟩" }
func (d Dyn) String() string {
	return "dyn(" + types.TypeString(d.T, shortQ) + ":" + d.V.String() + ")"
}
func (c Closure) String() string {
	return "closure(" + relName(c.Fn) + ")"
}
func (r Ref) String() string      { return fmt.Sprintf("&obj%d", r.ID) }
func (f FieldRef) String() string { return "&" + f.Base.String() + "." + f.Field }
func (e ElemRef) String() string  { return "&" + e.Base.String() + "[" + e.Idx.String() + "]" }
func (s StructV) String() string {
	var ks []string
	for k := range s.Fields {
		ks = append(ks, k)
	}
	sort.Strings(ks)
	var xs []string
	for _, k := range ks {
		xs = append(xs, k+": "+s.Fields[k].String())
	}
	return types.TypeString(s.T, shortQ) + "{" + strings.Join(xs, ", ") + "}"
}
func (s SliceV) String() string {
	var xs []string
	for _, e := range s.Elems {
		xs = append(xs, e.String())
	}
	return "[" + strings.Join(xs, ", ") + "]"
}
func (s Spread) String() string { return s.V.String() + "..." }
func (c CellV) String() string  { return "&const(" + c.V.String() + ")" }
func (m MapV) String() string   { return fmt.Sprintf("map[%d entries]", len(m.M)) }
func (t Tuple) String() string {
	var xs []string
	for _, v := range t.Vs {
		xs = append(xs, v.String())
	}
	return "(" + strings.Join(xs, ", ") + ")"
}
func (t Top) String() string { return "⊤" }
func (e Expr) String() string {
	var xs []string
	for _, v := range e.Args {
		xs = append(xs, v.String())
	}
	return e.Op + "(" + strings.Join(xs, ", ") + ")"
}

func shortQ(p *types.Package) string { return p.Name() }

func mkBool(b bool) AV     { return Const{constant.MakeBool(b)} }
func mkInt(i int64) AV     { return Const{constant.MakeInt64(i)} }
func mkString(s string) AV { return Const{constant.MakeString(s)} }

func asBool(a AV) (val, known bool) {
	if c, ok := a.(Const); ok && c.V.Kind() == constant.Bool {
		return constant.BoolVal(c.V), true
	}
	if z, ok := a.(Zero); ok && z.T != nil {
		if b, ok := z.T.Underlying().(*types.Basic); ok && b.Info()&types.IsBoolean != 0 {
			return false, true
		}
	}
	return false, false
}

func asInt(a AV) (int64, bool) {
	switch c := a.(type) {
	case Const:
		if c.V.Kind() == constant.Int {
			n, ok := constant.Int64Val(c.V)
			return n, ok
		}
	case Zero:
		if c.T != nil {
			if b, ok := c.T.Underlying().(*types.Basic); ok && b.Info()&types.IsInteger != 0 {
				return 0, true
			}
		}
	}
	return 0, false
}

func asString(a AV) (string, bool) {
	if c, ok := a.(Const); ok && c.V.Kind() == constant.String {
		return constant.StringVal(c.V), true
	}
	return "", false
}

func nillable(t types.Type) bool {
	if t == nil {
		return true
	}
	switch t.Underlying().(type) {
	case *types.Pointer, *types.Signature, *types.Interface, *types.Slice, *types.Map, *types.Chan:
		return true
	case *types.Basic:
		return t.Underlying().(*types.Basic).Kind() == types.UnsafePointer || t.Underlying().(*types.Basic).Kind() == types.UntypedNil
	}
	return false
}

// nilness: (isNil, known)
func nilness(a AV) (bool, bool) {
	switch a := a.(type) {
	case Nil:
		return true, true
	case Zero:
		if nillable(a.T) {
			if _, isTP := a.T.(*types.TypeParam); isTP {
				return false, false
			}
			return true, true
		}
		return false, false
	case Sym:
		if a.NN {
			return false, true
		}
		return false, false
	case NonNil, Closure, Ref, FieldRef, ElemRef, Dyn:
		// Dyn: an interface holding a (possibly typed-nil) value is non-nil
		return false, true
	case SliceV:
		if len(a.Elems) > 0 {
			return false, true
		}
		return false, false
	}
	return false, false
}

// ------------------------------------------------------------------ heap

type Obj struct {
	T      types.Type
	Kind   byte // 's' struct, 'c' cell, 'a' array
	Fields map[string]AV
	Elems  []AV
	Val    AV
	Site   string        // allocation site comment
	Opaque string        // non-empty: contents unknown after being passed to an un-inlined callee; symbolic name
	Before map[string]AV // fields at the moment the object became opaque
}

func (o *Obj) clone() *Obj {
	n := &Obj{T: o.T, Kind: o.Kind, Val: o.Val, Site: o.Site, Opaque: o.Opaque, Before: o.Before}
	if o.Fields != nil {
		n.Fields = make(map[string]AV, len(o.Fields))
		for k, v := range o.Fields {
			n.Fields[k] = v
		}
	}
	if o.Elems != nil {
		n.Elems = append([]AV(nil), o.Elems...)
	}
	return n
}

// ------------------------------------------------------------------ events

type Event struct {
	Kind   string        // call | invoke | store | load | panic | go | defer | recv | send | mapupdate | cut | ret
	Fn     *ssa.Function // static callee (or closure function) when known
	Callee AV            // dynamic callee value
	Method string        // invoke: method name
	Target string        // store/load: symbolic location
	Args   []AV
	Ret    AV
	Pos    token.Pos
	Stack  string // names of inlined activations at the event
	Note   string
	// Bound: for closure arguments, the function values held at the time of the event by the variables the
	// closure captures (names of closures' functions / symbols); only recorded when Interp.SnapClosures is set
	Bound     []string
	BoundVals []AV // the closure values themselves (same order as the closures among Bound)
}

func (e Event) Name() string {
	switch e.Kind {
	case "call":
		if e.Fn != nil {
			return relName(e.Fn)
		}
		if e.Callee != nil {
			return e.Callee.String()
		}
	case "invoke":
		return "." + e.Method
	case "store", "load":
		return e.Target
	}
	return e.Note
}

func (e Event) String() string {
	var xs []string
	for _, a := range e.Args {
		xs = append(xs, a.String())
	}
	s := e.Kind + " " + e.Name()
	if e.Kind == "call" || e.Kind == "invoke" || e.Kind == "store" || e.Kind == "go" || e.Kind == "defer" {
		s += "(" + strings.Join(xs, ", ") + ")"
	}
	return s
}

// ------------------------------------------------------------------ state

type frame struct {
	fn     *ssa.Function
	env    map[ssa.Value]AV
	visits map[*ssa.BasicBlock]int
}

type State struct {
	frames    []*frame
	heap      map[int]*Obj
	nextID    int
	symMem    map[string]AV // stores to symbolic locations since the last havoc
	refine    map[string]AV // path refinements of holes (nil-ness, bool value, dyn type)
	epoch     int
	Events    []Event
	Labels    []string
	Conds     []Cond // branch assumptions taken on this path (unfolded conditions)
	Truncated bool
	depth     int
}

// Cond is one assumed branch condition.
type Cond struct {
	V     AV
	Truth bool
}

func newState() *State {
	return &State{heap: map[int]*Obj{}, symMem: map[string]AV{}, refine: map[string]AV{}}
}

func (s *State) clone() *State {
	n := &State{nextID: s.nextID, epoch: s.epoch, Truncated: s.Truncated, depth: s.depth}
	n.frames = make([]*frame, len(s.frames))
	for i, f := range s.frames {
		nf := &frame{fn: f.fn, env: make(map[ssa.Value]AV, len(f.env)), visits: make(map[*ssa.BasicBlock]int, len(f.visits))}
		for k, v := range f.env {
			nf.env[k] = v
		}
		for k, v := range f.visits {
			nf.visits[k] = v
		}
		n.frames[i] = nf
	}
	n.heap = make(map[int]*Obj, len(s.heap))
	for k, v := range s.heap {
		n.heap[k] = v.clone()
	}
	n.symMem = make(map[string]AV, len(s.symMem))
	for k, v := range s.symMem {
		n.symMem[k] = v
	}
	n.refine = make(map[string]AV, len(s.refine))
	for k, v := range s.refine {
		n.refine[k] = v
	}
	n.Events = append([]Event(nil), s.Events...)
	n.Labels = append([]string(nil), s.Labels...)
	n.Conds = append([]Cond(nil), s.Conds...)
	return n
}

func (s *State) top() *frame { return s.frames[len(s.frames)-1] }

func (s *State) alloc(o *Obj) Ref {
	s.nextID++
	s.heap[s.nextID] = o
	return Ref{s.nextID}
}

func (s *State) Obj(r AV) *Obj {
	if rr, ok := r.(Ref); ok {
		return s.heap[rr.ID]
	}
	return nil
}

func (s *State) stackString() string {
	var xs []string
	for _, f := range s.frames {
		xs = append(xs, relName(f.fn))
	}
	return strings.Join(xs, " > ")
}

// ------------------------------------------------------------------ interpreter

type Answer struct {
	Ret   []AV
	Label string
	// Invoke: closures to apply synchronously (in order) before the call returns
	Invoke []Invocation
	// NoEvent: do not record the call as an event
	NoEvent bool
	Panic   bool
	// Do: an effect of the callee on the abstract heap of this answer's state (run before Invoke)
	Do func(st *State)
}

type Invocation struct {
	Fn   AV
	Args []AV
}

type CallCtx struct {
	St     *State
	Fn     *ssa.Function // static callee / closure function, if known
	Callee AV            // value called (dynamic calls)
	Method string        // interface method (invoke mode)
	Recv   AV
	Args   []AV
	Instr  ssa.CallInstruction
}

type Interp struct {
	// LazyFields: configured values computed on demand (after Fields)
	LazyFields func(key string) (AV, bool)
	// EmptyMaps: symbolic map-valued locations (by key) that hold an empty map when first read
	EmptyMaps func(key string) bool
	W         *World
	// Fields: abstract contents of symbolic locations, keyed "name.field"
	Fields map[string]AV
	// OnCall may return enumerated answers for a call (oracle); nil = default handling.
	OnCall func(c *CallCtx) []Answer
	// Inline decides whether a function with a body is inlined.
	Inline func(fn *ssa.Function) bool
	// Watch: record loads of symbolic locations as events
	WatchLoads bool
	// OpaqueArgs: un-inlined callees that may mutate the heap objects passed to them
	OpaqueArgs func(fn *ssa.Function) bool
	// OpaqueType restricts which objects are forgotten (nil = all)
	OpaqueType func(t types.Type) bool
	// NNField: struct fields that are never nil by construction (invariant of the analysed package)
	NNField func(structType types.Type, field string) bool
	// SnapClosures: record, at call events, what the captured variables of closure arguments hold (Event.Bound)
	SnapClosures bool
	// HavocKeep: symbolic locations an opaque call is assumed not to modify (frame condition)
	HavocKeep func(key string) bool
	MaxDepth  int // max inlining depth
	MaxVisits int // per-activation block visit bound (loop unrolling)
	MaxRecur  int // max simultaneous activations of one function
	MaxPaths  int
	Paths     int
	Steps     int
	budgetHit bool
	basePaths int // Paths/Steps at the start of the current top-level Run/Apply (budgets are per exploration)
	baseSteps int
}

type Outcome struct {
	St       *State
	Ret      []AV
	Panicked bool
}

type kont func(st *State, ret []AV, panicked bool)

func (in *Interp) defaults() {
	if in.MaxDepth == 0 {
		in.MaxDepth = 6
	}
	if in.MaxVisits == 0 {
		in.MaxVisits = 3
	}
	if in.MaxRecur == 0 {
		in.MaxRecur = 3
	}
	if in.MaxPaths == 0 {
		in.MaxPaths = 50000
	}
}

// Run explores fn applied to args starting from st (nil = fresh state).
func (in *Interp) Run(st *State, fn *ssa.Function, args []AV, free []AV) []Outcome {
	in.defaults()
	in.basePaths, in.baseSteps = in.Paths, in.Steps
	if st == nil {
		st = newState()
	}
	var out []Outcome
	in.callFn(st, fn, args, free, func(s *State, ret []AV, p bool) {
		in.Paths++
		out = append(out, Outcome{St: s, Ret: ret, Panicked: p})
	})
	if in.budgetHit {
		undecided("path budget exceeded while analysing %s", relName(fn))
	}
	return out
}

// Apply continues from st by applying a function value.
func (in *Interp) Apply(st *State, f AV, args []AV) []Outcome {
	in.defaults()
	in.basePaths, in.baseSteps = in.Paths, in.Steps
	var out []Outcome
	st = st.clone()
	in.applyValue(st, f, args, nil, func(s *State, ret []AV, p bool) {
		in.Paths++
		out = append(out, Outcome{St: s, Ret: ret, Panicked: p})
	})
	if in.budgetHit {
		undecided("path budget exceeded")
	}
	return out
}

func bodyOf(fn *ssa.Function) *ssa.Function {
	if fn == nil {
		return nil
	}
	if len(fn.Blocks) == 0 && fn.Origin() != nil && len(fn.Origin().Blocks) > 0 {
		return fn.Origin()
	}
	return fn
}

func (in *Interp) callFn(st *State, fn *ssa.Function, args, free []AV, k kont) {
	fn = bodyOf(fn)
	if len(fn.Blocks) == 0 {
		undecided("function %s has no body", relName(fn))
	}
	fr := &frame{fn: fn, env: map[ssa.Value]AV{}, visits: map[*ssa.BasicBlock]int{}}
	for i, p := range fn.Params {
		if i < len(args) && args[i] != nil {
			fr.env[p] = args[i]
		} else {
			fr.env[p] = Sym{Name: p.Name(), T: p.Type()}
		}
	}
	for i, f := range fn.FreeVars {
		if i < len(free) && free[i] != nil {
			fr.env[f] = free[i]
		} else {
			fr.env[f] = Sym{Name: "free:" + f.Name(), T: f.Type()}
		}
	}
	st.frames = append(st.frames, fr)
	depth := len(st.frames)
	in.block(st, fn.Blocks[0], nil, func(s *State, ret []AV, p bool) {
		s.frames = s.frames[:depth-1]
		k(s, ret, p)
	})
}

func (in *Interp) block(st *State, b, pred *ssa.BasicBlock, k kont) {
	fr := st.top()
	if fr.visits[b] >= in.MaxVisits {
		st.Truncated = true
		st.Events = append(st.Events, Event{Kind: "cut", Note: "loop bound in " + relName(fr.fn), Stack: st.stackString()})
		k(st, nil, false)
		return
	}
	fr.visits[b]++
	in.instrs(st, b, pred, 0, k)
}

func (in *Interp) val(st *State, v ssa.Value) AV {
	switch v := v.(type) {
	case *ssa.Const:
		if v.Value == nil {
			if v.IsNil() && !isTypeParam(v.Type()) {
				return Nil{}
			}
			return Zero{v.Type()}
		}
		return Const{v.Value}
	case *ssa.Function:
		return Closure{Fn: v}
	case *ssa.Global:
		return Sym{Name: "global:" + v.Name(), T: v.Type()}
	case *ssa.Builtin:
		return Sym{Name: "builtin:" + v.Name()}
	}
	if a, ok := st.top().env[v]; ok {
		return in.refined(st, a)
	}
	return Top{"unbound " + v.Name()}
}

func isTypeParam(t types.Type) bool {
	_, ok := t.(*types.TypeParam)
	return ok
}

func (in *Interp) refined(st *State, a AV) AV {
	if s, ok := a.(Sym); ok {
		if r, ok := st.refine[s.Name]; ok {
			return r
		}
	}
	return a
}

func (in *Interp) set(st *State, v ssa.Value, a AV) { st.top().env[v] = a }

func (in *Interp) binop(op token.Token, x, y AV, t types.Type) AV {
	cx, okx := constOf(x)
	cy, oky := constOf(y)
	if okx && oky {
		switch op {
		case token.EQL, token.NEQ, token.LSS, token.LEQ, token.GTR, token.GEQ:
			if cx.Kind() == cy.Kind() || (cx.Kind() != constant.Bool && cy.Kind() != constant.Bool && cx.Kind() != constant.String && cy.Kind() != constant.String) {
				return mkBool(constant.Compare(cx, op, cy))
			}
		case token.ADD, token.SUB, token.MUL, token.AND, token.OR, token.XOR, token.AND_NOT:
			if cx.Kind() == cy.Kind() && cx.Kind() != constant.Bool {
				return Const{constant.BinaryOp(cx, op, cy)}
			}
		case token.SHL, token.SHR:
			if cx.Kind() == constant.Int && cy.Kind() == constant.Int {
				if n, ok := constant.Uint64Val(cy); ok && n < 64 {
					return Const{constant.Shift(cx, op, uint(n))}
				}
			}
		case token.QUO, token.REM:
			if cx.Kind() == constant.Int && cy.Kind() == constant.Int && constant.Sign(cy) != 0 {
				if op == token.QUO {
					return Const{constant.BinaryOp(cx, token.QUO_ASSIGN, cy)}
				}
				return Const{constant.BinaryOp(cx, token.REM, cy)}
			}
		}
	}
	// linear arithmetic over one symbolic base: (b + c1) + c2 = b + (c1+c2)
	if op == token.ADD || op == token.SUB {
		if bx, ox, ok := linear(x); ok {
			if cy2, ok := asInt(y); ok {
				if op == token.SUB {
					cy2 = -cy2
				}
				return mkLinear(bx, ox+cy2)
			}
		}
		if by, oy, ok := linear(y); ok && op == token.ADD {
			if cx2, ok := asInt(x); ok {
				return mkLinear(by, oy+cx2)
			}
		}
	}
	if op == token.EQL || op == token.NEQ || op == token.LSS || op == token.LEQ || op == token.GTR || op == token.GEQ {
		bx, ox, okx2 := linear(x)
		by, oy, oky2 := linear(y)
		if okx2 && oky2 && bx.String() == by.String() {
			return mkBool(constant.Compare(constant.MakeInt64(ox), op, constant.MakeInt64(oy)))
		}
	}
	if op == token.EQL || op == token.NEQ {
		// a string known to be non-empty against ""
		for _, pr := range [][2]AV{{x, y}, {y, x}} {
			if sy, ok := pr[0].(Sym); ok && sy.NN && sy.T != nil {
				if bt, isB := sy.T.Underlying().(*types.Basic); isB && bt.Info()&types.IsString != 0 {
					if str, isStr := asString(pr[1]); isStr && str == "" {
						return mkBool(op == token.NEQ)
					}
				}
			}
		}
		xn, xk := nilness(x)
		yn, yk := nilness(y)
		if xk && yk && (xn || yn) {
			eq := xn && yn
			return mkBool(eq == (op == token.EQL))
		}
		// identity of references / same symbol
		if eq, known := sameValue(x, y); known {
			return mkBool(eq == (op == token.EQL))
		}
	}
	return Expr{Op: op.String(), Args: []AV{x, y}}
}

// linear decomposes v as base + offset for a symbolic (non-constant) integer base.
func linear(v AV) (base AV, off int64, ok bool) {
	switch e := v.(type) {
	case Sym:
		return e, 0, true
	case Expr:
		if e.Op == "+" && len(e.Args) == 2 {
			if c, isC := asInt(e.Args[1]); isC {
				if b, o, ok := linear(e.Args[0]); ok {
					return b, o + c, true
				}
			}
			if c, isC := asInt(e.Args[0]); isC {
				if b, o, ok := linear(e.Args[1]); ok {
					return b, o + c, true
				}
			}
		}
		if e.Op == "len" || e.Op == "load" || strings.HasPrefix(e.Op, "recv") {
			return e, 0, true
		}
	}
	return nil, 0, false
}

func mkLinear(base AV, off int64) AV {
	if off == 0 {
		return base
	}
	return Expr{Op: "+", Args: []AV{base, mkInt(off)}}
}

func constOf(a AV) (constant.Value, bool) {
	switch c := a.(type) {
	case Const:
		return c.V, true
	case Zero:
		if c.T != nil {
			// the zero value of a type parameter constrained to integer (or string) types is 0 (or "")
			if tp, isTP := c.T.(*types.TypeParam); isTP {
				if allTermsInteger(tp) {
					return constant.MakeInt64(0), true
				}
				if core := coreOfTypeParam(tp); core != nil {
					if b, ok := core.(*types.Basic); ok && b.Info()&types.IsString != 0 {
						return constant.MakeString(""), true
					}
				}
			}
			if b, ok := c.T.Underlying().(*types.Basic); ok {
				switch {
				case b.Info()&types.IsBoolean != 0:
					return constant.MakeBool(false), true
				case b.Info()&types.IsInteger != 0:
					return constant.MakeInt64(0), true
				case b.Info()&types.IsString != 0:
					return constant.MakeString(""), true
				}
			}
		}
	}
	return nil, false
}

func sameValue(x, y AV) (eq, known bool) {
	if d, ok := x.(Dyn); ok {
		if _, isD := y.(Dyn); !isD {
			x = d.V
		}
	} else if d, ok := y.(Dyn); ok {
		y = d.V
	}
	switch a := x.(type) {
	case Const:
		if b, ok := y.(Const); ok {
			return constant.Compare(a.V, token.EQL, b.V), true
		}
	case Ref:
		if b, ok := y.(Ref); ok {
			return a.ID == b.ID, true
		}
		if _, ok := y.(Sym); ok {
			return false, true // a fresh allocation never equals a pre-existing value
		}
	case Sym:
		if b, ok := y.(Sym); ok && a.Name == b.Name {
			return true, true
		}
		if b, ok := y.(Sym); ok && a.Uniq && b.Uniq {
			return false, true
		}
		if _, ok := y.(Ref); ok {
			return false, true
		}
	case Dyn:
		if b, ok := y.(Dyn); ok {
			if !types.Identical(a.T, b.T) {
				return false, true
			}
			return sameValue(a.V, b.V)
		}
	}
	return false, false
}

func fieldName(t types.Type, idx int) string {
	if p, ok := t.Underlying().(*types.Pointer); ok {
		t = p.Elem()
	}
	st, ok := t.Underlying().(*types.Struct)
	if !ok {
		return fmt.Sprintf("#%d", idx)
	}
	return st.Field(idx).Name()
}

// locKey gives the symbolic-memory key of an address, "" if none.
func locKey(addr AV) string {
	switch a := addr.(type) {
	case FieldRef:
		switch b := a.Base.(type) {
		case Sym:
			return b.Name + "." + a.Field
		case FieldRef:
			if k := locKey(b); k != "" {
				return k + "." + a.Field
			}
		case ElemRef:
			// a field of an element of a package-level table
			if k := locKey(b); strings.HasPrefix(k, "global:") {
				return k + "." + a.Field
			}
		case Dyn:
			if s, ok := b.V.(Sym); ok {
				return s.Name + "." + a.Field
			}
		}
	case Sym:
		return "*" + a.Name
	case ElemRef:
		if s, ok := a.Base.(Sym); ok {
			return s.Name + "[" + a.Idx.String() + "]"
		}
		// an element of an array that is itself a field / element of a package-level variable
		if _, isConst := a.Idx.(Const); isConst {
			switch b := a.Base.(type) {
			case FieldRef, ElemRef:
				if k := locKey(b); strings.HasPrefix(k, "global:") {
					return k + "[" + a.Idx.String() + "]"
				}
			}
		}
	}
	return ""
}

func (in *Interp) load(st *State, addr AV, t types.Type, pos token.Pos) AV {
	switch a := addr.(type) {
	case CellV:
		return a.V
	case Ref:
		o := st.heap[a.ID]
		if o == nil {
			return Top{"dangling"}
		}
		switch o.Kind {
		case 'c':
			if o.Val == nil {
				return Zero{t}
			}
			return o.Val
		case 's':
			f := make(map[string]AV, len(o.Fields))
			for k, v := range o.Fields {
				f[k] = v
			}
			return StructV{T: o.T, Fields: f}
		case 'a':
			return SliceV{Elems: append([]AV(nil), o.Elems...)}
		}
	case FieldRef:
		if r, ok := a.Base.(Ref); ok {
			if o := st.heap[r.ID]; o != nil && o.Kind == 's' {
				if v, ok := o.Fields[a.Field]; ok {
					return v
				}
				if o.Opaque != "" {
					return in.refined(st, Sym{Name: o.Opaque + "." + a.Field, T: t})
				}
				return Zero{t}
			}
		}
		if fr, ok := a.Base.(FieldRef); ok {
			// nested struct field inside a heap struct: base field holds a StructV
			if r, ok := fr.Base.(Ref); ok {
				if o := st.heap[r.ID]; o != nil && o.Kind == 's' {
					if sv, ok := o.Fields[fr.Field].(StructV); ok {
						if v, ok := sv.Fields[a.Field]; ok {
							return v
						}
					}
					return Zero{t}
				}
			}
		}
	case ElemRef:
		// a byte of a constant string
		if str, isStr := asString(a.Base); isStr {
			if i, ok := asInt(a.Idx); ok && i >= 0 && int(i) < len(str) {
				return mkInt(int64(str[i]))
			}
		}
		if r, ok := a.Base.(Ref); ok {
			if o := st.heap[r.ID]; o != nil && o.Kind == 'a' {
				if i, ok := asInt(a.Idx); ok && int(i) < len(o.Elems) && i >= 0 {
					return o.Elems[i]
				}
				return Top{"array index"}
			}
		}
		if sv, ok := a.Base.(SliceV); ok {
			if i, ok := asInt(a.Idx); ok && i >= 0 && int(i) < len(sv.Elems) {
				if _, isSpread := sv.Elems[i].(Spread); !isSpread {
					noSpread := true
					for j := 0; j <= int(i); j++ {
						if _, sp := sv.Elems[j].(Spread); sp {
							noSpread = false
						}
					}
					if noSpread {
						return sv.Elems[i]
					}
				}
			}
			return Expr{Op: "index", Args: []AV{sv, a.Idx}}
		}
	}
	key := locKey(addr)
	if key != "" {
		if v, ok := st.symMem[key]; ok {
			return v
		}
		if v, ok := in.Fields[key]; ok {
			return in.refined(st, v)
		}
		if in.LazyFields != nil {
			if v, ok := in.LazyFields(epochRe.ReplaceAllString(key, "")); ok {
				return in.refined(st, v)
			}
		}
		// configured fields are facts about the input, not memory the callees may have changed
		if strings.Contains(key, "@") {
			if v, ok := in.Fields[epochRe.ReplaceAllString(key, "")]; ok {
				return in.refined(st, v)
			}
		}
		// a map-valued field the analysis is told to be empty at the start (the caller re-initialises it before:
		// that obligation is decided elsewhere)
		if in.EmptyMaps != nil && t != nil {
			if _, isMap := t.Underlying().(*types.Map); isMap && in.EmptyMaps(epochRe.ReplaceAllString(key, "")) {
				ref := st.alloc(&Obj{T: t, Kind: 'm', Site: "emptymap:" + key, Val: NonNil{"map"}})
				st.symMem[key] = ref
				return ref
			}
		}
		// a package-level table: what its initialiser stored, if nothing else ever writes the variable
		if strings.Contains(key, "global:") {
			if v, ok := in.W.globalFact(epochRe.ReplaceAllString(key, ""), t); ok {
				return v
			}
		}
		// a configured field that has moved into (or out of) an embedded struct: r.x.f is given, r.x.ctx.f is
		// read (or the other way round) — same root, same field name, one path a subsequence of the other
		if v, ok := in.fieldByShape(key); ok {
			return in.refined(st, v)
		}
		name := key
		if st.epoch > 0 && !strings.HasPrefix(key, "imm:") && !(in.HavocKeep != nil && in.HavocKeep(key)) {
			name = fmt.Sprintf("%s@%d", key, st.epoch)
		}
		if in.WatchLoads {
			st.Events = append(st.Events, Event{Kind: "load", Target: key, Pos: pos, Stack: st.stackString()})
		}
		return in.refined(st, Sym{Name: name, T: t})
	}
	return Expr{Op: "load", Args: []AV{addr}}
}

func (in *Interp) store(st *State, addr, v AV, pos token.Pos) {
	switch a := addr.(type) {
	case Ref:
		if o := st.heap[a.ID]; o != nil {
			switch o.Kind {
			case 'c':
				o.Val = v
			case 's':
				switch sv := v.(type) {
				case StructV:
					o.Fields = map[string]AV{}
					for k, x := range sv.Fields {
						o.Fields[k] = x
					}
				case Zero:
					// `x = T{f: v}` on an existing variable is compiled to a clearing store followed by field stores
					o.Fields = map[string]AV{}
					o.Opaque = ""
				case Sym:
					// an unknown struct value: its fields are the symbol's fields
					o.Fields = map[string]AV{}
					o.Opaque = sv.Name
				default:
					// a struct value the model has no fields for: what the object holds is unknown from now on
					o.Fields = map[string]AV{}
					o.Opaque = "unknown(" + v.String() + ")"
				}
			case 'a':
				switch sv := v.(type) {
				case SliceV:
					o.Elems = append([]AV(nil), sv.Elems...)
				case Zero:
					if at, ok := o.T.Underlying().(*types.Array); ok {
						for i := range o.Elems {
							o.Elems[i] = Zero{at.Elem()}
						}
					}
				default:
					for i := range o.Elems {
						o.Elems[i] = Top{"imprecise store"}
					}
				}
			}
			return
		}
	case FieldRef:
		// a slice built by make([]T, n) and filled by index is, once it is put into a field (the List of an
		// AST node, ...), read as the list of its elements; later element stores through the old slice are
		// not reflected (construction code finishes a slice before publishing it)
		if vr, ok := v.(Ref); ok {
			if vo := st.heap[vr.ID]; vo != nil && vo.Kind == 'a' && vo.Site == "makeslice" {
				v = SliceV{Elems: append([]AV(nil), vo.Elems...)}
			}
		}
		if r, ok := a.Base.(Ref); ok {
			if o := st.heap[r.ID]; o != nil && o.Kind == 's' {
				o.Fields[a.Field] = v
				return
			}
		}
		// a field of a struct element of an array / slice under construction: &arr[i].f
		if er, ok := a.Base.(ElemRef); ok {
			if r, ok := er.Base.(Ref); ok {
				if o := st.heap[r.ID]; o != nil && o.Kind == 'a' {
					if i, ok := asInt(er.Idx); ok && i >= 0 && int(i) < len(o.Elems) {
						sv, _ := o.Elems[i].(StructV)
						nf := map[string]AV{}
						for k, x := range sv.Fields {
							nf[k] = x
						}
						nf[a.Field] = v
						o.Elems[i] = StructV{T: sv.T, Fields: nf}
						return
					}
				}
			}
		}
		if fr, ok := a.Base.(FieldRef); ok {
			if r, ok := fr.Base.(Ref); ok {
				if o := st.heap[r.ID]; o != nil && o.Kind == 's' {
					sv, _ := o.Fields[fr.Field].(StructV)
					nf := map[string]AV{}
					for k, x := range sv.Fields {
						nf[k] = x
					}
					nf[a.Field] = v
					o.Fields[fr.Field] = StructV{T: sv.T, Fields: nf}
					return
				}
			}
		}
	case ElemRef:
		if r, ok := a.Base.(Ref); ok {
			if o := st.heap[r.ID]; o != nil && o.Kind == 'a' {
				if i, ok := asInt(a.Idx); ok && i >= 0 && int(i) < len(o.Elems) {
					o.Elems[i] = v
					return
				}
			}
		}
		// an element of a slice value held by a variable: the variable now holds the updated slice. At a position
		// that is not known the slice holds its former elements and v in an unknown arrangement (one of the
		// former elements may be gone).
		if sv, ok := a.Base.(SliceV); ok && a.Origin != nil {
			elems := append([]AV(nil), sv.Elems...)
			known := false
			if i, ok := asInt(a.Idx); ok && i >= 0 && int(i) < len(elems) {
				known = true
				for _, e := range elems[:i+1] {
					if _, sp := e.(Spread); sp {
						known = false
					}
				}
				if known {
					elems[i] = v
				}
			}
			if !known {
				elems = []AV{Spread{V: Expr{Op: "mix", Args: append(elems, v)}}}
			}
			st.Events = append(st.Events, Event{Kind: "store", Target: addr.String(), Args: []AV{v}, Pos: pos, Stack: st.stackString()})
			in.store(st, a.Origin, SliceV{Elems: elems}, pos)
			return
		}
	}
	// a store into a heap object through an address shape that is not modelled: what the object holds there is
	// unknown from now on (never the stale value)
	if root, ok := rootRefOf(addr); ok {
		if o := st.heap[root.ID]; o != nil {
			for i := range o.Elems {
				o.Elems[i] = Top{"imprecise store"}
			}
			for k := range o.Fields {
				o.Fields[k] = Top{"imprecise store"}
			}
			if o.Kind == 'c' {
				o.Val = Top{"imprecise store"}
			}
		}
	}
	key := locKey(addr)
	if key == "" {
		key = addr.String()
	} else {
		st.symMem[key] = v
	}
	st.Events = append(st.Events, Event{Kind: "store", Target: key, Args: []AV{v}, Pos: pos, Stack: st.stackString()})
}

// rootRefOf: the heap object an address expression points into.
func rootRefOf(addr AV) (Ref, bool) {
	for depth := 0; depth < 8; depth++ {
		switch a := addr.(type) {
		case Ref:
			return a, true
		case FieldRef:
			addr = a.Base
		case ElemRef:
			addr = a.Base
		default:
			return Ref{}, false
		}
	}
	return Ref{}, false
}

func (in *Interp) instrs(st *State, b, pred *ssa.BasicBlock, idx int, k kont) {
	if in.Paths-in.basePaths > in.MaxPaths || in.Steps-in.baseSteps > 40*in.MaxPaths*10 {
		if !in.budgetHit && os.Getenv("GOCO_DEBUG") != "" {
			fmt.Fprintf(os.Stderr, "budget: paths=%d max=%d steps=%d in %s block %d stack %s labels %v\n", in.Paths, in.MaxPaths, in.Steps, relName(b.Parent()), b.Index, st.stackString(), st.Labels)
		}
		in.budgetHit = true
		return
	}
	// phis are evaluated simultaneously
	if idx == 0 {
		var phiVals []AV
		var phis []*ssa.Phi
		for _, ins := range b.Instrs {
			ph, ok := ins.(*ssa.Phi)
			if !ok {
				break
			}
			phis = append(phis, ph)
			var v AV = Top{"phi"}
			for pi, p := range b.Preds {
				if p == pred {
					v = in.val(st, ph.Edges[pi])
				}
			}
			phiVals = append(phiVals, v)
		}
		for i, ph := range phis {
			in.set(st, ph, phiVals[i])
		}
		idx = len(phis)
	}
	for i := idx; i < len(b.Instrs); i++ {
		in.Steps++
		switch ins := b.Instrs[i].(type) {
		case *ssa.DebugRef:
		case *ssa.Alloc:
			elem := ins.Type().Underlying().(*types.Pointer).Elem()
			o := &Obj{T: elem, Site: ins.Comment}
			switch u := elem.Underlying().(type) {
			case *types.Struct:
				o.Kind = 's'
				o.Fields = map[string]AV{}
			case *types.Array:
				o.Kind = 'a'
				for j := int64(0); j < u.Len(); j++ {
					o.Elems = append(o.Elems, Zero{u.Elem()})
				}
			default:
				o.Kind = 'c'
				o.Val = Zero{elem}
			}
			in.set(st, ins, st.alloc(o))
		case *ssa.Store:
			in.store(st, in.val(st, ins.Addr), in.val(st, ins.Val), ins.Pos())
		case *ssa.UnOp:
			x := in.val(st, ins.X)
			switch ins.Op {
			case token.MUL:
				// a load through a field / element of a definitely nil pointer: nil dereference
				if fr, isF := x.(FieldRef); isF {
					if _, isNil := fr.Base.(Nil); isNil {
						st.Events = append(st.Events, Event{Kind: "panic", Note: "nil pointer dereference (." + fr.Field + ")", Pos: ins.Pos(), Stack: st.stackString()})
						k(st, nil, true)
						return
					}
				}
				v := in.load(st, x, ins.Type(), ins.Pos())
				if sy, ok := v.(Sym); ok && !sy.NN && in.NNField != nil {
					if fa, ok := ins.X.(*ssa.FieldAddr); ok && in.NNField(fa.X.Type(), fieldName(fa.X.Type(), fa.Field)) {
						sy.NN = true
						v = sy
					}
				}
				in.set(st, ins, v)
			case token.NOT:
				if bv, ok := asBool(x); ok {
					in.set(st, ins, mkBool(!bv))
				} else {
					in.set(st, ins, Expr{Op: "!", Args: []AV{x}})
				}
			case token.SUB:
				if c, ok := constOf(x); ok && c.Kind() == constant.Int {
					in.set(st, ins, Const{constant.UnaryOp(token.SUB, c, 0)})
				} else {
					in.set(st, ins, Expr{Op: "neg", Args: []AV{x}})
				}
			case token.ARROW:
				st.Events = append(st.Events, Event{Kind: "recv", Args: []AV{x}, Pos: ins.Pos(), Stack: st.stackString()})
				st.epoch++
				r := Sym{Name: fmt.Sprintf("recv#%d", len(st.Events)), T: ins.Type()}
				if ins.CommaOk {
					in.set(st, ins, Tuple{[]AV{Expr{Op: "recv.val", Args: []AV{x, r}}, Expr{Op: "recv.ok", Args: []AV{x, r}}}})
				} else {
					in.set(st, ins, Expr{Op: "recv.val", Args: []AV{x, r}})
				}
			default:
				in.set(st, ins, Expr{Op: ins.Op.String(), Args: []AV{x}})
			}
		case *ssa.FieldAddr:
			x := in.val(st, ins.X)
			in.set(st, ins, FieldRef{Base: x, Field: fieldName(ins.X.Type(), ins.Field)})
		case *ssa.Field:
			x := in.val(st, ins.X)
			name := fieldName(ins.X.Type(), ins.Field)
			switch sv := x.(type) {
			case StructV:
				if v, ok := sv.Fields[name]; ok {
					in.set(st, ins, v)
				} else {
					in.set(st, ins, Zero{ins.Type()})
				}
			case Sym:
				in.set(st, ins, in.refined(st, Sym{Name: sv.Name + "." + name, T: ins.Type()}))
			case Zero: // a field of the zero struct value
				in.set(st, ins, Zero{ins.Type()})
			default:
				in.set(st, ins, Expr{Op: "field." + name, Args: []AV{x}})
			}
		case *ssa.IndexAddr:
			er := ElemRef{Base: in.val(st, ins.X), Idx: in.val(st, ins.Index)}
			if ld, ok := ins.X.(*ssa.UnOp); ok && ld.Op == token.MUL {
				if _, isSlice := er.Base.(SliceV); isSlice {
					er.Origin = in.val(st, ld.X)
				}
			}
			in.set(st, ins, er)
		case *ssa.Index:
			x := in.val(st, ins.X)
			in.set(st, ins, in.load(st, ElemRef{Base: x, Idx: in.val(st, ins.Index)}, ins.Type(), ins.Pos()))
		case *ssa.Lookup:
			x := in.val(st, ins.X)
			key := in.val(st, ins.Index)
			// a byte of a constant string
			if str, isStr := asString(x); isStr && !ins.CommaOk {
				if i, ok := asInt(key); ok {
					if i >= 0 && int(i) < len(str) {
						in.set(st, ins, mkInt(int64(str[i])))
					} else {
						st.Events = append(st.Events, Event{Kind: "panic", Note: "index out of range", Pos: ins.Pos(), Stack: st.stackString()})
						k(st, nil, true)
						return
					}
					continue
				}
			}
			if mv, ok := x.(MapV); ok {
				kk := key
				if d, isD := kk.(Dyn); isD {
					kk = d.V
				}
				val, found := mv.M[kk.String()]
				if !found {
					val = Zero{ins.Type()}
					if ins.CommaOk {
						val = Zero{ins.Type().(*types.Tuple).At(0).Type()}
					}
				}
				if ins.CommaOk {
					in.set(st, ins, Tuple{[]AV{val, mkBool(found)}})
				} else {
					in.set(st, ins, val)
				}
				break
			}
			// a map allocated on this path (MakeMap) whose contents are fully known
			if mo := st.Obj(x); mo != nil && mo.Kind == 'm' && mo.Opaque == "" {
				var hit AV
				found, uncertain := false, false
				for i, k := range mo.Elems {
					eq, known := sameValue(key, k)
					if !known {
						uncertain = true
					} else if eq {
						hit, found = mo.Fields[fmt.Sprint(i)], true
					}
				}
				if found || !uncertain {
					vt := ins.Type()
					if ins.CommaOk {
						vt = ins.Type().(*types.Tuple).At(0).Type()
					}
					if !found {
						hit = Zero{vt}
						if b, ok := vt.Underlying().(*types.Basic); ok && b.Info()&types.IsBoolean != 0 {
							hit = mkBool(false)
						}
					}
					if ins.CommaOk {
						in.set(st, ins, Tuple{[]AV{hit, mkBool(found)}})
					} else {
						in.set(st, ins, hit)
					}
					break
				}
			}
			// a symbolic map (field of a symbolic receiver): an entry written earlier on this path under a
			// definitely equal key is found again
			if ms, isSym := x.(Sym); isSym {
				if hit, ok := st.symMem["map:"+ms.Name+"["+key.String()+"]"]; ok {
					if ins.CommaOk {
						in.set(st, ins, Tuple{[]AV{hit, mkBool(true)}})
					} else {
						in.set(st, ins, hit)
					}
					break
				}
			}
			v := AV(Expr{Op: "lookup", Args: []AV{x, key}})
			if ins.CommaOk {
				in.set(st, ins, Tuple{[]AV{v, Expr{Op: "lookup.ok", Args: []AV{x, key}}}})
			} else {
				in.set(st, ins, v)
			}
		case *ssa.MapUpdate:
			if mo := st.Obj(in.val(st, ins.Map)); mo != nil && mo.Kind == 'm' && mo.Opaque == "" {
				key, val := in.val(st, ins.Key), in.val(st, ins.Value)
				done := false
				for i, k := range mo.Elems {
					eq, known := sameValue(key, k)
					if !known {
						mo.Opaque = "map with keys of unknown equality" // an older entry may have been overwritten
					} else if eq {
						mo.Fields[fmt.Sprint(i)] = val
						done = true
					}
				}
				if !done {
					if mo.Fields == nil {
						mo.Fields = map[string]AV{}
					}
					mo.Fields[fmt.Sprint(len(mo.Elems))] = val
					mo.Elems = append(mo.Elems, key)
				}
			}
			if ms, isSym := in.val(st, ins.Map).(Sym); isSym {
				st.symMem["map:"+ms.Name+"["+in.val(st, ins.Key).String()+"]"] = in.val(st, ins.Value)
			}
			st.Events = append(st.Events, Event{Kind: "mapupdate", Target: in.val(st, ins.Map).String(), Args: []AV{in.val(st, ins.Map), in.val(st, ins.Key), in.val(st, ins.Value)}, Pos: ins.Pos(), Stack: st.stackString()})
		case *ssa.BinOp:
			in.set(st, ins, in.binop(ins.Op, in.val(st, ins.X), in.val(st, ins.Y), ins.Type()))
		case *ssa.MakeClosure:
			var bs []AV
			for _, bv := range ins.Bindings {
				bs = append(bs, in.val(st, bv))
			}
			in.set(st, ins, Closure{Fn: ins.Fn.(*ssa.Function), Bind: bs})
		case *ssa.MakeInterface:
			x := in.val(st, ins.X)
			in.set(st, ins, Dyn{T: ins.X.Type(), V: x})
		case *ssa.ChangeType:
			in.set(st, ins, in.val(st, ins.X))
		case *ssa.ChangeInterface:
			in.set(st, ins, in.val(st, ins.X))
		case *ssa.Convert:
			x := in.val(st, ins.X)
			if c, ok := x.(Const); ok {
				in.set(st, ins, c)
			} else {
				in.set(st, ins, Expr{Op: "convert:" + types.TypeString(ins.Type(), shortQ), Args: []AV{x}})
			}
		case *ssa.MultiConvert:
			in.set(st, ins, Expr{Op: "convert:" + types.TypeString(ins.Type(), shortQ), Args: []AV{in.val(st, ins.X)}})
		case *ssa.SliceToArrayPointer:
			in.set(st, ins, in.val(st, ins.X))
		case *ssa.Extract:
			if t, ok := in.val(st, ins.Tuple).(Tuple); ok && ins.Index < len(t.Vs) {
				in.set(st, ins, t.Vs[ins.Index])
			} else {
				in.set(st, ins, Expr{Op: fmt.Sprintf("extract#%d", ins.Index), Args: []AV{in.val(st, ins.Tuple)}})
			}
		case *ssa.MakeSlice:
			// make([]T, 0, n): an empty slice whose contents are then fully determined by the appends
			if n, ok := asInt(in.val(st, ins.Len)); ok && n == 0 {
				in.set(st, ins, SliceV{})
			} else if ok && n > 0 && n <= 256 {
				// make([]T, n): a backing array of n zero elements, updated in place by element stores
				var et types.Type
				if sl, isSl := ins.Type().Underlying().(*types.Slice); isSl {
					et = sl.Elem()
				}
				elems := make([]AV, n)
				for i := range elems {
					elems[i] = Zero{et}
				}
				in.set(st, ins, st.alloc(&Obj{T: ins.Type(), Kind: 'a', Elems: elems, Site: "makeslice"}))
			} else if c, S, ok := constPlusLen(in.val(st, ins.Len)); ok && c >= 0 && c <= 16 {
				// make([]T, c+len(S)): c zero elements and a run of len(S) zero elements ("hole"), which a
				// copy(dst[c:], S) fills with the elements of S
				var et types.Type
				if sl, isSl := ins.Type().Underlying().(*types.Slice); isSl {
					et = sl.Elem()
				}
				elems := make([]AV, 0, c+1)
				for i := int64(0); i < c; i++ {
					elems = append(elems, Zero{et})
				}
				elems = append(elems, Spread{V: Expr{Op: "zeros", Args: []AV{S}}})
				in.set(st, ins, st.alloc(&Obj{T: ins.Type(), Kind: 'a', Elems: elems, Site: "makeslice"}))
			} else {
				in.set(st, ins, NonNil{"makeslice"})
			}
		case *ssa.MakeMap:
			r := st.alloc(&Obj{T: ins.Type(), Kind: 'm', Site: "makemap", Val: NonNil{"map"}})
			in.set(st, ins, r)
		case *ssa.MakeChan:
			in.set(st, ins, NonNil{"chan"})
		case *ssa.Slice:
			x := in.val(st, ins.X)
			var lo, hi AV
			if ins.Low != nil {
				lo = in.val(st, ins.Low)
			}
			if ins.High != nil {
				hi = in.val(st, ins.High)
			}
			in.set(st, ins, in.slice(st, x, lo, hi))
		case *ssa.TypeAssert:
			if in.typeAssert(st, ins, b, pred, i, k) {
				return
			}
		case *ssa.Range:
			in.set(st, ins, Expr{Op: "range", Args: []AV{in.val(st, ins.X)}})
		case *ssa.Next:
			it := in.val(st, ins.Iter)
			in.set(st, ins, Tuple{[]AV{Expr{Op: "next.ok", Args: []AV{it, mkInt(int64(in.Steps))}}, Expr{Op: "next.key", Args: []AV{it}}, Expr{Op: "next.val", Args: []AV{it}}}})
		case *ssa.Send:
			st.Events = append(st.Events, Event{Kind: "send", Args: []AV{in.val(st, ins.Chan), in.val(st, ins.X)}, Pos: ins.Pos(), Stack: st.stackString()})
		case *ssa.Select:
			st.Events = append(st.Events, Event{Kind: "select", Pos: ins.Pos(), Stack: st.stackString()})
			in.set(st, ins, Top{"select"})
		case *ssa.Go:
			st.Events = append(st.Events, Event{Kind: "go", Callee: in.val(st, ins.Call.Value), Args: in.vals(st, ins.Call.Args), Pos: ins.Pos(), Stack: st.stackString()})
		case *ssa.Defer:
			st.Events = append(st.Events, Event{Kind: "defer", Callee: in.val(st, ins.Call.Value), Fn: ins.Call.StaticCallee(), Args: in.vals(st, ins.Call.Args), Pos: ins.Pos(), Stack: st.stackString()})
		case *ssa.RunDefers:
		case *ssa.Call:
			rest := i + 1
			in.doCall(st, ins, func(s *State, ret []AV, panicked bool) {
				if panicked {
					k(s, nil, true)
					return
				}
				switch len(ret) {
				case 0:
					in.set(s, ins, Top{"void"})
				case 1:
					in.set(s, ins, ret[0])
				default:
					in.set(s, ins, Tuple{ret})
				}
				in.instrs(s, b, pred, rest, k)
			})
			return
		case *ssa.If:
			c := in.val(st, ins.Cond)
			if bv, ok := asBool(c); ok {
				t := b.Succs[0]
				if !bv {
					t = b.Succs[1]
				}
				in.block(st, t, b, k)
				return
			}
			s2 := st.clone()
			in.assume(st, c, true, ins)
			in.block(st, b.Succs[0], b, k)
			in.assume(s2, c, false, ins)
			in.block(s2, b.Succs[1], b, k)
			return
		case *ssa.Jump:
			in.block(st, b.Succs[0], b, k)
			return
		case *ssa.Return:
			k(st, in.vals(st, ins.Results), false)
			return
		case *ssa.Panic:
			st.Events = append(st.Events, Event{Kind: "panic", Args: []AV{in.val(st, ins.X)}, Note: in.val(st, ins.X).String(), Pos: ins.Pos(), Stack: st.stackString()})
			k(st, nil, true)
			return
		default:
			if v, ok := ins.(ssa.Value); ok {
				in.set(st, v, Top{fmt.Sprintf("%T", ins)})
			}
		}
	}
}

func (in *Interp) vals(st *State, vs []ssa.Value) []AV {
	out := make([]AV, len(vs))
	for i, v := range vs {
		out[i] = in.val(st, v)
	}
	return out
}

// assume records a branch assumption and refines holes where possible.
func (in *Interp) assume(st *State, c AV, truth bool, ins *ssa.If) {
	st.Labels = append(st.Labels, fmt.Sprintf("%s=%v", c.String(), truth))
	st.Conds = append(st.Conds, Cond{c, truth})
	switch e := c.(type) {
	case Sym:
		st.refine[e.Name] = mkBool(truth)
	case Expr:
		switch e.Op {
		case "!":
			in.assumeVal(st, e.Args[0], !truth)
		case "==", "!=":
			eq := truth == (e.Op == "==")
			x, y := e.Args[0], e.Args[1]
			if _, ok := y.(Sym); ok {
				x, y = y, x
			}
			if s, ok := x.(Sym); ok {
				if n, known := nilness(y); known && n {
					if eq {
						st.refine[s.Name] = Nil{}
					} else {
						st.refine[s.Name] = Sym{Name: s.Name, T: s.T, NN: true}
					}
				} else if cst, ok := y.(Const); ok && eq {
					st.refine[s.Name] = cst
				}
			}
		}
	}
}

func (in *Interp) assumeVal(st *State, c AV, truth bool) {
	if s, ok := c.(Sym); ok {
		st.refine[s.Name] = mkBool(truth)
	}
}

// constPlusLen: n = c + len(S) (either order), S any value
func constPlusLen(n AV) (int64, AV, bool) {
	e, ok := n.(Expr)
	if !ok {
		return 0, nil, false
	}
	if e.Op == "len" && len(e.Args) == 1 {
		return 0, e.Args[0], true
	}
	if e.Op != "+" || len(e.Args) != 2 {
		return 0, nil, false
	}
	for i := 0; i < 2; i++ {
		if c, ok := asInt(e.Args[i]); ok {
			if le, ok := e.Args[1-i].(Expr); ok && le.Op == "len" && len(le.Args) == 1 {
				return c, le.Args[0], true
			}
		}
	}
	return 0, nil, false
}

func holeOf(e AV) (AV, bool) {
	if sp, ok := e.(Spread); ok {
		if z, ok := sp.V.(Expr); ok && z.Op == "zeros" && len(z.Args) == 1 {
			return z.Args[0], true
		}
	}
	return nil, false
}

func hasHole(o *Obj) bool {
	for _, e := range o.Elems {
		if _, ok := holeOf(e); ok {
			return true
		}
	}
	return false
}

// copySlice models copy(dst, src) where dst is (a view of) a slice under construction.
func (in *Interp) copySlice(st *State, dst, src AV) (AV, bool) {
	var o *Obj
	lo := 0
	switch d := dst.(type) {
	case Ref:
		o = st.heap[d.ID]
	case Expr:
		if d.Op == "view" && len(d.Args) == 2 {
			if r, ok := d.Args[0].(Ref); ok {
				o = st.heap[r.ID]
				if l, ok := asInt(d.Args[1]); ok {
					lo = int(l)
				}
			}
		}
	}
	if o == nil || o.Kind != 'a' || lo > len(o.Elems) {
		return nil, false
	}
	// the region is exactly one hole of len(src) elements: it now holds the elements of src
	if lo == len(o.Elems)-1 {
		if S, ok := holeOf(o.Elems[lo]); ok && S.String() == src.String() {
			o.Elems[lo] = Spread{V: src}
			return Expr{Op: "len", Args: []AV{src}}, true
		}
	}
	// concrete elements on both sides
	if sv, ok := src.(SliceV); ok && !hasHole(o) {
		for _, e := range sv.Elems {
			if _, sp := e.(Spread); sp {
				return nil, false
			}
		}
		n := 0
		for i := 0; i < len(sv.Elems) && lo+i < len(o.Elems); i++ {
			o.Elems[lo+i] = sv.Elems[i]
			n++
		}
		return mkInt(int64(n)), true
	}
	return nil, false
}

func (in *Interp) slice(st *State, x, lo, hi AV) AV {
	// constant string with constant bounds
	if str, ok := asString(x); ok {
		l, h := int64(0), int64(len(str))
		okl, okh := true, true
		if lo != nil {
			l, okl = asInt(lo)
		}
		if hi != nil {
			h, okh = asInt(hi)
		}
		if okl && okh && l >= 0 && l <= h && h <= int64(len(str)) {
			return mkString(str[l:h])
		}
	}
	if r, ok := x.(Ref); ok {
		if o := st.heap[r.ID]; o != nil && o.Kind == 'a' {
			if l, okl := asInt(lo); okl && hi == nil && hasHole(o) && l >= 0 && int(l) < len(o.Elems) {
				// dst[l:] of a slice under construction: a view (copy writes through it)
				return Expr{Op: "view", Args: []AV{r, mkInt(l)}}
			}
			x = SliceV{Elems: append([]AV(nil), o.Elems...)}
		}
	}
	if sv, ok := x.(SliceV); ok {
		hasSpread := false
		for _, e := range sv.Elems {
			if _, sp := e.(Spread); sp {
				hasSpread = true
			}
		}
		l, h := int64(0), int64(len(sv.Elems))
		okl, okh := true, true
		if lo != nil {
			l, okl = asInt(lo)
		}
		if hi != nil {
			h, okh = asInt(hi)
			if !okh {
				// len(x)-1 pattern
				if e, ok := hi.(Expr); ok && e.Op == "-" && len(e.Args) == 2 {
					if le, ok := e.Args[0].(Expr); ok && le.Op == "len" {
						if n, ok := asInt(e.Args[1]); ok && !hasSpread {
							h, okh = int64(len(sv.Elems))-n, true
						}
					}
				}
			}
		}
		if okl && okh && !hasSpread && l >= 0 && h <= int64(len(sv.Elems)) && l <= h {
			return SliceV{Elems: append([]AV(nil), sv.Elems[l:h]...)}
		}
	}
	args := []AV{x}
	if lo != nil {
		args = append(args, lo)
	} else {
		args = append(args, Nil{})
	}
	if hi != nil {
		args = append(args, hi)
	} else {
		args = append(args, Nil{})
	}
	return Expr{Op: "slice", Args: args}
}

// typeAssert handles x.(T); returns true if it took over control flow.
func (in *Interp) typeAssert(st *State, ins *ssa.TypeAssert, b, pred *ssa.BasicBlock, i int, k kont) bool {
	x := in.val(st, ins.X)
	var okv, val AV
	switch d := x.(type) {
	case Dyn:
		match := false
		if types.IsInterface(ins.AssertedType) && !isTypeParam(ins.AssertedType) {
			match = types.Implements(d.T, ins.AssertedType.Underlying().(*types.Interface))
			val = d
		} else {
			match = types.Identical(d.T, ins.AssertedType)
			val = d.V
		}
		okv = mkBool(match)
		if !match {
			val = Zero{ins.AssertedType}
		}
	case Nil:
		okv, val = mkBool(false), Zero{ins.AssertedType}
	case Zero:
		if n, known := nilness(d); known && n {
			okv, val = mkBool(false), Zero{ins.AssertedType}
		}
	}
	if okv == nil {
		// unknown dynamic type: fork
		name := "typeassert(" + x.String() + ")." + types.TypeString(ins.AssertedType, shortQ)
		s2 := st.clone()
		res := AV(Expr{Op: "assert:" + types.TypeString(ins.AssertedType, shortQ), Args: []AV{x}})
		// success branch
		st.Labels = append(st.Labels, name+"=true")
		if ins.CommaOk {
			in.set(st, ins, Tuple{[]AV{res, mkBool(true)}})
		} else {
			in.set(st, ins, res)
		}
		in.instrs(st, b, pred, i+1, k)
		// failure branch
		s2.Labels = append(s2.Labels, name+"=false")
		if ins.CommaOk {
			in.set(s2, ins, Tuple{[]AV{Zero{ins.AssertedType}, mkBool(false)}})
			in.instrs(s2, b, pred, i+1, k)
		} else {
			s2.Events = append(s2.Events, Event{Kind: "panic", Note: "type assertion " + name, Pos: ins.Pos(), Stack: s2.stackString()})
			k(s2, nil, true)
		}
		return true
	}
	if ins.CommaOk {
		in.set(st, ins, Tuple{[]AV{val, okv}})
		return false
	}
	if bv, _ := asBool(okv); !bv {
		st.Events = append(st.Events, Event{Kind: "panic", Note: "type assertion failed: " + x.String() + ".(" + types.TypeString(ins.AssertedType, shortQ) + ")", Pos: ins.Pos(), Stack: st.stackString()})
		k(st, nil, true)
		return true
	}
	in.set(st, ins, val)
	return false
}

func (in *Interp) builtin(st *State, name string, args []AV, ins *ssa.Call) ([]AV, bool) {
	switch name {
	case "len", "cap":
		if len(args) == 1 {
			switch a := args[0].(type) {
			case SliceV:
				n := 0
				for _, e := range a.Elems {
					if _, sp := e.(Spread); sp {
						return []AV{Expr{Op: "len", Args: args}}, true
					}
					n++
				}
				return []AV{mkInt(int64(n))}, true
			case Nil:
				return []AV{mkInt(0)}, true
			case Zero:
				return []AV{mkInt(0)}, true
			case Const:
				if s, ok := asString(a); ok {
					return []AV{mkInt(int64(len(s)))}, true
				}
			case Ref:
				if o := st.heap[a.ID]; o != nil && o.Kind == 'a' {
					for _, e := range o.Elems {
						if _, sp := e.(Spread); sp {
							return []AV{Expr{Op: "len", Args: args}}, true
						}
					}
					return []AV{mkInt(int64(len(o.Elems)))}, true
				}
			}
			return []AV{Expr{Op: "len", Args: args}}, true
		}
	case "append":
		if len(args) == 2 {
			var out []AV
			for _, a := range args {
				switch a := a.(type) {
				case SliceV:
					out = append(out, a.Elems...)
				case Nil, Zero:
				default:
					out = append(out, Spread{a})
				}
			}
			return []AV{SliceV{Elems: out}}, true
		}
	case "panic", "print", "println":
		return nil, false
	case "copy":
		if len(args) == 2 {
			if ret, ok := in.copySlice(st, args[0], args[1]); ok {
				return []AV{ret}, true
			}
		}
		st.Events = append(st.Events, Event{Kind: "call", Note: "builtin " + name, Callee: Sym{Name: "builtin:" + name}, Args: args, Pos: ins.Pos(), Stack: st.stackString()})
		return []AV{Top{name}}, true
	case "delete", "close", "clear":
		// delete(m, k) on a map made on this path whose contents are known: the entry with that key goes
		if name == "delete" && len(args) == 2 {
			if mo := st.Obj(args[0]); mo != nil && mo.Kind == 'm' && mo.Opaque == "" {
				var keys []AV
				vals := map[string]AV{}
				for i, k := range mo.Elems {
					eq, known := sameValue(args[1], k)
					if !known {
						mo.Opaque = "map with keys of unknown equality"
						break
					}
					if !eq {
						vals[fmt.Sprint(len(keys))] = mo.Fields[fmt.Sprint(i)]
						keys = append(keys, k)
					}
				}
				if mo.Opaque == "" {
					mo.Elems, mo.Fields = keys, vals
				}
			}
		}
		st.Events = append(st.Events, Event{Kind: "call", Note: "builtin " + name, Callee: Sym{Name: "builtin:" + name}, Args: args, Pos: ins.Pos(), Stack: st.stackString()})
		return []AV{Top{name}}, true
	case "recover":
		st.Events = append(st.Events, Event{Kind: "call", Note: "builtin recover", Callee: Sym{Name: "builtin:recover"}, Pos: ins.Pos(), Stack: st.stackString()})
		return []AV{Top{"recover"}}, true
	case "min", "max":
		return []AV{Expr{Op: name, Args: args}}, true
	}
	return nil, false
}

func (in *Interp) doCall(st *State, ins *ssa.Call, k kont) {
	args := in.vals(st, ins.Call.Args)
	if b, ok := ins.Call.Value.(*ssa.Builtin); ok {
		if ret, handled := in.builtin(st, b.Name(), args, ins); handled {
			k(st, ret, false)
			return
		}
		st.Events = append(st.Events, Event{Kind: "call", Callee: Sym{Name: "builtin:" + b.Name()}, Args: args, Pos: ins.Pos(), Stack: st.stackString()})
		k(st, []AV{Top{"builtin"}}, false)
		return
	}
	if ins.Call.IsInvoke() {
		recv := in.val(st, ins.Call.Value)
		in.invoke(st, ins, recv, ins.Call.Method, args, k)
		return
	}
	callee := in.val(st, ins.Call.Value)
	in.applyValue(st, callee, args, ins, k)
}

func (in *Interp) invoke(st *State, ins *ssa.Call, recv AV, m *types.Func, args []AV, k kont) {
	if d, ok := recv.(Dyn); ok {
		ms := in.W.Prog.MethodSets.MethodSet(d.T)
		if sel := ms.Lookup(m.Pkg(), m.Name()); sel != nil {
			if fn := in.W.Prog.MethodValue(sel); fn != nil {
				in.applyValue(st, Closure{Fn: fn}, append([]AV{d.V}, args...), ins, k)
				return
			}
		}
	}
	ctx := &CallCtx{St: st, Method: m.Name(), Recv: recv, Args: args, Instr: ins}
	in.finishUnknown(st, ctx, Event{Kind: "invoke", Method: m.Name(), Callee: recv, Args: args, Pos: ins.Pos()}, resultTypes(ins.Call.Signature()), k)
}

func resultTypes(sig *types.Signature) []types.Type {
	var out []types.Type
	for i := 0; i < sig.Results().Len(); i++ {
		out = append(out, sig.Results().At(i).Type())
	}
	return out
}

// applyValue calls an abstract function value.
func (in *Interp) applyValue(st *State, callee AV, args []AV, ins *ssa.Call, k kont) {
	var pos token.Pos
	var rts []types.Type
	if ins != nil {
		pos = ins.Pos()
		rts = resultTypes(ins.Call.Signature())
	}
	ctx := &CallCtx{St: st, Callee: callee, Args: args}
	if ins != nil {
		ctx.Instr = ins
	}
	if c, ok := callee.(Closure); ok {
		fn := bodyOf(c.Fn)
		ctx.Fn = fn
		if r, ok := foldPure(fn, args); ok {
			if t, isT := r.(Tuple); isT {
				k(st, t.Vs, false) // a function with several results
			} else {
				k(st, []AV{r}, false)
			}
			return
		}
		if rts == nil {
			rts = resultTypes(fn.Signature)
		}
		if in.OnCall != nil {
			if ans := in.OnCall(ctx); ans != nil {
				in.answers(st, ctx, Event{Kind: "call", Fn: fn, Callee: callee, Args: args, Pos: pos}, ans, k)
				return
			}
		}
		if len(fn.Blocks) > 0 && (in.Inline == nil || in.Inline(fn)) {
			active := 0
			for _, f := range st.frames {
				if f.fn == fn {
					active++
				}
			}
			if len(st.frames) < in.MaxDepth+1 && active < in.MaxRecur {
				// bound methods: receiver is the first binding
				a := args
				free := c.Bind
				if fn.Synthetic != "" && strings.HasPrefix(fn.Synthetic, "bound method") {
					// $bound wrapper: FreeVars[0] is the receiver; body calls the method. Inline as is.
				}
				in.callFn(st, fn, a, free, k)
				return
			}
			if active >= in.MaxRecur {
				st.Truncated = true
				st.Events = append(st.Events, Event{Kind: "cut", Note: "recursion bound at " + relName(fn), Stack: st.stackString()})
				k(st, symResults(rts, "cut"), false)
				return
			}
		}
		in.finishUnknown(st, ctx, Event{Kind: "call", Fn: fn, Callee: callee, Args: args, Pos: pos}, rts, k)
		return
	}
	if n, known := nilness(callee); known && n {
		st.Events = append(st.Events, Event{Kind: "panic", Note: "call of nil function", Pos: pos, Stack: st.stackString()})
		k(st, nil, true)
		return
	}
	in.finishUnknown(st, ctx, Event{Kind: "call", Callee: callee, Args: args, Pos: pos}, rts, k)
}

// foldPure evaluates a few pure library functions on constant arguments.
func foldPure(fn *ssa.Function, args []AV) (AV, bool) {
	if fn.Object() == nil || fn.Object().Pkg() == nil {
		return nil, false
	}
	pkg := fn.Object().Pkg().Path()
	strs := func() ([]string, bool) {
		var out []string
		for _, a := range args {
			s, ok := asString(a)
			if !ok {
				return nil, false
			}
			out = append(out, s)
		}
		return out, true
	}
	switch pkg {
	case "strings":
		switch fn.Name() {
		case "HasPrefix", "HasSuffix", "Contains", "TrimSuffix", "TrimPrefix":
			a, ok := strs()
			if !ok || len(a) != 2 {
				return nil, false
			}
			switch fn.Name() {
			case "HasPrefix":
				return mkBool(strings.HasPrefix(a[0], a[1])), true
			case "HasSuffix":
				return mkBool(strings.HasSuffix(a[0], a[1])), true
			case "Contains":
				return mkBool(strings.Contains(a[0], a[1])), true
			case "TrimSuffix":
				return mkString(strings.TrimSuffix(a[0], a[1])), true
			case "TrimPrefix":
				return mkString(strings.TrimPrefix(a[0], a[1])), true
			}
		case "ReplaceAll":
			a, ok := strs()
			if !ok || len(a) != 3 {
				return nil, false
			}
			return mkString(strings.ReplaceAll(a[0], a[1], a[2])), true
		case "Replace":
			if len(args) == 4 {
				a, ok := func() ([]string, bool) {
					var out []string
					for _, x := range args[:3] {
						s, ok := asString(x)
						if !ok {
							return nil, false
						}
						out = append(out, s)
					}
					return out, true
				}()
				n, okn := asInt(args[3])
				if ok && okn {
					return mkString(strings.Replace(a[0], a[1], a[2], int(n))), true
				}
			}
		}
	case "unicode/utf8":
		switch fn.Name() {
		case "DecodeRuneInString":
			if a, ok := strs(); ok && len(a) == 1 {
				r, w := utf8.DecodeRuneInString(a[0])
				return Tuple{Vs: []AV{mkInt(int64(r)), mkInt(int64(w))}}, true
			}
		case "RuneLen":
			if len(args) == 1 {
				if n, ok := asInt(args[0]); ok {
					return mkInt(int64(utf8.RuneLen(rune(n)))), true
				}
			}
		}
	case "path/filepath", "path":
		if fn.Name() == "Join" && len(args) == 1 {
			if sv, ok := args[0].(SliceV); ok {
				var parts []string
				for _, e := range sv.Elems {
					s, ok := asString(e)
					if !ok {
						return nil, false
					}
					parts = append(parts, s)
				}
				return mkString(filepath.Join(parts...)), true
			}
			return nil, false
		}
		a, ok := strs()
		if !ok {
			return nil, false
		}
		switch fn.Name() {
		case "Base":
			if len(a) == 1 {
				return mkString(filepath.Base(a[0])), true
			}
		case "Dir":
			if len(a) == 1 {
				return mkString(filepath.Dir(a[0])), true
			}
		case "Ext":
			if len(a) == 1 {
				return mkString(filepath.Ext(a[0])), true
			}
		}
	case "fmt":
		if fn.Name() == "Sprintf" && len(args) == 2 {
			format, ok := asString(args[0])
			sv, ok2 := args[1].(SliceV)
			if !ok || !ok2 {
				return nil, false
			}
			var vals []any
			for _, e := range sv.Elems {
				if d, isD := e.(Dyn); isD {
					e = d.V
				}
				s, ok := asString(e)
				if !ok {
					return nil, false
				}
				vals = append(vals, s)
			}
			if strings.Count(format, "%s") != len(vals) || strings.Count(format, "%") != len(vals) {
				return nil, false
			}
			return mkString(fmt.Sprintf(format, vals...)), true
		}
	}
	return nil, false
}

func symResults(rts []types.Type, tag string) []AV {
	out := make([]AV, len(rts))
	for i, t := range rts {
		out[i] = Sym{Name: fmt.Sprintf("%s#%d", tag, i), T: t}
	}
	return out
}

func (in *Interp) finishUnknown(st *State, ctx *CallCtx, ev Event, rts []types.Type, k kont) {
	if in.OnCall != nil {
		if ans := in.OnCall(ctx); ans != nil {
			in.answers(st, ctx, ev, ans, k)
			return
		}
	}
	ev.Stack = st.stackString()
	if in.OpaqueArgs != nil && ctx.Fn != nil && in.OpaqueArgs(ctx.Fn) {
		in.markOpaque(st, ctx.Args)
	}
	if in.SnapClosures {
		for _, a := range ev.Args {
			if cl, ok := a.(Closure); ok {
				ev.Bound = append(ev.Bound, boundFuncs(st, cl, 0)...)
				ev.BoundVals = append(ev.BoundVals, boundClosures(st, cl, 0)...)
			}
		}
	}
	tag := fmt.Sprintf("ret:%s#%d", ev.Name(), len(st.Events))
	ret := symResults(rts, tag)
	if len(ret) == 1 {
		ret[0] = Sym{Name: tag, T: rts[0], NN: ctx.Fn != nil && (neverNil(ctx.Fn, 0) || sprintfNonEmpty(ctx.Fn, ctx.Args))}
		ev.Ret = ret[0]
	}
	st.Events = append(st.Events, ev)
	in.havoc(st)
	k(st, ret, false)
}

// sprintfNonEmpty: fmt.Sprintf with a constant format that has a literal character outside its verbs gives a
// non-empty string whatever the operands are (for a string-typed symbol NN means "not the empty string").
func sprintfNonEmpty(fn *ssa.Function, args []AV) bool {
	if fn.Name() != "Sprintf" || fn.Pkg == nil || fn.Pkg.Pkg.Path() != "fmt" || len(args) == 0 {
		return false
	}
	format, ok := asString(args[0])
	if !ok {
		return false
	}
	for i := 0; i < len(format); i++ {
		if format[i] != '%' {
			return true
		}
		if i+1 < len(format) && format[i+1] == '%' {
			return true // %% prints a percent sign
		}
		// skip the verb: flags, width, precision, verb letter
		i++
		for i < len(format) && strings.ContainsRune("+-# 0123456789.*[]", rune(format[i])) {
			i++
		}
	}
	return false
}

// markOpaque forgets the contents of struct objects handed to an un-inlined callee.
func (in *Interp) markOpaque(st *State, args []AV) {
	for _, a := range args {
		if d, ok := a.(Dyn); ok {
			a = d.V
		}
		r, ok := a.(Ref)
		if !ok {
			continue
		}
		o := st.heap[r.ID]
		if o == nil || o.Kind != 's' {
			continue
		}
		if in.OpaqueType != nil && !in.OpaqueType(o.T) {
			continue
		}
		if o.Opaque == "" {
			name := "obj"
			if nt, ok := o.T.(*types.Named); ok {
				name = nt.Obj().Name()
			}
			o.Opaque = fmt.Sprintf("%s#%d", name, r.ID)
			o.Before = o.Fields
		}
		o.Fields = map[string]AV{}
	}
}

var neverNilMemo = map[*ssa.Function]bool{}

// neverNil: every return of fn yields a freshly allocated object (or the result
// of a callee for which that holds): the result of an un-inlined call of fn is non-nil.
func neverNil(fn *ssa.Function, depth int) bool {
	fn = bodyOf(fn)
	if fn == nil || len(fn.Blocks) == 0 || depth > 4 || fn.Signature.Results().Len() != 1 {
		return false
	}
	if v, ok := neverNilMemo[fn]; ok {
		return v
	}
	neverNilMemo[fn] = false
	var fresh func(v ssa.Value, d int) bool
	fresh = func(v ssa.Value, d int) bool {
		if d > 6 {
			return false
		}
		switch x := v.(type) {
		case *ssa.Alloc, *ssa.MakeClosure, *ssa.MakeMap, *ssa.MakeSlice, *ssa.MakeChan:
			return true
		case *ssa.Call:
			if c := x.Call.StaticCallee(); c != nil {
				return neverNil(c, depth+1)
			}
		case *ssa.Phi:
			for _, e := range x.Edges {
				if !fresh(e, d+1) {
					return false
				}
			}
			return true
		case *ssa.ChangeType:
			return fresh(x.X, d+1)
		case *ssa.MakeInterface:
			return fresh(x.X, d+1)
		}
		return false
	}
	ok := true
	n := 0
	for _, b := range fn.Blocks {
		for _, ins := range b.Instrs {
			if r, isRet := ins.(*ssa.Return); isRet {
				n++
				if len(r.Results) != 1 || !fresh(r.Results[0], 0) {
					ok = false
				}
			}
		}
	}
	ok = ok && n > 0
	neverNilMemo[fn] = ok
	return ok
}

// havoc: an unknown call may have modified symbolic memory.
func (in *Interp) havoc(st *State) {
	st.epoch++
	for key := range st.symMem {
		if in.HavocKeep != nil && in.HavocKeep(key) {
			continue
		}
		delete(st.symMem, key)
	}
}

func (in *Interp) answers(st *State, ctx *CallCtx, ev Event, ans []Answer, k kont) {
	ev.Stack = st.stackString()
	if in.OpaqueArgs != nil && ctx.Fn != nil && in.OpaqueArgs(ctx.Fn) {
		in.markOpaque(st, ctx.Args)
	}
	for ai, a := range ans {
		s := st
		if ai < len(ans)-1 {
			s = st.clone()
		}
		a := a
		if a.Label != "" {
			s.Labels = append(s.Labels, a.Label)
		}
		if !a.NoEvent {
			e := ev
			e.Note = a.Label
			if len(a.Ret) == 1 {
				e.Ret = a.Ret[0]
			}
			s.Events = append(s.Events, e)
		}
		if a.Panic {
			s.Events = append(s.Events, Event{Kind: "panic", Note: "oracle: " + a.Label, Pos: ev.Pos, Stack: s.stackString()})
			k(s, nil, true)
			continue
		}
		if a.Do != nil {
			a.Do(s)
		}
		in.invokeAll(s, a.Invoke, 0, func(s2 *State, _ []AV, p bool) {
			if p {
				k(s2, nil, true)
				return
			}
			k(s2, a.Ret, false)
		})
	}
}

func (in *Interp) invokeAll(st *State, invs []Invocation, i int, k kont) {
	if i >= len(invs) {
		k(st, nil, false)
		return
	}
	in.applyForced(st, invs[i].Fn, invs[i].Args, func(s *State, _ []AV, p bool) {
		if p {
			k(s, nil, true)
			return
		}
		in.invokeAll(s, invs, i+1, k)
	})
}

// applyForced inlines a closure regardless of the Inline policy (used for callbacks).
func (in *Interp) applyForced(st *State, f AV, args []AV, k kont) {
	if c, ok := f.(Closure); ok {
		fn := bodyOf(c.Fn)
		if len(fn.Blocks) > 0 {
			active := 0
			for _, fr := range st.frames {
				if fr.fn == fn {
					active++
				}
			}
			if active >= in.MaxRecur || len(st.frames) > 4*in.MaxDepth {
				st.Truncated = true
				st.Events = append(st.Events, Event{Kind: "cut", Note: "recursion bound at " + relName(fn), Stack: st.stackString()})
				k(st, nil, false)
				return
			}
			in.callFn(st, fn, args, c.Bind, k)
			return
		}
	}
	in.applyValue(st, f, args, nil, k)
}

// ------------------------------------------------------------------ rendering

// Render shows a value with heap objects expanded (for templates and diagnostics).
func (s *State) Render(v AV) string { return s.render(v, 0, map[int]bool{}) }

func (s *State) render(v AV, depth int, seen map[int]bool) string {
	if depth > 14 {
		return "…"
	}
	switch v := v.(type) {
	case Ref:
		o := s.heap[v.ID]
		if o == nil {
			return v.String()
		}
		if seen[v.ID] {
			return fmt.Sprintf("&obj%d(cycle)", v.ID)
		}
		seen[v.ID] = true
		defer delete(seen, v.ID)
		switch o.Kind {
		case 's':
			return "&" + s.renderFields(o.T, o.Fields, depth, seen)
		case 'c':
			if o.Val == nil {
				return "&(zero)"
			}
			return "&(" + s.render(o.Val, depth+1, seen) + ")"
		case 'a':
			return "&" + s.render(SliceV{o.Elems}, depth+1, seen)
		}
	case StructV:
		return s.renderFields(v.T, v.Fields, depth, seen)
	case Dyn:
		return s.render(v.V, depth, seen)
	case SliceV:
		var xs []string
		for _, e := range v.Elems {
			xs = append(xs, s.render(e, depth+1, seen))
		}
		return "[" + strings.Join(xs, ", ") + "]"
	case Spread:
		return s.render(v.V, depth+1, seen) + "..."
	case Tuple:
		var xs []string
		for _, e := range v.Vs {
			xs = append(xs, s.render(e, depth+1, seen))
		}
		return "(" + strings.Join(xs, ", ") + ")"
	case Expr:
		var xs []string
		for _, e := range v.Args {
			xs = append(xs, s.render(e, depth+1, seen))
		}
		return v.Op + "(" + strings.Join(xs, ", ") + ")"
	}
	if v == nil {
		return "<nil>"
	}
	return v.String()
}

func (s *State) renderFields(t types.Type, fields map[string]AV, depth int, seen map[int]bool) string {
	var ks []string
	for k := range fields {
		ks = append(ks, k)
	}
	sort.Strings(ks)
	var xs []string
	for _, k := range ks {
		xs = append(xs, k+": "+s.render(fields[k], depth+1, seen))
	}
	return types.TypeString(t, shortQ) + "{" + strings.Join(xs, ", ") + "}"
}

// TraceStrings renders the events of a path.
func (s *State) TraceStrings() []string {
	var xs []string
	for _, e := range s.Events {
		xs = append(xs, e.String())
	}
	return xs
}

// boundFuncs: names of the function values reachable through the variables a closure captures.
func boundFuncs(st *State, cl Closure, depth int) []string {
	var out []string
	if depth > 3 {
		return out
	}
	for _, b := range cl.Bind {
		v := b
		if o := st.Obj(b); o != nil && o.Kind == 'c' {
			v = o.Val
		}
		switch x := v.(type) {
		case Closure:
			out = append(out, x.Fn.String())
			out = append(out, boundFuncs(st, x, depth+1)...)
		case Sym:
			out = append(out, x.Name)
		}
	}
	return out
}

// boundClosures: the closure values reachable through the variables a closure captures.
func boundClosures(st *State, cl Closure, depth int) []AV {
	var out []AV
	if depth > 3 {
		return out
	}
	for _, b := range cl.Bind {
		v := b
		if o := st.Obj(b); o != nil && o.Kind == 'c' {
			v = o.Val
		}
		if x, ok := v.(Closure); ok {
			out = append(out, x)
			out = append(out, boundClosures(st, x, depth+1)...)
		}
	}
	return out
}

// fieldByShape finds the configured field whose path agrees with key on the root and on the field name and is
// a subsequence / supersequence of it (fields regrouped into an embedded struct); ambiguous matches give none.
func (in *Interp) fieldByShape(key string) (AV, bool) {
	if len(in.Fields) == 0 || strings.HasPrefix(key, "*") || strings.Contains(key, "[") {
		return nil, false
	}
	kp := strings.Split(key, ".")
	if len(kp) < 2 {
		return nil, false
	}
	isSubseq := func(a, b []string) bool { // a subsequence of b
		i := 0
		for _, x := range b {
			if i < len(a) && a[i] == x {
				i++
			}
		}
		return i == len(a)
	}
	var found AV
	n := 0
	for k, v := range in.Fields {
		fp := strings.Split(k, ".")
		if len(fp) < 2 || len(fp) == len(kp) || fp[0] != kp[0] || fp[len(fp)-1] != kp[len(kp)-1] {
			continue
		}
		if isSubseq(fp, kp) || isSubseq(kp, fp) {
			if found != nil && found.String() == v.String() {
				continue // the same value configured under two spellings of the path
			}
			found = v
			n++
		}
	}
	if n == 1 {
		return found, true
	}
	return nil, false
}
