package main

// RW.CLOSE, RW.FACTORY, RW.IMPORT (property C11).
//
// RW.CLOSE: a block that becomes the body of a thunk func() Seq[T] must end in
// a return statement, otherwise the generated file has a "missing return".
//  (1) contract of rewriteStmts: the block returned by the last rewriteStmt call
//      is the one still open; it is closed (implicit Normal if necessary) when it
//      is a thunk-body block (kindDelay) — not the block that was passed in;
//  (2) every wrap site: a block of another kind whose statements are wrapped
//      into a thunk on some path has a closing event on that path before.
// RW.FACTORY: the AST factory never panics on the optional parts of supported
// statements (nil tag of a tag-less switch, ...).
// RW.IMPORT: the name under which seq is referred to in generated code is the
// name the file actually imports it under (or the one the rewriter adds).

import (
	"fmt"
	"go/types"
	"strings"

	"golang.org/x/tools/go/ssa"
)

func (r *rwRT) ruleCloseContract() {
	c := r.c
	c.min("RW.CLOSE", 3)
	fn := r.method("yieldRewriter", "rewriteStmts")
	c.fn(relName(fn))
	pos := r.w.FnPos(fn)
	kindDelay := r.kindConst("kindDelay")
	type listForm struct {
		n    int
		last string // syntactic kind of the last statement: the decisions must not depend on what comes next
	}
	var forms []listForm
	for _, n := range []int{0, 1, 2, 3} {
		forms = append(forms, listForm{n, "expr"})
		if n >= 2 {
			forms = append(forms, listForm{n, "break"}, listForm{n, "continue"}, listForm{n, "return"})
		}
	}
	for _, lf := range forms {
		n := lf.n
		for _, childKind := range []string{"kindDelay", "kindIf"} {
			st := newState()
			var elems []AV
			for i := 0; i < n; i++ {
				elems = append(elems, Dyn{T: r.astPtr("ExprStmt"), V: leafSym(fmt.Sprintf("s%d", i))})
			}
			switch lf.last {
			case "break", "continue":
				_, br := r.heapNode(st, "BranchStmt", map[string]AV{"Tok": r.tokConst(strings.ToUpper(lf.last)), "Label": Nil{}})
				elems[n-1] = br
			case "return":
				_, rt := r.heapNode(st, "ReturnStmt", map[string]AV{"Results": SliceV{}})
				elems[n-1] = rt
			}
			children := st.alloc(&Obj{Kind: 's', Opaque: "children", Fields: map[string]AV{"kind": r.kindConst(childKind)}})
			in := r.interp(rwConfig{root: fn, blockOracles: true, boundaries: map[string]bool{"rewriteStmts": false, "generateLastNormalIfNecessary": true, "combineIfNecessary": true}})
			in.MaxRecur = 4
			// rewriteStmt returns: nil | the same block | a different (new) block of kind delay / other
			in.OnCall = wrapOnCall(in.OnCall, func(cc *CallCtx) []Answer {
				if cc.Fn != nil && inRw(cc.Fn) && cc.Fn.Name() == "rewriteStmt" && len(cc.Args) == 4 {
					nb := func(kind string) AV {
						return cc.St.alloc(&Obj{Kind: 's', Opaque: "newblock(" + kind + ")", Fields: map[string]AV{"kind": r.kindConst(kind)}})
					}
					return []Answer{
						{Ret: []AV{Nil{}}, Label: "rewriteStmt=nil"},
						{Ret: []AV{cc.Args[3]}, Label: "rewriteStmt=same"},
						{Ret: []AV{nb("kindDelay")}, Label: "rewriteStmt=new-delay"},
					}
				}
				if cc.Fn != nil && inRw(cc.Fn) && cc.Fn.Name() == "combineIfNecessary" && len(cc.Args) == 2 {
					return []Answer{{Ret: []AV{cc.Args[1]}, Label: "combine=same"}}
				}
				return nil
			})
			// (r, stmts, [start index,] children): the arguments follow the parameter types
			args := []AV{Sym{Name: "r", NN: true}}
			for i := 1; i < len(fn.Params); i++ {
				switch t := fn.Params[i].Type().Underlying().(type) {
				case *types.Slice:
					args = append(args, SliceV{Elems: elems})
				case *types.Basic:
					args = append(args, mkInt(0))
				default:
					_ = t
					args = append(args, children)
				}
			}
			outs := in.Run(st, fn, args, nil)
			r.account(in)
			bad, combineBad := "", ""
			for _, o := range outs {
				if o.Panicked || o.St.Truncated {
					continue
				}
				// the block that is open at the end of this path
				open := AV(children)
				last := ""
				for _, e := range o.St.Events {
					if e.Kind == "call" && e.Fn != nil && e.Fn.Name() == "rewriteStmt" && inRw(e.Fn) {
						last = e.Note
						if e.Ret != nil {
							if n, known := nilness(e.Ret); known && n {
								open = nil
							} else {
								open = e.Ret
							}
						}
					}
				}
				var closed []AV
				for _, e := range o.St.Events {
					if e.Kind == "call" && e.Fn != nil && e.Fn.Name() == "generateLastNormalIfNecessary" && len(e.Args) == 2 {
						closed = append(closed, e.Args[1])
					}
				}
				// between two statements of a list the combine decision is always taken on the block the
				// first one handed back — whatever the next statement is (a statement that "never completes",
				// such as a closing panic, still has to wait for the yields before it)
				{
					var pending AV
					for _, e := range o.St.Events {
						if e.Kind != "call" || e.Fn == nil || !inRw(e.Fn) {
							continue
						}
						switch e.Fn.Name() {
						case "rewriteStmt":
							if pending != nil {
								combineBad = fmt.Sprintf("n=%d: the next statement is rewritten into %s without the combine decision (combineIfNecessary) having been taken on it: after a yielding if/switch/loop the following statement would run before the yields", n, o.St.Render(pending))
							}
							pending = nil
							if e.Ret != nil {
								if nn, known := nilness(e.Ret); !(known && nn) {
									pending = e.Ret
								}
							}
						case "combineIfNecessary":
							if len(e.Args) == 2 && pending != nil && sameAV(e.Args[1], pending) {
								pending = nil
							}
						}
					}
				}
				if open == nil {
					continue // the last statement closed its block itself
				}
				ob := o.St.Obj(open)
				needs := ob != nil && sameAV(ob.Fields["kind"], kindDelay)
				isClosed := false
				for _, cl := range closed {
					if sameAV(cl, open) {
						isClosed = true
					} else {
						bad = fmt.Sprintf("n=%d: the implicit Normal is appended to %s although the open block is %s (last %s)", n, o.St.Render(cl), o.St.Render(open), last)
					}
				}
				if needs && !isClosed {
					bad = fmt.Sprintf("n=%d, children kind %s: the open thunk-body block %s is not closed at the end of the list (last %s)", n, childKind, ob.Opaque, last)
				}
			}
			if n >= 2 {
				c.check(combineBad == "", "RW.CLOSE", fmt.Sprintf("combine decision between statements [%d stmt(s), last is %s, block kind %s]", n, lf.last, childKind), pos,
					"between two statements of a list combineIfNecessary is always applied to the block the first one handed back", combineBad)
			}
			c.check(bad == "", "RW.CLOSE", fmt.Sprintf("rewriteStmts contract [%d stmt(s), last is %s, block kind %s]", n, lf.last, childKind), pos,
				"at the end of a statement list the block returned by the last rewriteStmt call — the one still open — is closed when it is a thunk body; no other block is touched", bad)
		}
	}
}

// ruleCloseNil: the other half of the list contract. rewriteStmts does nothing more when rewriteStmt
// answers nil for the last statement of a list ("no following block"): the statement must then have
// closed the open block itself. For every statement shape, on every accepting path with isLast = true that
// returns nil, the last thing done to a block is a return (pushReturn), the closing decision
// (generateLastNormalIfNecessary), or the emission of the branch statement itself (pass3 turns it into a
// return). Otherwise a thunk whose list ends in that statement lacks its return ("missing return").
func (r *rwRT) ruleCloseNil() {
	c := r.c
	fn := r.method("yieldRewriter", "rewriteStmt")
	pos := r.w.FnPos(fn)
	checked := 0
	for _, kind := range r.stmtKinds() {
		for _, shp := range r.shapes(kind) {
			cfg := rwConfig{root: fn, blockOracles: true, boundaries: map[string]bool{
				"rewriteIfStmt": false, "rewriteSwitchStmt": false, "rewriteForStmt": false,
				"rewriteYieldCall": false, "combineIfNecessary": false, "generateLastNormalIfNecessary": true,
			}}
			in := r.interp(cfg)
			in.MaxRecur, in.MaxVisits, in.MaxDepth = 3, 4, 16
			outs := in.Run(shp.st.clone(), fn, []AV{Sym{Name: "r", NN: true}, shp.root, mkBool(true), Sym{Name: "children", NN: true}}, nil)
			r.account(in)
			bad := ""
			nilPaths := 0
			for _, o := range outs {
				if o.Panicked || o.St.Truncated || len(o.Ret) != 1 {
					continue
				}
				if n, known := nilness(o.Ret[0]); !known || !n {
					continue
				}
				nilPaths++
				lastEv := ""
				okEnd := false
				for _, e := range o.St.Events {
					if e.Kind != "call" || e.Fn == nil || !inRw(e.Fn) {
						continue
					}
					switch e.Fn.Name() {
					case "pushReturn", "generateLastNormalIfNecessary":
						lastEv, okEnd = e.Fn.Name(), true
					case "push":
						lastEv, okEnd = "push", false
						if len(e.Args) >= 2 {
							if po := o.St.Obj(unwrap(e.Args[1])); po != nil && typeName(po.T) == "BranchStmt" && sameAV(unwrap(e.Args[1]), unwrap(shp.root)) {
								okEnd = true // break / continue: rewritten to a return by the branch pass (or native inside a native loop)
							}
						}
					}
				}
				if !okEnd {
					bad = fmt.Sprintf("rewriteStmt answers nil (\"nothing follows\") for a last statement, but the last thing done to the output is %q, not a return or the closing decision: %s", lastEv, pathSummary(o))
				}
			}
			if nilPaths == 0 {
				continue
			}
			checked++
			c.check(bad == "", "RW.CLOSE", "last statement answering nil has closed its block: "+shp.desc, pos,
				fmt.Sprintf("%d path(s) return nil: each ends with a return pushed, the closing decision taken, or the branch statement itself", nilPaths), bad)
		}
	}
	if checked == 0 {
		c.ok("RW.CLOSE", "last statement answering nil has closed its block", pos, "no statement shape makes rewriteStmt answer nil: the list contract closes every block")
	}
}

// ruleCloseWrap: every thunk built from a non-delay block is closed on its path.
func (r *rwRT) ruleCloseWrap() {
	c := r.c
	fn := r.method("yieldRewriter", "rewriteStmt")
	pos := r.w.FnPos(fn)
	kindDelay := r.kindConst("kindDelay")
	wraps, bad := 0, ""
	for _, kind := range []string{"ForStmt", "SwitchStmt", "IfStmt", "BlockStmt", "TypeSwitchStmt"} {
		for _, shp := range r.shapes(kind) {
			cfg := rwConfig{root: fn, blockOracles: true, boundaries: map[string]bool{
				"rewriteIfStmt": false, "rewriteSwitchStmt": false, "rewriteForStmt": false,
				"rewriteYieldCall": false, "combineIfNecessary": false, "generateLastNormalIfNecessary": true,
			}}
			in := r.interp(cfg)
			in.MaxRecur, in.MaxVisits, in.MaxDepth = 3, 4, 16
			outs := in.Run(shp.st.clone(), fn, []AV{Sym{Name: "r", NN: true}, shp.root, Sym{Name: "isLast"}, Sym{Name: "children", NN: true}}, nil)
			r.account(in)
			for _, o := range outs {
				if o.Panicked || o.St.Truncated {
					continue
				}
				// blocks: name -> kind, closed?
				kindOf := map[string]AV{}
				closed := map[string]bool{}
				for _, e := range o.St.Events {
					if e.Kind != "call" || e.Fn == nil || !inRw(e.Fn) {
						continue
					}
					switch e.Fn.Name() {
					case "rewriteBlockStmt":
						if e.Ret != nil && len(e.Args) == 3 {
							kindOf[argLabel(e.Ret)] = e.Args[2]
						}
					case "generateLastNormalIfNecessary":
						if len(e.Args) == 2 {
							closed[blockName(o.St, e.Args[1])] = true
						}
					case "pushReturn":
						// a return statement appended to B closes it
						if len(e.Args) >= 1 {
							closed[blockName(o.St, e.Args[0])] = true
						}
					case "rewriteStmt":
						// rewriteStmt(post, isLast=true, B) closes B itself (yield / if / assert on a final return)
						if len(e.Args) == 4 {
							if b, ok := asBool(e.Args[2]); ok && b {
								closed[blockName(o.St, e.Args[3])] = true
							}
						}
					}
				}
				// thunks in emitted values
				for _, e := range o.St.Events {
					if e.Kind == "call" && e.Fn != nil && inRw(e.Fn) && (e.Fn.Name() == "push" || e.Fn.Name() == "pushReturn") && len(e.Args) >= 2 {
						for _, body := range thunkBodies(o.St, e.Args[1]) {
							name := strings.TrimSuffix(argLabel(body), ".block")
							k, known := kindOf[name]
							if !known {
								continue // a block created with mkBlock(kindDelay) in this function: closed by the list contract or explicitly
							}
							wraps++
							if !sameAV(k, kindDelay) && !closed[name] {
								bad = fmt.Sprintf("%s: the statements of %s (kind %s) are wrapped into a thunk without a closing step on this path: %s", shp.desc, name, k, pathSummary(o))
							}
						}
					}
				}
			}
		}
	}
	if wraps < 4 {
		c.und("RW.CLOSE", "wrap sites", pos, fmt.Sprintf("only %d wraps of rewritten blocks into thunks seen", wraps))
		return
	}
	c.check(bad == "", "RW.CLOSE", "wrap sites of non-delay blocks", pos,
		fmt.Sprintf("%d wraps of rewritten statement lists into thunks: each block that the list contract does not close (kind other than delay) is closed on its path before being wrapped", wraps), bad)
}

func blockName(st *State, v AV) string {
	if o := st.Obj(v); o != nil && o.Opaque != "" {
		return o.Opaque
	}
	return argLabel(v)
}

// thunkBodies: bodies of function literals with a result (thunks) inside v that are symbolic block references.
func thunkBodies(st *State, v AV) []AV {
	var out []AV
	var walk func(v AV, seen map[int]bool)
	walk = func(v AV, seen map[int]bool) {
		switch x := v.(type) {
		case Dyn:
			walk(x.V, seen)
		case Ref:
			if seen[x.ID] {
				return
			}
			seen[x.ID] = true
			o := st.heap[x.ID]
			if o == nil {
				return
			}
			if typeName(o.T) == "FuncLit" {
				if b, ok := o.Fields["Body"]; ok {
					if sy, isSym := unwrap(b).(Sym); isSym && strings.HasSuffix(epochRe.ReplaceAllString(sy.Name, ""), ".block") {
						// only thunks returning a Seq: Type.Results non-empty
						if ft := st.Obj(unwrap(o.Fields["Type"])); ft != nil {
							if res := st.Obj(unwrap(ft.Fields["Results"])); res != nil {
								if l, ok := res.Fields["List"].(SliceV); ok && len(l.Elems) > 0 {
									out = append(out, sy)
								}
							}
						}
					}
				}
			}
			for _, f := range o.Fields {
				walk(f, seen)
			}
		case SliceV:
			for _, e := range x.Elems {
				walk(e, seen)
			}
		case Spread:
			walk(x.V, seen)
		}
	}
	walk(v, map[int]bool{})
	return out
}

// ------------------------------------------------------------------ RW.FACTORY

func (r *rwRT) ruleFactory() {
	c := r.c
	c.min("RW.FACTORY", 1)
	fn := r.method("yieldRewriter", "rewriteStmt")
	pos := r.w.FnPos(fn)
	bad := ""
	paths := 0
	for _, kind := range r.stmtKinds() {
		if _, unsup := unsupportedKinds[kind]; unsup || eitherWayKinds[kind] {
			continue
		}
		for _, shp := range r.shapes(kind) {
			cfg := rwConfig{root: fn, blockOracles: true, boundaries: map[string]bool{
				"rewriteIfStmt": false, "rewriteSwitchStmt": false, "rewriteForStmt": false,
				"rewriteYieldCall": false, "combineIfNecessary": false, "generateLastNormalIfNecessary": false,
			}}
			in := r.interp(cfg)
			in.MaxRecur, in.MaxVisits, in.MaxDepth = 3, 4, 16
			outs := in.Run(shp.st.clone(), fn, []AV{Sym{Name: "r", NN: true}, shp.root, Sym{Name: "isLast"}, Sym{Name: "children", NN: true}}, nil)
			r.account(in)
			for _, o := range outs {
				paths++
				if !o.Panicked {
					continue
				}
				for _, e := range o.St.Events {
					if e.Kind == "panic" && (strings.Contains(e.Stack, "rewriter.factor)") || strings.Contains(e.Stack, "rewriter.yieldAst)")) {
						bad = fmt.Sprintf("%s: the AST factory panics (%s) in %s", shp.desc, e.Note, e.Stack[strings.LastIndex(e.Stack, " > ")+1:])
					}
				}
			}
		}
	}
	// qualified names: pkg.Name, and the bare Name under a dot import (generated code must build under every way
	// of importing seq)
	if ps := r.w.MethodOpt(pathRw, "factor", "PkgSelect"); ps != nil {
		c.fn(relName(ps))
		for _, pkgName := range []string{".", "sq"} {
			in := r.interp(rwConfig{root: ps, inlineAll: true})
			outs := in.Run(newState(), ps, []AV{StructV{}, mkString(pkgName), mkString("Bind")}, nil)
			r.account(in)
			var err error
			if len(outs) != 1 || outs[0].Panicked || len(outs[0].Ret) != 1 {
				err = fmt.Errorf("not a single normal path")
			} else if pkgName == "." {
				err = matchTmpl(outs[0].St, outs[0].Ret[0], nd("Ident", map[string]Pat{"Name": pStr{"Bind"}}))
			} else {
				err = matchTmpl(outs[0].St, outs[0].Ret[0], pSelect(nd("Ident", map[string]Pat{"Name": pStr{pkgName}}), "Bind"))
			}
			c.check(err == nil, "RW.FACTORY", "qualified name under import name "+pkgName, r.w.FnPos(ps),
				map[bool]string{true: "a dot import is referred to by the bare name", false: "pkg.Name"}[pkgName == "."], fmt.Sprint(err))
		}
	}
	// the switch factory puts initialiser, tag / guard and body where they belong, for the three forms
	if sw := r.w.MethodOpt(pathRw, "factor", "Switch"); sw != nil {
		c.fn(relName(sw))
		for _, form := range []string{"tag-less", "tag", "type switch"} {
			st := newState()
			initN, bodyN := Dyn{T: r.astPtr("ExprStmt"), V: leafSym("sw.init")}, leafSym("sw.body")
			var x AV = Nil{}
			wantKind := "SwitchStmt"
			fields := map[string]Pat{"Init": pVal{initN}, "Body": pVal{bodyN}}
			switch form {
			case "tag":
				x = exprLeaf(r, "sw.tag")
				fields["Tag"] = pLeaf{"sw.tag"}
			case "type switch":
				x = Dyn{T: r.astPtr("ExprStmt"), V: leafSym("sw.assign")}
				wantKind = "TypeSwitchStmt"
				fields["Assign"] = pVal{x}
			default:
				fields["Tag"] = pNil{}
			}
			in := r.interp(rwConfig{root: sw, inlineAll: true})
			outs := in.Run(st, sw, []AV{StructV{}, initN, x, bodyN}, nil)
			r.account(in)
			var err error
			if len(outs) != 1 || outs[0].Panicked || len(outs[0].Ret) != 1 {
				err = fmt.Errorf("not a single normal path")
			} else {
				err = matchTmpl(outs[0].St, outs[0].Ret[0], ndOpen(wantKind, fields))
			}
			c.check(err == nil, "RW.FACTORY", "switch factory: "+form, r.w.FnPos(sw), "initialiser, tag / guard and body each in its own place", fmt.Sprint(err))
		}
	}
	c.check(bad == "", "RW.FACTORY", "AST factory total on supported statements", pos,
		fmt.Sprintf("%d abstract paths over all supported statement shapes (every optional part present/absent): no panic is raised inside the AST factory", paths), bad)
}

// ------------------------------------------------------------------ RW.IMPORT

func (r *rwRT) ruleImport() {
	c := r.c
	c.min("RW.IMPORT", 2)
	fn := r.method("rewriter", "rewriteFile")
	pos := r.w.FnPos(fn)
	var seqAns string
	in := r.interp(rwConfig{root: fn, boundaries: map[string]bool{"rewriteFile": false, "attachComment": true, "rewriteForRanges": true, "rewriteIter": true, "mkYieldFromRewriter": true, "mkYieldRewriter": true, "collectYieldFunc": true}})
	in.MaxVisits = 12 // the passes may be run from a table in a loop
	in.OnCall = wrapOnCall(in.OnCall, func(cc *CallCtx) []Answer {
		if cc.Fn == nil {
			return nil
		}
		switch cc.Fn.Name() {
		case "ImportName":
			if len(cc.Args) == 3 {
				p, _ := asString(cc.Args[1])
				if strings.HasSuffix(p, "/seq") {
					if seqAns == "" {
						return []Answer{{Ret: []AV{mkString("")}}}
					}
					if seqAns == "default" {
						// imported without a name of its own: the helper answers with the default it is given
						return []Answer{{Ret: []AV{cc.Args[2]}}}
					}
					return []Answer{{Ret: []AV{mkString("sq")}}}
				}
				return []Answer{{Ret: []AV{mkString("c0")}}}
			}
		case "Imports", "UsesImport":
			return []Answer{{Ret: []AV{mkBool(seqAns != "")}}}
		}
		return nil
	})
	realName := r.w.Pkgs[pathSeq].Types.Name()
	for _, present := range []string{"", "imported", "default"} {
		seqAns = present
		r.setFileImports(in, present) // the same scenario for code that scans the import declarations itself
		outs := in.Run(nil, fn, []AV{Sym{Name: "r", NN: true}, Sym{Name: "f", NN: true}, Sym{Name: "printer", NN: true}}, nil)
		r.account(in)
		construct := "seq import: " + map[string]string{"": "absent in the file", "imported": "already imported (under any name)", "default": "already imported without a name of its own"}[present]
		var err error
		seen := false
		for _, o := range outs {
			if o.Panicked || o.St.Truncated {
				continue
			}
			seen = true
			var stored AV
			var added []AV
			_, seqKeys := r.importNameKeys() // where rewriteFile keeps the name of package seq, whatever the field is called
			for _, e := range o.St.Events {
				if e.Kind == "store" && strings.HasPrefix(e.Target, "r.") {
					// the field itself, or a group of per-file fields re-initialised by one composite literal
					tgt := epochRe.ReplaceAllString(e.Target, "")
					if strings.HasSuffix(e.Target, ".seqImportedName") {
						stored = e.Args[0]
					} else if sv, ok := e.Args[0].(StructV); ok {
						if v, ok := sv.Fields["seqImportedName"]; ok {
							stored = v
						}
						for _, k := range seqKeys {
							if strings.HasPrefix(k, tgt+".") {
								if v, ok := sv.Fields[strings.TrimPrefix(k, tgt+".")]; ok {
									stored = v
								}
							}
						}
					}
					for _, k := range seqKeys {
						if k == tgt {
							stored = e.Args[0]
						}
					}
				}
				if e.Kind == "call" && e.Fn != nil && (e.Fn.Name() == "AddNamedImport" || e.Fn.Name() == "AddImport") {
					added = e.Args
				}
			}
			if present == "" {
				if added == nil {
					err = fmt.Errorf("seq is not imported by the file and no import is added")
				} else if stored == nil || !sameAV(stored, added[2]) {
					err = fmt.Errorf("generated code refers to seq as %v but the import is added under %v", stored, added[2])
				}
			} else {
				if added != nil {
					err = fmt.Errorf("a second import of seq is added although the file imports it")
				} else if got, _ := asString(stored); present == "imported" && got != "sq" {
					err = fmt.Errorf("generated code refers to seq as %v instead of the name the file imports it under", stored)
				} else if present == "default" && got != realName {
					err = fmt.Errorf("the file imports seq without a name of its own, so it is known as %q there, but generated code refers to it as %v", realName, stored)
				}
			}
		}
		if !seen {
			c.und("RW.IMPORT", construct, pos, "no complete path through rewriteFile")
			continue
		}
		c.check(err == nil, "RW.IMPORT", construct, pos, "the name used for seq in generated code is the name it is imported under", fmt.Sprint(err))
	}
}

var _ ssa.Value
