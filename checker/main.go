package main

// gocoverif — static analysis deciding structural necessary conditions of the
// go-co properties C01..C18. See /verif/DESIGN.md.
//
//	gocoverif check <id> [--tier quick|thorough] [--repo DIR] [--verif DIR]
//	gocoverif list
//	gocoverif dump <what>        (debug helpers: tables, templates)
//
// Nothing here runs the rewriter, the seq runtime, their tests or any generated
// program. Every verdict is derived from the type-checked syntax and SSA of
// the current source tree.

import (
	"fmt"
	"os"
	"path/filepath"
	"sort"
	"strconv"
	"time"
)

type propSpec struct {
	ID          string
	Explanation string
	Trusted     []string
	Run         func(c *Ctx)
	// Controls: names of overlay controls run in the quick tier (thorough runs all for the rules involved)
	QuickControls []string
	Rules         []string
}

var props = map[string]propSpec{}

func register(p propSpec) { props[p.ID] = p }

func main() {
	if len(os.Args) < 2 {
		usage()
	}
	switch os.Args[1] {
	case "list":
		var ids []string
		for id := range props {
			ids = append(ids, id)
		}
		sort.Strings(ids)
		for _, id := range ids {
			fmt.Println(id)
		}
	case "check":
		os.Exit(cmdCheck(os.Args[2:]))
	case "sweep":
		os.Exit(cmdSweep(os.Args[2:]))
	case "dump":
		os.Exit(cmdDump(os.Args[2:]))
	case "control":
		os.Exit(cmdControl(os.Args[2:]))
	default:
		usage()
	}
}

func usage() {
	fmt.Fprintln(os.Stderr, "usage: gocoverif check <Cxx> [--tier quick|thorough] [--repo DIR] [--verif DIR] | list | dump <what>")
	os.Exit(2)
}

type opts struct {
	id, tier, repo, verif string
	seed                  int64
	noControls            bool
}

func parseOpts(args []string) opts {
	o := opts{tier: os.Getenv("VERIF_TIER"), repo: os.Getenv("GOCO_REPO"), verif: os.Getenv("GOCO_VERIF")}
	if s := os.Getenv("VERIF_SEED"); s != "" {
		o.seed, _ = strconv.ParseInt(s, 10, 64)
	}
	for i := 0; i < len(args); i++ {
		switch args[i] {
		case "--tier":
			i++
			o.tier = args[i]
		case "--repo":
			i++
			o.repo = args[i]
		case "--verif":
			i++
			o.verif = args[i]
		case "--no-controls":
			o.noControls = true
		default:
			if o.id == "" {
				o.id = args[i]
			}
		}
	}
	if o.tier != "thorough" {
		o.tier = "quick"
	}
	if o.repo == "" {
		o.repo = "/repo"
	}
	if o.verif == "" {
		// default: directory above the binary's directory, else /verif
		o.verif = "/verif"
		if exe, err := os.Executable(); err == nil {
			d := filepath.Dir(filepath.Dir(exe))
			if _, err := os.Stat(filepath.Join(d, "MANIFEST.json")); err == nil {
				o.verif = d
			}
		}
	}
	return o
}

// cmdSweep runs the quick tier of every property on one load of the tree (controls off) and prints one
// summary line. It is a tool for the seeded-change matrix and the mutation sweep (tools/), not a registered check.
func cmdSweep(args []string) int {
	o := parseOpts(args)
	o.tier = "quick"
	var ids []string
	for id := range props {
		ids = append(ids, id)
	}
	sort.Strings(ids)
	w, err := loadWorld(o.repo, nil)
	var failed []string
	for _, id := range ids {
		spec := props[id]
		start := time.Now()
		c := newCtx(id, o.tier, o.seed, w)
		if err == nil {
			c.guard("META.RUN", func() { spec.Run(c) })
		}
		if c.finish(o.verif, spec, start, err) != 0 {
			failed = append(failed, id)
		}
	}
	fmt.Printf("SWEEP failed:%s\n", func() string {
		s := ""
		for _, f := range failed {
			s += " " + f
		}
		return s
	}())
	if len(failed) > 0 {
		return 1
	}
	return 0
}

func cmdCheck(args []string) int {
	o := parseOpts(args)
	spec, ok := props[o.id]
	if !ok {
		fmt.Fprintf(os.Stderr, "unknown property %q\n", o.id)
		return 2
	}
	start := time.Now()
	w, err := loadWorld(o.repo, nil)
	c := newCtx(o.id, o.tier, o.seed, w)
	if o.tier == "thorough" {
		// deeper exploration bounds
		maxBodyCalls, maxResumes = 4, 3
		termDeep = true
		genHistDepth = 8
	}
	if err == nil {
		c.guard("META.RUN", func() { spec.Run(c) })
		if !o.noControls {
			runControls(c, spec, o)
		}
	}
	return c.finish(o.verif, spec, start, err)
}
