package main

// K0 — loading. Everything the rules look at comes from here: the type-checked
// syntax and the SSA form of /repo's *current* working tree.

import (
	"fmt"
	"go/token"
	"go/types"
	"os"
	"path/filepath"
	"sort"
	"strings"

	"golang.org/x/tools/go/packages"
	"golang.org/x/tools/go/ssa"
	"golang.org/x/tools/go/ssa/ssautil"
)

const (
	modPath    = "github.com/goghcrow/go-co"
	pathCo     = modPath
	pathSeq    = modPath + "/seq"
	pathRw     = modPath + "/rewriter"
	pathCogen  = modPath + "/cmd/cogen"
	minPkgs    = 4
	minSrcFunc = 60
)

// World is the loaded program.
type World struct {
	Repo string
	Fset *token.FileSet
	Pkgs map[string]*packages.Package // by import path
	Prog *ssa.Program
	SSA  map[string]*ssa.Package // by import path
	// all source functions (incl. nested closures) of the four packages
	Funcs []*ssa.Function
	// Overlay used (for controls); nil for the real tree
	Overlay map[string][]byte
	// globalFacts: what the package initialisers store into package-level variables that nothing else ever
	// writes (tables), by symbolic location key; computed on first use (globals.go)
	globalFacts   map[string]AV
	globalUnknown map[string]bool
	globalFinal   map[string]bool // by variable name (two analysed packages never share one)
}

// UndecidedError is raised (panic) when the analysis cannot locate or
// interpret a construct it needs. It is never silently turned into a pass.
type UndecidedError struct{ Msg string }

func (e UndecidedError) Error() string { return e.Msg }

func undecided(format string, a ...any) {
	panic(UndecidedError{fmt.Sprintf(format, a...)})
}

func loadWorld(repo string, overlay map[string][]byte) (*World, error) {
	abs, err := filepath.Abs(repo)
	if err != nil {
		return nil, err
	}
	env := []string{}
	for _, e := range os.Environ() {
		if strings.HasPrefix(e, "GOFLAGS=") || strings.HasPrefix(e, "GOWORK=") ||
			strings.HasPrefix(e, "GOPROXY=") || strings.HasPrefix(e, "GOSUMDB=") ||
			strings.HasPrefix(e, "GOTOOLCHAIN=") {
			continue
		}
		env = append(env, e)
	}
	env = append(env, "GOFLAGS=-mod=mod", "GOPROXY=off", "GOSUMDB=off", "GOWORK=off", "GOTOOLCHAIN=local")
	fset := token.NewFileSet()
	cfg := &packages.Config{
		Mode: packages.NeedName | packages.NeedFiles | packages.NeedCompiledGoFiles |
			packages.NeedImports | packages.NeedTypes | packages.NeedSyntax |
			packages.NeedTypesInfo | packages.NeedTypesSizes | packages.NeedModule,
		Dir:     abs,
		Env:     env,
		Fset:    fset,
		Overlay: overlay,
	}
	// never ./... : rewriter/test/out* are git-ignored leftovers that need not compile
	// go/ast is loaded with syntax too: its traversal functions (Inspect, Walk) are followed by some rules
	pkgs, err := packages.Load(cfg, ".", "./seq", "./rewriter", "./cmd/cogen", "go/ast")
	if err != nil {
		return nil, fmt.Errorf("load: %w", err)
	}
	var errs []string
	for _, p := range pkgs {
		for _, e := range p.Errors {
			errs = append(errs, e.Error())
		}
	}
	if len(errs) > 0 {
		return nil, fmt.Errorf("load/type errors: %s", strings.Join(errs, "; "))
	}
	if len(pkgs) < minPkgs {
		return nil, fmt.Errorf("expected %d packages, loaded %d", minPkgs, len(pkgs))
	}
	w := &World{Repo: abs, Fset: fset, Pkgs: map[string]*packages.Package{}, SSA: map[string]*ssa.Package{}, Overlay: overlay}
	for _, p := range pkgs {
		w.Pkgs[p.PkgPath] = p
	}
	for _, want := range []string{pathCo, pathSeq, pathRw, pathCogen} {
		if w.Pkgs[want] == nil {
			return nil, fmt.Errorf("package %s not loaded", want)
		}
	}
	prog, spkgs := ssautil.Packages(pkgs, ssa.BuilderMode(0))
	prog.Build()
	w.Prog = prog
	for i, sp := range spkgs {
		if sp == nil {
			return nil, fmt.Errorf("no SSA for %s", pkgs[i].PkgPath)
		}
		w.SSA[pkgs[i].PkgPath] = sp
	}
	for _, path := range []string{pathCo, pathSeq, pathRw, pathCogen} {
		w.Funcs = append(w.Funcs, w.FuncsOf(path)...)
	}
	if len(w.Funcs) < minSrcFunc {
		return nil, fmt.Errorf("only %d source functions found (expected >= %d)", len(w.Funcs), minSrcFunc)
	}
	return w, nil
}

// FuncsOf returns all source functions of a package incl. methods and nested
// closures, in a deterministic order.
func (w *World) FuncsOf(path string) []*ssa.Function {
	sp := w.SSA[path]
	if sp == nil {
		return nil
	}
	seen := map[*ssa.Function]bool{}
	var out []*ssa.Function
	var walk func(f *ssa.Function)
	walk = func(f *ssa.Function) {
		if f == nil || seen[f] {
			return
		}
		seen[f] = true
		if f.Synthetic == "" || len(f.Blocks) > 0 && f.Syntax() != nil {
			out = append(out, f)
		}
		for _, a := range f.AnonFuncs {
			walk(a)
		}
	}
	var names []string
	for n := range sp.Members {
		names = append(names, n)
	}
	sort.Strings(names)
	for _, n := range names {
		switch m := sp.Members[n].(type) {
		case *ssa.Function:
			if m.Synthetic == "" {
				walk(m)
			}
		case *ssa.Type:
			nt, ok := m.Type().(*types.Named)
			if !ok {
				continue
			}
			for i := 0; i < nt.NumMethods(); i++ {
				f := w.Prog.FuncValue(nt.Method(i))
				if f != nil {
					walk(f)
				}
			}
		}
	}
	return out
}

// Func finds a package-level function by name.
func (w *World) Func(path, name string) *ssa.Function {
	sp := w.SSA[path]
	if sp == nil {
		undecided("package %s not loaded", path)
	}
	f := sp.Func(name)
	if f == nil {
		undecided("anchor function %s.%s not found", path, name)
	}
	return f
}

// FuncOpt is Func without the undecided panic.
func (w *World) FuncOpt(path, name string) *ssa.Function {
	sp := w.SSA[path]
	if sp == nil {
		return nil
	}
	return sp.Func(name)
}

// Method finds method `name` of named type `typ` in package path.
func (w *World) Method(path, typ, name string) *ssa.Function {
	f := w.MethodOpt(path, typ, name)
	if f == nil {
		undecided("anchor method %s.(%s).%s not found", path, typ, name)
	}
	return f
}

func (w *World) MethodOpt(path, typ, name string) *ssa.Function {
	p := w.Pkgs[path]
	if p == nil {
		return nil
	}
	obj := p.Types.Scope().Lookup(typ)
	if obj == nil {
		return nil
	}
	nt, ok := obj.Type().(*types.Named)
	if !ok {
		return nil
	}
	for i := 0; i < nt.NumMethods(); i++ {
		if nt.Method(i).Name() == name {
			return w.Prog.FuncValue(nt.Method(i))
		}
	}
	return nil
}

func (w *World) Pos(p token.Pos) string {
	if !p.IsValid() {
		return "-"
	}
	pos := w.Fset.Position(p)
	rel, err := filepath.Rel(w.Repo, pos.Filename)
	if err != nil || strings.HasPrefix(rel, "..") {
		rel = pos.Filename
	}
	return fmt.Sprintf("%s:%d", rel, pos.Line)
}

func (w *World) FnPos(f *ssa.Function) string {
	if f == nil {
		return "-"
	}
	return w.Pos(f.Pos())
}

// relName gives a stable human name of a function: pkg.Func, pkg.(T).M, pkg.Func$1
func relName(f *ssa.Function) string {
	if f == nil {
		return "<nil>"
	}
	s := f.String()
	s = strings.ReplaceAll(s, modPath+"/", "")
	s = strings.ReplaceAll(s, modPath, "co")
	return s
}

// importedPkg returns the types.Package imported (directly) by pkg `from` under path.
func (w *World) importedPkg(from, path string) *types.Package {
	p := w.Pkgs[from]
	if p == nil {
		return nil
	}
	if ip := p.Imports[path]; ip != nil && ip.Types != nil {
		return ip.Types
	}
	for _, imp := range p.Types.Imports() {
		if imp.Path() == path {
			return imp
		}
	}
	return nil
}

// enclosingFuncName returns the outermost parent's name.
func outermost(fn *ssa.Function) *ssa.Function {
	for fn.Parent() != nil {
		fn = fn.Parent()
	}
	return fn
}
