package main

// ITER.* — the built-in range iterators of seq (property C10, used by C04).
//
// Each iterator is decided by an inductive argument over its abstract state,
// extracted by K1 from the SSA of its constructor, MoveNext and Current:
//   base: the state built by the constructor, advanced once;
//   step: a fully symbolic state, advanced once.
// Index iterators (integer, slice) must have key(first) = 0, key' = key+1 and
// guard key' < bound; the string iterator must advance by the width returned
// by the UTF-8 decoder applied to the remaining bytes and report the old
// offset; the map iterator must delegate to reflect.MapRange; the channel
// iterator must report the comma-ok receive. Current must be pure.

import (
	"fmt"
	"go/constant"
	"go/types"
	"os"
	"sort"
	"strings"

	"golang.org/x/tools/go/ssa"
)

// formMismatch prefixes the detail of an obligation that failed because the iterator is not written in one of the
// forms the induction recognises (as opposed to: recognised, and wrong). Only such failures hand over to the bounded
// evaluation; a recognised form that violates the induction stays a violation.
const formMismatch = "not in a recognised inductive form: "

// canon renders an abstract value in a canonical form (commutative operands
// sorted, comparisons oriented, constants folded where K1 did not).
func canon(v AV) string {
	switch x := v.(type) {
	case nil:
		return "<none>"
	case Expr:
		var as []string
		for _, a := range x.Args {
			as = append(as, canon(a))
		}
		switch x.Op {
		case "+", "*", "==", "!=", "&", "|":
			sort.Strings(as)
			return x.Op + "(" + strings.Join(as, ",") + ")"
		case ">":
			return "<(" + as[1] + "," + as[0] + ")"
		case ">=":
			return "<=(" + as[1] + "," + as[0] + ")"
		case "!":
			if e, ok := x.Args[0].(Expr); ok {
				switch e.Op {
				case "<":
					return canon(Expr{Op: ">=", Args: e.Args})
				case "<=":
					return canon(Expr{Op: ">", Args: e.Args})
				case ">":
					return canon(Expr{Op: "<=", Args: e.Args})
				case ">=":
					return canon(Expr{Op: "<", Args: e.Args})
				}
			}
		}
		return x.Op + "(" + strings.Join(as, ",") + ")"
	case Zero:
		if c, ok := constOf(x); ok {
			return c.ExactString()
		}
		return "zero"
	case Const:
		return x.V.ExactString()
	case Sym:
		return "⟨" + epochRe.ReplaceAllString(x.Name, "") + "⟩"
	case Dyn:
		return canon(x.V)
	}
	return epochRe.ReplaceAllString(v.String(), "")
}

// condCanon renders an assumed condition as the canonical *true* statement.
func condCanon(c Cond) string {
	if c.Truth {
		return canon(c.V)
	}
	return canon(Expr{Op: "!", Args: []AV{c.V}})
}

type iterInfo struct {
	ctor     *ssa.Function
	typ      *types.Named
	moveNext *ssa.Function
	current  *ssa.Function
	base     *State // state after the constructor ran
	obj      Ref    // the iterator object in base
	dynT     types.Type
	fields   []string
}

func (s *seqRT) loadIter(rule, ctorName, argName string) *iterInfo {
	c := s.c
	fn := s.w.FuncOpt(pathSeq, ctorName)
	if fn == nil {
		undecided("constructor seq.%s not found (the rewriter emits calls to it)", ctorName)
	}
	c.fn("seq." + ctorName)
	in := s.interp()
	outs := in.Run(nil, fn, []AV{Sym{Name: argName}}, nil)
	s.account(in)
	if len(outs) != 1 || outs[0].Panicked || len(outs[0].Ret) != 1 {
		c.bad(rule, "seq."+ctorName+" constructor", s.w.FnPos(fn), "not in a recognised inductive form: constructor is not a single straight-line construction")
		return nil
	}
	d, ok := outs[0].Ret[0].(Dyn)
	if !ok {
		c.bad(rule, "seq."+ctorName+" constructor", s.w.FnPos(fn), "constructor does not return a concrete iterator object")
		return nil
	}
	r, ok := d.V.(Ref)
	if !ok || outs[0].St.Obj(r) == nil || outs[0].St.Obj(r).Kind != 's' {
		c.bad(rule, "seq."+ctorName+" constructor", s.w.FnPos(fn), "constructor does not return a freshly allocated iterator object (iterator state must be per call)")
		return nil
	}
	pt, _ := d.T.(*types.Pointer)
	if pt == nil {
		undecided("iterator %s is not a pointer type", d.T)
	}
	nt, _ := pt.Elem().(*types.Named)
	if nt == nil {
		undecided("iterator %s is not a named type", d.T)
	}
	info := &iterInfo{ctor: fn, typ: nt.Origin(), base: outs[0].St, obj: r, dynT: d.T}
	org := nt.Origin()
	for i := 0; i < org.NumMethods(); i++ {
		m := org.Method(i)
		f := bodyOf(s.w.Prog.FuncValue(m))
		switch m.Name() {
		case "MoveNext":
			info.moveNext = f
		case "Current":
			info.current = f
		}
	}
	if info.moveNext == nil || info.current == nil {
		undecided("iterator %s lacks MoveNext/Current", d.T)
	}
	c.fn(relName(info.moveNext))
	c.fn(relName(info.current))
	st, _ := nt.Underlying().(*types.Struct)
	if st == nil {
		undecided("iterator %s is not a struct", d.T)
	}
	info.fields = leafFields(st, "")
	return info
}

// leafFields: dotted paths of the scalar fields of a struct, descending into struct-typed (embedded) fields.
func leafFields(st *types.Struct, prefix string) []string {
	var out []string
	for i := 0; i < st.NumFields(); i++ {
		f := st.Field(i)
		if sub, ok := f.Type().Underlying().(*types.Struct); ok && f.Type().String() != "reflect.MapIter" && f.Type().String() != "reflect.Value" {
			out = append(out, leafFields(sub, prefix+f.Name()+".")...)
			continue
		}
		out = append(out, prefix+f.Name())
	}
	return out
}

// ff flattens the fields of a heap object (struct values nested by value) into dotted leaf names.
func ff(o *Obj) map[string]AV {
	out := map[string]AV{}
	if o == nil {
		return out
	}
	var walk func(prefix string, fields map[string]AV)
	walk = func(prefix string, fields map[string]AV) {
		for n, v := range fields {
			if sv, ok := v.(StructV); ok {
				walk(prefix+n+".", sv.Fields)
				continue
			}
			out[prefix+n] = v
		}
	}
	walk("", o.Fields)
	return out
}

// symbolicObj returns a state holding an iterator object whose fields are all symbols F:<name>.
func (info *iterInfo) symbolicObj() (*State, Ref) {
	st := newState()
	ust, _ := info.typ.Underlying().(*types.Struct)
	var build func(t *types.Struct, prefix string) map[string]AV
	build = func(t *types.Struct, prefix string) map[string]AV {
		f := map[string]AV{}
		for i := 0; i < t.NumFields(); i++ {
			fl := t.Field(i)
			if sub, ok := fl.Type().Underlying().(*types.Struct); ok && fl.Type().String() != "reflect.MapIter" && fl.Type().String() != "reflect.Value" {
				f[fl.Name()] = StructV{T: fl.Type(), Fields: build(sub, prefix+fl.Name()+".")}
				continue
			}
			f[fl.Name()] = Sym{Name: "F:" + prefix + fl.Name()}
		}
		return f
	}
	r := st.alloc(&Obj{T: info.typ, Kind: 's', Fields: build(ust, "")})
	return st, r
}

func (s *seqRT) runMethod(st *State, fn *ssa.Function, recv AV) []Outcome {
	in := s.interp()
	outs := in.Run(st.clone(), fn, []AV{recv}, nil)
	s.account(in)
	return outs
}

func pairField(v AV, name string) AV {
	if sv, ok := v.(StructV); ok {
		if f, ok := sv.Fields[name]; ok {
			return f
		}
		return Zero{}
	}
	return nil
}

// purity of Current on a symbolic state
func (s *seqRT) checkPure(info *iterInfo, rule, ctor string) (outs []Outcome, ok bool) {
	c := s.c
	st, r := info.symbolicObj()
	outs = s.runMethod(st, info.current, r)
	pure := true
	why := ""
	for _, o := range outs {
		before := st.heap[r.ID]
		after := o.St.heap[r.ID]
		for _, n := range info.fields {
			if !sameAV(ff(before)[n], ff(after)[n]) {
				pure = false
				why = "Current() modifies iterator field " + n
			}
		}
		for _, e := range o.St.Events {
			switch e.Kind {
			case "store", "recv", "send", "go", "defer", "mapupdate":
				pure = false
				why = "Current() has an effect: " + e.String()
			case "call":
				if e.Fn == nil || e.Fn.Pkg != nil && e.Fn.Pkg.Pkg.Path() != "reflect" {
					if e.Fn == nil || e.Fn.Object() == nil || e.Fn.Object().Pkg() == nil || e.Fn.Object().Pkg().Path() != "reflect" {
						pure = false
						why = "Current() calls " + e.Name()
					}
				}
				if e.Fn != nil && (e.Fn.Name() == "Next" || strings.HasPrefix(e.Fn.Name(), "Set")) {
					pure = false
					why = "Current() advances the underlying iterator: " + e.Name()
				}
			}
		}
	}
	c.check(pure, "ITER.PURE", "seq."+ctor+" Current()", s.w.FnPos(info.current), "Current() is a pure read of iterator state (the range template calls it up to twice per iteration)", why)
	return outs, pure
}

func (s *seqRT) ruleIterIndex(ctor, argName string, boundOf func(operand AV) string, elemCheck bool) {
	c := s.c
	rule := "ITER.IV"
	info := s.loadIter(rule, ctor, argName)
	if info == nil {
		return
	}
	pos := s.w.FnPos(info.moveNext)
	curOuts, _ := s.checkPure(info, rule, ctor)
	// which field is the key?
	if len(curOuts) != 1 || len(curOuts[0].Ret) != 1 {
		c.bad(rule, "seq."+ctor+" Current()", s.w.FnPos(info.current), "not in a recognised inductive form: Current() of an index iterator must be a single straight-line path")
		return
	}
	keyV := pairField(curOuts[0].Ret[0], "Key")
	// the key is an expression over the iterator's own integer fields (a field, or e.g. calls-1)
	keyForm, okForm := linForm(keyV)
	if !okForm || len(fieldSyms(keyV)) == 0 {
		c.und(rule, "seq."+ctor+" key field", s.w.FnPos(info.current), "Key of Current() is not computed from the iterator's position fields: "+canon(keyV))
		return
	}
	// operand field(s): fields of the base object holding the constructor's argument
	baseObj := info.base.Obj(info.obj)
	opField := ""
	for _, n := range info.fields {
		if isSymNamed(ff(baseObj)[n], argName) {
			opField = n
		}
	}
	if opField == "" {
		c.bad(rule, "seq."+ctor+" operand", s.w.FnPos(info.ctor), "the constructor does not keep its operand as is in the iterator (a copy or a derived value changes what later mutations of the collection look like); fields: "+info.base.Render(info.obj))
		return
	}
	// step
	st, r := info.symbolicObj()
	outs := s.runMethod(st, info.moveNext, r)
	if len(outs) == 2 {
		// the guarded form: `if pos >= bound { return false }; key = pos; pos++; return true`
		s.iterIndexGuarded(info, rule, ctor, argName, opField, keyV, boundOf, outs, r)
		if elemCheck {
			valV := pairField(curOuts[0].Ret[0], "Val")
			want := "⟨F:" + opField + "[" + canon(keyV) + "]⟩"
			want2 := "⟨F:" + opField + "[" + keyV.String() + "]⟩"
			c.check(canon(valV) == want || canon(valV) == want2, "ITER.LIVE", "seq."+ctor+" Current().Val", s.w.FnPos(info.current),
				"value is read from the operand's backing array at call time (live element read)",
				"expected the element "+want+" read at call time; got "+canon(valV))
		}
		return
	}
	if len(outs) != 1 || outs[0].Panicked || len(outs[0].Ret) != 1 {
		c.bad(rule, "seq."+ctor+" MoveNext step", pos, fmt.Sprintf("not in a recognised inductive form: MoveNext on a symbolic state has %d paths; expected one straight-line update or the guarded form (stop / advance)", len(outs)))
		return
	}
	after := outs[0].St.Obj(r)
	keyNext := substFields(keyV, ff(after))
	nextForm, okNext := linForm(keyNext)
	// fields the step never changes hold what the constructor put there (the operand, its length taken once):
	// they are replaced by that value, so that the rule speaks about the bound and not about where it is kept
	constF := map[string]AV{}
	for _, n := range info.fields {
		if v := ff(baseObj)[n]; v != nil && !keyFields0(keyV)[n] && sameAV(ff(after)[n], Sym{Name: "F:" + n}) {
			constF[n] = v
		}
	}
	bound := boundOf(Sym{Name: "F:" + opField})
	if _, ok := constF[opField]; ok {
		bound = boundOf(constF[opField])
	}
	wantNext := keyForm.plus(1)
	// the result, normalised to "X < 0": must be (key+1) - bound
	gotX, okG := guardForm(substSome(outs[0].Ret[0], constF))
	wantX := wantNext.minusAtom(bound)
	stepOK := okNext && okG && nextForm.equal(wantNext) && gotX.equal(wantX)
	detail := fmt.Sprintf("expected key' = key+1 (%s) and the result equivalent to key' < %s; got key' = %s and result %s", wantNext, bound, canon(keyNext), canon(outs[0].Ret[0]))
	keyFields := fieldSyms(keyV)
	for _, n := range info.fields {
		if !keyFields[n] && !sameAV(ff(after)[n], Sym{Name: "F:" + n}) {
			stepOK = false
			detail += " ; field " + n + " modified to " + canon(ff(after)[n])
		}
	}
	c.check(stepOK, rule, "seq."+ctor+" step", pos,
		"MoveNext: key' = key+1, continues iff key' < "+bound+", operand untouched", detail)
	// base
	outs0 := s.runMethod(info.base, info.moveNext, info.obj)
	if len(outs0) != 1 || outs0[0].Panicked || len(outs0[0].Ret) != 1 {
		c.bad(rule, "seq."+ctor+" first advance", pos, "first MoveNext is not a single path")
		return
	}
	first := substFields(keyV, ff(outs0[0].St.Obj(info.obj)))
	fk, isInt := evalIntExpr(first, nil)
	bound0 := boundOf(Sym{Name: argName})
	gotX0, okG0 := guardForm(outs0[0].Ret[0])
	wantX0 := linearForm{terms: map[string]int64{}}.minusAtom(bound0)
	c.check(isInt && fk == 0 && okG0 && gotX0.equal(wantX0), rule, "seq."+ctor+" first advance", pos,
		"first key is 0 and the loop is entered iff 0 < "+bound0+" (nothing for an empty / non-positive operand)",
		fmt.Sprintf("expected first key 0 under a guard equivalent to 0 < %s; got key %s under guard %s", bound0, canon(first), canon(outs0[0].Ret[0])))
	if elemCheck {
		valV := pairField(curOuts[0].Ret[0], "Val")
		want := "⟨F:" + opField + "[" + canon(keyV) + "]⟩"
		want2 := "⟨F:" + opField + "[" + keyV.String() + "]⟩"
		c.check(canon(valV) == want || canon(valV) == want2, "ITER.LIVE", "seq."+ctor+" Current().Val", s.w.FnPos(info.current),
			"value is read from the operand's backing array at call time (live element read)",
			"expected the element "+want+" read at call time; got "+canon(valV))
	}
}

func keyFields0(keyV AV) map[string]bool { return fieldSyms(keyV) }

// condForm normalises a path condition over integers to "X < 0" (X linear) and returns X.
func condForm(cd Cond) (linearForm, bool) {
	v, truth := cd.V, cd.Truth
	for {
		e, ok := v.(Expr)
		if ok && e.Op == "!" && len(e.Args) == 1 {
			v, truth = e.Args[0], !truth
			continue
		}
		break
	}
	x, ok := guardForm(v)
	if !ok {
		return linearForm{}, false
	}
	if !truth { // not (x < 0)  <=>  -x - 1 < 0
		n := linearForm{terms: map[string]int64{}, c: -x.c - 1}
		for k, t := range x.terms {
			n.terms[k] = -t
		}
		x = n
	}
	return x, true
}

// iterIndexGuarded: the index iterator written with a stop test in front of the update. Induction over the
// position P read off the stop test (stop <=> P >= bound): P starts at 0; an advance delivers Key = P and
// moves P to P+1, leaving the operand alone; a stop changes nothing. So the keys are 0, 1, 2, ... and the
// iteration ends exactly when P reaches the bound — for every operand.
func (s *seqRT) iterIndexGuarded(info *iterInfo, rule, ctor, argName, opField string, keyV AV, boundOf func(AV) string, outs []Outcome, r Ref) {
	c := s.c
	pos := s.w.FnPos(info.moveNext)
	var stop, adv *Outcome
	for i := range outs {
		o := &outs[i]
		if o.Panicked || len(o.Ret) != 1 {
			c.bad(rule, "seq."+ctor+" MoveNext step", pos, "MoveNext can panic on a symbolic state")
			return
		}
		if b, known := asBool(o.Ret[0]); known && !b && stop == nil {
			stop = o
		} else if known && b && adv == nil {
			adv = o
		}
	}
	if stop == nil || adv == nil || len(stop.St.Conds) != 1 {
		c.bad(rule, "seq."+ctor+" MoveNext step", pos, "expected one path that reports false under a single stop test and one that advances and reports true")
		return
	}
	bound := boundOf(Sym{Name: "F:" + opField})
	posOf := func(cd Cond, boundAtom string) (linearForm, bool) { // stop <=> bound - P - 1 < 0
		x, ok := condForm(cd)
		if !ok {
			return linearForm{}, false
		}
		p := linearForm{terms: map[string]int64{boundAtom: 1}, c: -x.c - 1}
		for k, t := range x.terms {
			p.terms[k] -= t
		}
		if p.terms[boundAtom] != 0 {
			return linearForm{}, false
		}
		delete(p.terms, boundAtom)
		return p, true
	}
	P, okP := posOf(stop.St.Conds[0], bound)
	if !okP {
		c.bad(rule, "seq."+ctor+" step", pos, "the stop test is not of the form position >= "+bound+": "+condCanon(stop.St.Conds[0]))
		return
	}
	after := ff(adv.St.Obj(r))
	keyNext, okK := linForm(substFields(keyV, after))
	P1, okP1 := posOf(Cond{V: substFields(stop.St.Conds[0].V, after), Truth: stop.St.Conds[0].Truth}, bound)
	stepOK := okK && okP1 && keyNext.equal(P) && P1.equal(P.plus(1)) && sameAV(after[opField], Sym{Name: "F:" + opField})
	for _, n := range info.fields {
		if !sameAV(ff(stop.St.Obj(r))[n], Sym{Name: "F:" + n}) {
			stepOK = false
		}
	}
	c.check(stepOK, rule, "seq."+ctor+" step", pos,
		"MoveNext: stops iff position >= "+bound+" (changing nothing); otherwise key = position, position' = position+1, operand untouched",
		fmt.Sprintf("expected key' = %s and position' = %s; got key' = %s, position' = %s", P, P.plus(1), canon(substFields(keyV, after)), P1))
	// base
	base := ff(info.base.Obj(info.obj))
	bound0 := boundOf(Sym{Name: argName})
	P0, ok0 := posOf(Cond{V: substFields(stop.St.Conds[0].V, base), Truth: stop.St.Conds[0].Truth}, bound0)
	zero := linearForm{terms: map[string]int64{}}
	c.check(ok0 && P0.equal(zero), rule, "seq."+ctor+" first advance", pos,
		"the position starts at 0: the first key is 0 and the loop is entered iff 0 < "+bound0+" (nothing for an empty / non-positive operand)",
		fmt.Sprintf("initial position is %s", P0))
}

func (s *seqRT) ruleIterString() {
	c := s.c
	rule := "ITER.STR"
	ctor := "NewStringIter"
	info := s.loadIter(rule, ctor, "str")
	if info == nil {
		return
	}
	pos := s.w.FnPos(info.moveNext)
	s.checkPure(info, rule, ctor)
	baseObj := info.base.Obj(info.obj)
	baseF := ff(baseObj)
	st, r := info.symbolicObj()
	outs := s.runMethod(st, info.moveNext, r)
	var stop *Outcome
	var advs []*Outcome
	for i := range outs {
		o := &outs[i]
		if o.Panicked {
			c.bad(rule, "seq."+ctor+" MoveNext", pos, "MoveNext can panic", o.St.TraceStrings()...)
			return
		}
		if b, ok := asBool(o.Ret[0]); ok && !b {
			if stop != nil {
				c.bad(rule, "seq."+ctor+" exhaustion", pos, "MoveNext reports false on more than one path: besides pos >= len(str) there is another way to stop early", o.St.TraceStrings()...)
				return
			}
			stop = o
		} else if ok && b {
			advs = append(advs, o)
		} else {
			c.bad(rule, "seq."+ctor+" MoveNext", pos, "MoveNext's result is not a definite boolean on some path")
			return
		}
	}
	if stop == nil || len(advs) == 0 {
		c.bad(rule, "seq."+ctor+" MoveNext", pos, fmt.Sprintf("expected one exhausted path and at least one advancing path; got %d paths", len(outs)))
		return
	}
	// Every advancing path is either
	//  (a) the decode path: exactly one utf8.DecodeRune[InString] on str[pos:], pos' = pos + returned width,
	//      key = old pos, value = returned rune; or
	//  (b) a single-byte fast path: the path condition establishes str[pos] < utf8.RuneSelf, nothing is
	//      called, pos' = pos + 1, key = old pos, value = rune(str[pos]).
	// The paths partition the inputs, so together with the single exhausted path this is Go's range over a string.
	// Fields that no path of MoveNext changes hold the value the constructor gave them throughout (the operand
	// string, its length, ...): they are replaced by that value, so that the rule speaks about the remaining
	// input and not about how the iterator happens to represent it (str+offset, the unconsumed suffix, ...).
	constF := map[string]AV{}
	for _, n := range info.fields {
		unchanged := true
		for _, o := range append(append([]*Outcome{}, advs...), stop) {
			if !sameAV(ff(o.St.Obj(r))[n], Sym{Name: "F:" + n}) {
				unchanged = false
			}
		}
		if v := baseF[n]; unchanged && v != nil {
			constF[n] = v
		}
	}
	subst0 := func(v AV) AV { return normStr(substSome(v, constF)) }
	// keyIs: the delivered key equals the offset of the remaining input — directly, or because the iterator keeps
	// the offset in a field of its own next to the remaining input and "field = offset" is an inductive invariant:
	// it holds for the constructed state and every advancing path changes both sides by the same amount.
	keyIs := func(kv, wantK AV) bool {
		if sameLin(kv, wantK) {
			return true
		}
		D := Expr{Op: "-", Args: []AV{kv, wantK}}
		if !sameLin(normStr(substFields(substSome(D, constF), baseF)), mkInt(0)) {
			return false
		}
		for _, adv := range advs {
			if !sameLin(subst0(substSome(D, ff(adv.St.Obj(r)))), subst0(D)) {
				return false
			}
		}
		return true
	}
	var remB, remO AV // the remaining input, as base[off:] over the pre-state
	decodePaths, fastPaths := 0, 0
	// the decoder's argument on a decode path: the remaining input as the iterator represents it
	var rawArg AV
	for _, adv := range advs {
		for _, e := range adv.St.Events {
			if e.Kind == "call" && e.Fn != nil && e.Fn.Object() != nil && e.Fn.Object().Pkg() != nil && e.Fn.Object().Pkg().Path() == "unicode/utf8" &&
				(e.Fn.Name() == "DecodeRuneInString" || e.Fn.Name() == "DecodeRune") && len(e.Args) > 0 && rawArg == nil {
				rawArg = e.Args[0]
			}
		}
	}
	for _, adv := range advs {
		var calls []*Event
		for i, e := range adv.St.Events {
			if e.Kind == "call" {
				calls = append(calls, &adv.St.Events[i])
			}
		}
		after := adv.St.Obj(r)
		cur := s.runMethod(adv.St, info.current, r)
		if len(cur) != 1 || len(cur[0].Ret) != 1 {
			c.bad(rule, "seq."+ctor+" Current after advance", s.w.FnPos(info.current), "Current is not a single path")
			return
		}
		k := canon(pairField(cur[0].Ret[0], "Key"))
		v := canon(pairField(cur[0].Ret[0], "Val"))
		if len(calls) == 0 {
			// (b) single-byte fast path, stated over the remaining input R(σ) = B[O:] (the decoder's argument on the
			// decode paths): the path condition establishes R(σ)[0] < utf8.RuneSelf, R(σ') = R(σ)[1:], Key is the
			// offset of R(σ) in the operand, Val the byte R(σ)[0].
			if rawArg == nil {
				c.bad(rule, "seq."+ctor+" decode", pos, "no advancing path decodes a UTF-8 sequence")
				return
			}
			Braw, Oraw, okRaw := suffixOf(normStr(rawArg))
			bsym, isSym := Braw.(Sym)
			if !okRaw || !isSym {
				c.bad(rule, "seq."+ctor+" fast path", pos, formMismatch+"an advancing path without a decoder call, and the remaining input is not a field or a suffix of a field", adv.St.TraceStrings()...)
				return
			}
			byteAt := "⟨" + epochRe.ReplaceAllString(bsym.Name, "") + "[" + canon(Oraw) + "]⟩"
			established := false
			var conds []string
			for _, cd := range adv.St.Conds {
				cc := condCanon(cd)
				conds = append(conds, cc)
				// R(σ)[0] < 128, possibly through a conversion to rune/int
				if strings.HasPrefix(cc, "<(") && strings.HasSuffix(cc, ",128)") && strings.Contains(cc, byteAt) && !strings.Contains(cc, "+(") {
					established = true
				}
			}
			if !established {
				c.bad(rule, "seq."+ctor+" fast path", pos, "a path that does not call the decoder is taken without establishing that the first byte of the remaining input ("+byteAt+") is below utf8.RuneSelf (a multi-byte or invalid sequence would be split into bytes): conditions "+strings.Join(conds, " ; "))
				return
			}
			B, O, okB := suffixOf(subst0(rawArg))
			B1, O1, ok1 := suffixOf(subst0(substSome(rawArg, ff(after))))
			okAdv := okB && ok1 && canon(B1) == canon(B) && sameLin(O1, Expr{Op: "+", Args: []AV{O, mkInt(1)}})
			okKey := false
			if okB {
				wantK := Expr{Op: "+", Args: []AV{Expr{Op: "-", Args: []AV{Expr{Op: "len", Args: []AV{Sym{Name: "str"}}}, Expr{Op: "len", Args: []AV{B}}}}, O}}
				okKey = keyIs(subst0(pairField(cur[0].Ret[0], "Key")), wantK)
			}
			okVal := strings.Contains(v, byteAt) && !strings.Contains(v, "+(")
			c.check(okAdv && okKey && okVal, rule, "seq."+ctor+" fast path", pos, "single-byte fast path: guarded by remaining[0] < utf8.RuneSelf, key = offset of the remaining input, value = rune(remaining[0]), remaining' = remaining[1:]",
				fmt.Sprintf("fast path: remaining input advanced by one byte: %v; Key is the offset before the advance: %v (Key = %s); Val is the byte at it: %v (Val = %s)", okAdv, okKey, k, okVal, v))
			fastPaths++
			continue
		}
		if len(calls) != 1 {
			c.bad(rule, "seq."+ctor+" MoveNext", pos, "more than one call on an advancing path", adv.St.TraceStrings()...)
			return
		}
		dec := calls[0]
		okDec := dec.Fn != nil && dec.Fn.Object() != nil && dec.Fn.Object().Pkg() != nil && dec.Fn.Object().Pkg().Path() == "unicode/utf8" &&
			(dec.Fn.Name() == "DecodeRuneInString" || dec.Fn.Name() == "DecodeRune")
		if !okDec {
			c.bad(rule, "seq."+ctor+" decode", pos, "the advancing path does not decode the next UTF-8 sequence with unicode/utf8.DecodeRune[InString] (byte offsets and U+FFFD/width 1 for invalid bytes cannot be obtained otherwise)", adv.St.TraceStrings()...)
			return
		}
		// The decoder's argument, as an expression R(σ) over the iterator state σ before the advance, is "the
		// remaining input". Induction: R(σ0) = str for the constructed state; R(σ') = R(σ)[w:] with w the width
		// the decoder returned; MoveNext reports false iff R(σ) is empty. Then R(σ) is always a suffix of str and
		// the offset of the rune decoded from it is len(str) - len(R(σ)), which is what Current().Key must be.
		arg := dec.Args[0]
		B, O, okR := suffixOf(subst0(arg))
		if !okR || len(fieldSyms(subst0(arg))) == 0 {
			c.bad(rule, "seq."+ctor+" decode", pos, "decoder is not applied to the remaining input (a suffix x[pos:] or a field holding the unconsumed suffix, computed from the iterator's own state); got argument "+canon(arg))
			return
		}
		remB, remO = B, O
		rv := fmt.Sprintf("ret:%s#", dec.Name())
		B1, O1, ok1 := suffixOf(subst0(substSome(arg, ff(after))))
		var r0, r1 string
		if ok1 {
			for n := range allSyms(O1) {
				if strings.HasPrefix(n, rv) && strings.HasSuffix(n, "#1") {
					r1 = "⟨" + n + "⟩"
				}
			}
		}
		if r1 == "" {
			c.bad(rule, "seq."+ctor+" advance", pos, "the remaining input is not advanced by the width returned by the decoder (e.g. by RuneLen of the rune, which is 3 for an invalid byte decoded as U+FFFD with width 1); got "+canon(subst0(substSome(arg, ff(after)))))
			return
		}
		r0 = strings.TrimSuffix(r1, "#1⟩") + "#0⟩"
		wantO := Expr{Op: "+", Args: []AV{O, Sym{Name: strings.Trim(r1, "⟨⟩")}}}
		c.check(ok1 && canon(B1) == canon(B) && sameLin(O1, wantO), rule, "seq."+ctor+" advance", pos, "remaining' = remaining[width returned by the decoder:]", "expected the remaining input to shrink by exactly the decoder's width: "+canon(B)+"["+canon(wantO)+":]; got "+canon(subst0(substSome(arg, ff(after)))))
		// Key = len(str) - len(R(σ)) = len(str) - len(B) + O
		wantK := Expr{Op: "+", Args: []AV{Expr{Op: "-", Args: []AV{Expr{Op: "len", Args: []AV{Sym{Name: "str"}}}, Expr{Op: "len", Args: []AV{B}}}}, O}}
		kv := subst0(pairField(cur[0].Ret[0], "Key"))
		c.check(keyIs(kv, wantK) && v == r0, rule, "seq."+ctor+" Current after advance", s.w.FnPos(info.current),
			"Key is the byte offset the rune was decoded at, Val the decoded rune",
			"expected Key = offset of the decoded sequence ("+linString(wantK)+") and Val = "+r0+"; got Key = "+canon(kv)+", Val = "+v)
		decodePaths++
	}
	if decodePaths == 0 {
		c.bad(rule, "seq."+ctor+" decode", pos, "no advancing path decodes a UTF-8 sequence")
		return
	}
	// stop condition: iff the remaining input is empty
	remLen := Expr{Op: "-", Args: []AV{Expr{Op: "len", Args: []AV{remB}}, remO}}
	okStop := len(stop.St.Conds) == 1 && emptyCond(Cond{V: subst0(stop.St.Conds[0].V), Truth: stop.St.Conds[0].Truth}, remLen, remB, remO)
	gotStop := ""
	for _, cd := range stop.St.Conds {
		gotStop += condCanon(cd) + " "
	}
	c.check(okStop, rule, "seq."+ctor+" exhaustion", pos, "reports false iff the remaining input is empty, and changes nothing then", "expected the single stop condition len(remaining) <= 0 with remaining = "+canon(remB)+"["+canon(remO)+":]; got "+gotStop)
	for _, n := range info.fields {
		if !sameAV(ff(stop.St.Obj(r))[n], Sym{Name: "F:" + n}) {
			c.bad(rule, "seq."+ctor+" exhaustion", pos, "exhausted MoveNext modifies field "+n)
		}
	}
	_ = fastPaths
	// base: the remaining input of the freshly constructed iterator is the whole operand
	B0, O0, ok0 := suffixOf(normStr(substFields(substSome(remSlice(remB, remO), constF), baseF)))
	c.check(ok0 && canon(B0) == "⟨str⟩" && sameLin(O0, mkInt(0)), rule, "seq."+ctor+" initial position", s.w.FnPos(info.ctor), "decoding starts at byte offset 0 of the operand", "initially the remaining input is "+canon(normStr(substFields(remSlice(remB, remO), baseF)))+", not the operand string")
}

func remSlice(b, o AV) AV { return Expr{Op: "slice", Args: []AV{b, o, Nil{}}} }

// substSome replaces the field symbols F:<name> that have an entry in fields and leaves the others alone.
func substSome(v AV, fields map[string]AV) AV {
	switch x := v.(type) {
	case Sym:
		if strings.HasPrefix(x.Name, "F:") {
			if f, ok := fields[strings.TrimPrefix(x.Name, "F:")]; ok && f != nil {
				return f
			}
		}
		return x
	case Expr:
		args := make([]AV, len(x.Args))
		for i, a := range x.Args {
			args[i] = substSome(a, fields)
		}
		return Expr{Op: x.Op, Args: args}
	}
	return v
}

// normStr normalises suffix expressions: x[a:][b:] = x[a+b:], x[0:] = x, len(x[a:]) = len(x) - a
// (valid for 0 <= a <= len(x), which the bounds check of the slice expression itself enforces).
func normStr(v AV) AV {
	e, ok := v.(Expr)
	if !ok {
		return v
	}
	args := make([]AV, len(e.Args))
	for i, a := range e.Args {
		args[i] = normStr(a)
	}
	e = Expr{Op: e.Op, Args: args}
	isZero := func(a AV) bool {
		if a == nil {
			return true
		}
		switch a.(type) {
		case Nil, Zero:
			return true
		}
		l, ok := linForm(a)
		if !ok || l.c != 0 {
			return false
		}
		for _, t := range l.terms {
			if t != 0 {
				return false
			}
		}
		return true
	}
	openEnd := func(x Expr) bool {
		if len(x.Args) != 3 {
			return false
		}
		_, hiNil := x.Args[2].(Nil)
		return hiNil || x.Args[2] == nil
	}
	switch e.Op {
	case "slice":
		if !openEnd(e) {
			return e
		}
		if isZero(e.Args[1]) {
			return e.Args[0]
		}
		if in, ok := e.Args[0].(Expr); ok && in.Op == "slice" && openEnd(in) {
			return Expr{Op: "slice", Args: []AV{in.Args[0], Expr{Op: "+", Args: []AV{in.Args[1], e.Args[1]}}, Nil{}}}
		}
	case "len":
		if len(e.Args) == 1 {
			if in, ok := e.Args[0].(Expr); ok && in.Op == "slice" && openEnd(in) {
				return Expr{Op: "-", Args: []AV{Expr{Op: "len", Args: []AV{in.Args[0]}}, in.Args[1]}}
			}
		}
	}
	return e
}

// suffixOf splits a normalised string expression into base[off:].
func suffixOf(v AV) (base, off AV, ok bool) {
	v = normStr(v)
	if e, isE := v.(Expr); isE {
		if e.Op == "slice" && len(e.Args) == 3 {
			if _, hiNil := e.Args[2].(Nil); hiNil {
				if _, inner := e.Args[0].(Expr); !inner {
					return e.Args[0], e.Args[1], true
				}
			}
		}
		return nil, nil, false
	}
	if _, isSym := v.(Sym); isSym {
		return v, mkInt(0), true
	}
	return nil, nil, false
}

func sameLin(a, b AV) bool {
	la, ok1 := linForm(normStr(a))
	lb, ok2 := linForm(normStr(b))
	if !ok1 || !ok2 {
		return false
	}
	if la.c != lb.c {
		return false
	}
	for k, v := range la.terms {
		if lb.terms[k] != v {
			return false
		}
	}
	for k, v := range lb.terms {
		if la.terms[k] != v {
			return false
		}
	}
	return true
}

func linString(a AV) string {
	l, ok := linForm(normStr(a))
	if !ok {
		return canon(a)
	}
	return l.String()
}

// emptyCond: does the branch condition (with its truth value) say exactly "remLen <= 0", remLen being the
// length of a suffix (so >= 0: `== 0` and `<= 0`, `< 1` are the same statement)?
func emptyCond(cd Cond, remLen, remB, remO AV) bool {
	e, ok := cd.V.(Expr)
	if !ok {
		return false
	}
	for e.Op == "!" && len(e.Args) == 1 {
		in, ok := e.Args[0].(Expr)
		if !ok {
			return false
		}
		e, cd.Truth = in, !cd.Truth
	}
	if len(e.Args) != 2 {
		return false
	}
	want, okW := linForm(normStr(Expr{Op: "-", Args: []AV{remLen, mkInt(1)}})) // remLen - 1 < 0
	if !okW {
		return false
	}
	eqLin := func(x, y linearForm) bool {
		if x.c != y.c {
			return false
		}
		for k, v := range x.terms {
			if y.terms[k] != v {
				return false
			}
		}
		for k, v := range y.terms {
			if x.terms[k] != v {
				return false
			}
		}
		return true
	}
	switch e.Op {
	case "<", "<=", ">", ">=":
		g, ok := guardForm(Expr{Op: e.Op, Args: []AV{normStr(e.Args[0]), normStr(e.Args[1])}})
		if !ok {
			return false
		}
		if !cd.Truth { // not (g < 0)  <=>  -g - 1 < 0
			n := linearForm{terms: map[string]int64{}, c: -g.c - 1}
			for k, v := range g.terms {
				n.terms[k] = -v
			}
			g = n
		}
		return eqLin(g, want)
	case "==", "!=":
		if (e.Op == "==") != cd.Truth {
			return false
		}
		// remaining == "" or len(remaining) == 0
		for i := 0; i < 2; i++ {
			a, b := e.Args[i], e.Args[1-i]
			if cst, ok := b.(Const); ok {
				if cst.String() == `""` {
					if B, O, ok := suffixOf(a); ok && canon(B) == canon(remB) && sameLin(O, remO) {
						return true
					}
				}
				if n, ok := asInt(cst); ok && n == 0 && sameLin(a, remLen) {
					return true
				}
			}
			if _, isZ := b.(Zero); isZ && sameLin(a, remLen) {
				return true
			}
		}
	}
	return false
}

// fieldSyms: names of the iterator fields (symbols "F:<name>") occurring in v.
func fieldSyms(v AV) map[string]bool {
	out := map[string]bool{}
	for n := range allSyms(v) {
		if strings.HasPrefix(n, "F:") {
			out[strings.TrimPrefix(n, "F:")] = true
		}
	}
	return out
}

func allSyms(v AV) map[string]bool {
	out := map[string]bool{}
	var walk func(AV)
	walk = func(v AV) {
		switch x := v.(type) {
		case Sym:
			out[x.Name] = true
		case Expr:
			for _, a := range x.Args {
				walk(a)
			}
		case Dyn:
			walk(x.V)
		}
	}
	walk(v)
	return out
}

// substFields replaces every field symbol F:<name> by the field's value.
func substFields(v AV, fields map[string]AV) AV {
	switch x := v.(type) {
	case Sym:
		if strings.HasPrefix(x.Name, "F:") {
			if f, ok := fields[strings.TrimPrefix(x.Name, "F:")]; ok && f != nil {
				return f
			}
			return mkInt(0) // a field the constructor leaves out holds its zero value
		}
		return x
	case Expr:
		args := make([]AV, len(x.Args))
		for i, a := range x.Args {
			args[i] = substFields(a, fields)
		}
		return Expr{Op: x.Op, Args: args}
	}
	return v
}

// evalIntExpr folds an expression of integer constants, field symbols and + / -.
func evalIntExpr(v AV, fields map[string]AV) (int64, bool) {
	v = substFields(v, fields)
	var ev func(AV) (int64, bool)
	ev = func(v AV) (int64, bool) {
		switch x := v.(type) {
		case nil:
			return 0, true
		case Zero:
			return 0, true
		case Const:
			return asInt(x)
		case Expr:
			if (x.Op == "+" || x.Op == "-") && len(x.Args) == 2 {
				a, ok1 := ev(x.Args[0])
				b, ok2 := ev(x.Args[1])
				if ok1 && ok2 {
					if x.Op == "+" {
						return a + b, true
					}
					return a - b, true
				}
			}
		}
		return 0, false
	}
	return ev(v)
}

func (s *seqRT) ruleIterMap() {
	c := s.c
	rule := "ITER.MAP"
	ctor := "NewMapIter"
	info := s.loadIter(rule, ctor, "m")
	if info == nil {
		return
	}
	// constructor: reflect.ValueOf(m).MapRange()
	var calls []string
	for _, e := range info.base.Events {
		if e.Kind == "call" {
			calls = append(calls, e.Name())
		} else if e.Kind != "load" {
			calls = append(calls, e.String())
		}
	}
	baseObj := info.base.Obj(info.obj)
	itField := ""
	for _, n := range info.fields {
		if sy, ok := ff(baseObj)[n].(Sym); ok && strings.Contains(sy.Name, "MapRange") {
			itField = n
		}
	}
	good := len(calls) == 2 && strings.HasSuffix(calls[0], "reflect.ValueOf") && strings.HasSuffix(calls[1], "MapRange") && itField != ""
	if !good {
		// equivalent: a MapIter held by value and initialised with Reset(reflect.ValueOf(m))
		var evs []Event
		for _, e := range info.base.Events {
			if e.Kind == "call" {
				evs = append(evs, e)
			}
		}
		if len(evs) == 2 && len(calls) == 2 && evs[0].Fn != nil && evs[0].Fn.Name() == "ValueOf" && evs[1].Fn != nil && evs[1].Fn.Name() == "Reset" &&
			strings.Contains(fnPkgPath(evs[1].Fn), "reflect") && len(evs[1].Args) == 2 && sameAV(evs[1].Args[1], evs[0].Ret) {
			if fr, ok := evs[1].Args[0].(FieldRef); ok && sameAV(fr.Base, info.obj) {
				itField, good = fr.Field, true
			}
		}
	}
	isIterRecv := func(a AV) bool {
		if canon(a) == "⟨F:"+itField+"⟩" {
			return true
		}
		fr, ok := a.(FieldRef)
		return ok && fr.Field == itField
	}
	if !c.check(good, rule, "seq."+ctor+" constructor", s.w.FnPos(info.ctor),
		"iterates the live map through reflect.ValueOf(m).MapRange() (no snapshot of keys: entries deleted before being reached are skipped, like Go's range)",
		"expected the constructor to be exactly reflect.ValueOf(m).MapRange() (or a MapIter reset to reflect.ValueOf(m)); got: "+strings.Join(calls, " ; ")+" "+info.base.Render(info.obj)) {
		return
	}
	st, r := info.symbolicObj()
	outs := s.runMethod(st, info.moveNext, r)
	okNext := len(outs) == 1 && !outs[0].Panicked
	if okNext {
		var evs []Event
		for _, e := range outs[0].St.Events {
			if e.Kind != "load" {
				evs = append(evs, e)
			}
		}
		okNext = len(evs) == 1 && evs[0].Kind == "call" && evs[0].Fn != nil && evs[0].Fn.Name() == "Next" && len(evs[0].Args) == 1 && isIterRecv(evs[0].Args[0]) &&
			len(outs[0].Ret) == 1 && sameAV(outs[0].Ret[0], evs[0].Ret)
	}
	c.check(okNext, rule, "seq."+ctor+" MoveNext", s.w.FnPos(info.moveNext), "exactly one call of (*reflect.MapIter).Next on the iterator's own MapIter, result returned", "MoveNext must be exactly `return iter.Next()`")
	curOuts, _ := s.checkPure(info, rule, ctor)
	// ITER.ASSERT: no panicking path; key/value derive from Key()/Value() of the same MapIter
	noPanic := true
	derive := true
	why := ""
	for _, o := range curOuts {
		if o.Panicked {
			noPanic = false
			c.bad("ITER.ASSERT", "seq."+ctor+" Current()", s.w.FnPos(info.current), "a path of Current() panics (a single-result type assertion to a type parameter fails for a nil interface key/value, where Go's range yields nil)", o.St.TraceStrings()...)
			continue
		}
		k := canon(pairField(o.Ret[0], "Key"))
		v := canon(pairField(o.Ret[0], "Val"))
		// provenance: Key() -> Interface() -> (assertion) -> pair.Key, and the same for Value()
		prov := map[string]string{} // result symbol of Interface() -> "Key" | "Value"
		src := map[string]string{}  // result symbol of Key()/Value() -> which
		okAssert := map[string]bool{}
		for _, e := range o.St.Events {
			if e.Kind != "call" || e.Fn == nil || len(e.Args) != 1 || e.Ret == nil {
				continue
			}
			switch e.Fn.Name() {
			case "Key", "Value":
				if isIterRecv(e.Args[0]) {
					src[canon(e.Ret)] = e.Fn.Name()
				}
			case "Interface":
				if w, ok := src[canon(e.Args[0])]; ok {
					prov[canon(e.Ret)] = w
				}
			}
		}
		for _, l := range o.St.Labels {
			for sym, w := range prov {
				if strings.Contains(epochRe.ReplaceAllString(l, ""), strings.Trim(sym, "⟨⟩")) && strings.HasSuffix(l, "=true") {
					okAssert[w] = true
				}
			}
		}
		from := func(val, which string) bool {
			for sym, w := range prov {
				if w == which && strings.Contains(val, strings.Trim(sym, "⟨⟩")) {
					return true
				}
			}
			// a failed assertion (nil interface element) yields the zero value of that component only
			return strings.HasPrefix(val, "zero") && !okAssert[which]
		}
		if !from(k, "Key") || !from(v, "Value") {
			derive = false
			why = fmt.Sprintf("on a path Key = %s, Val = %s", k, v)
		}
	}
	if noPanic {
		c.ok("ITER.ASSERT", "seq."+ctor+" Current()", s.w.FnPos(info.current), fmt.Sprintf("%d paths (each type assertion succeeding / failing): none panics", len(curOuts)))
	}
	c.check(derive, rule, "seq."+ctor+" Current()", s.w.FnPos(info.current), "key and value are the MapIter's current Key()/Value()", "Key must be the MapIter's current Key() and Val its current Value(), each component on its own (a nil interface key must not lose the entry's value): "+why)
}

// ruleIterChan: the channel iterator is decided observationally on the state its constructor builds (a
// receive does not depend on earlier iterator state, so no induction is needed and the representation —
// fields of a struct, variables captured by closures — is immaterial): every advance performs exactly one
// comma-ok receive on the operand channel and returns its ok; Current().Key is the value of the latest
// receive, and reading it changes nothing.
func (s *seqRT) ruleIterChan() {
	c := s.c
	rule := "ITER.CHAN"
	ctor := "NewChanIter"
	info := s.loadIter(rule, ctor, "ch")
	if info == nil {
		return
	}
	recvKey := func(v AV) string { // recv.ok(ch, recv#k) / recv.val(ch, recv#k) -> "ch|recv#k"
		e, ok := v.(Expr)
		if !ok || len(e.Args) != 2 {
			return ""
		}
		return canon(e.Args[0]) + "|" + canon(e.Args[1])
	}
	effects := func(evs []Event) (recvs []Event, other string) {
		for _, e := range evs {
			switch e.Kind {
			case "recv":
				recvs = append(recvs, e)
			case "send", "go", "defer", "mapupdate", "panic":
				other = e.String()
			case "call", "invoke":
				if e.Fn == nil || e.Fn.Pkg == nil || e.Fn.Pkg.Pkg.Path() != pathSeq {
					other = "call of " + e.Name()
				}
			}
		}
		return
	}
	st := info.base
	posM, posC := s.w.FnPos(info.moveNext), s.w.FnPos(info.current)
	var prevKey string
	for step := 1; step <= 2; step++ {
		ne := len(st.Events)
		outs := s.runMethod(st, info.moveNext, info.obj)
		construct := fmt.Sprintf("seq.%s MoveNext (advance %d)", ctor, step)
		if len(outs) != 1 || outs[0].Panicked || len(outs[0].Ret) != 1 {
			c.bad(rule, construct, posM, "MoveNext must be `v, ok = <-ch; return ok`: one straight-line path")
			return
		}
		recvs, other := effects(outs[0].St.Events[ne:])
		ret, _ := outs[0].Ret[0].(Expr)
		good := other == "" && len(recvs) == 1 && isSymNamed(recvs[0].Args[0], "ch") && ret.Op == "recv.ok" && recvKey(ret) != "" && recvKey(ret) != prevKey
		why := other
		if why == "" {
			why = fmt.Sprintf("%d receive(s), result %s", len(recvs), canon(outs[0].Ret[0]))
		}
		if !c.check(good, rule, construct, posM, "exactly one comma-ok receive on the operand channel; its ok is returned (values until close)", "MoveNext must be `v, ok = <-ch; return ok` on the iterator's own channel: "+why) {
			return
		}
		prevKey = recvKey(ret)
		st = outs[0].St
		// Current: the value of that receive, read without effect (the range template calls it up to twice)
		for again := 1; again <= 2; again++ {
			ne = len(st.Events)
			curOuts := s.runMethod(st, info.current, info.obj)
			construct = fmt.Sprintf("seq.%s Current() (after advance %d, read %d)", ctor, step, again)
			if len(curOuts) != 1 || curOuts[0].Panicked || len(curOuts[0].Ret) != 1 {
				c.bad(rule, construct, posC, "Current() must be a single straight-line path")
				return
			}
			r2, other2 := effects(curOuts[0].St.Events[ne:])
			stores := 0
			for _, e := range curOuts[0].St.Events[ne:] {
				if e.Kind == "store" {
					stores++
				}
			}
			pure := other2 == "" && len(r2) == 0 && stores == 0 && sameHeap(st, curOuts[0].St)
			c.check(pure, "ITER.PURE", construct, posC, "Current() is a pure read of iterator state (the range template calls it up to twice per iteration)", "Current() of the channel iterator has an effect (a receive, a store, a call out of the package, or a changed iterator variable)")
			key, _ := pairField(curOuts[0].Ret[0], "Key").(Expr)
			c.check(key.Op == "recv.val" && recvKey(key) == prevKey, rule, construct, posC, "Key is the value received by the latest advance", "Current().Key is not the value of the latest receive: "+canon(pairField(curOuts[0].Ret[0], "Key")))
			st = curOuts[0].St
		}
	}
}

// sameHeap: every heap object present in a has the same contents in b (objects allocated since are ignored)
func sameHeap(a, b *State) bool {
	for id, oa := range a.heap {
		ob := b.heap[id]
		if ob == nil {
			return false
		}
		if oa == ob {
			continue
		}
		if !sameAV(oa.Val, ob.Val) && !(oa.Val == nil && ob.Val == nil) {
			return false
		}
		if len(oa.Fields) != len(ob.Fields) || len(oa.Elems) != len(ob.Elems) {
			return false
		}
		for k, v := range oa.Fields {
			if !sameAV(v, ob.Fields[k]) {
				return false
			}
		}
		for i, v := range oa.Elems {
			if !sameAV(v, ob.Elems[i]) {
				return false
			}
		}
	}
	return true
}

func (s *seqRT) ruleIters() {
	c := s.c
	c.min("ITER.IV", 4)
	c.min("ITER.STR", 4)
	c.min("ITER.MAP", 3)
	c.min("ITER.CHAN", 2)
	c.min("ITER.PURE", 5)
	isForm := func(o Obligation) bool { return strings.HasPrefix(o.Detail, formMismatch) }
	c.guard("ITER.IV", func() {
		// the two inductive forms first; an integer iterator written in neither of them is evaluated on concrete
		// operands instead (bounded, and said so). A recognised form that fails the induction is a violation.
		if ok, fallback := c.trialForm(func() {
			s.ruleIterIndex("NewIntegerIter", "n", func(op AV) string { return canon(op) }, false)
		}, isForm); !ok && fallback {
			s.iterIntegerBounded()
		}
	})
	c.guard("ITER.IV", func() {
		s.ruleIterIndex("NewSliceIter", "slice", func(op AV) string { return "len(" + canon(op) + ")" }, true)
	})
	c.guard("ITER.STR", func() {
		if ok, fallback := c.trialForm(s.ruleIterString, isForm); !ok && fallback {
			s.iterStringBounded()
		}
	})
	c.guard("ITER.MAP", s.ruleIterMap)
	c.guard("ITER.CHAN", s.ruleIterChan)
}

var _ = constant.MakeInt64

// linearForm: sum of atoms with integer coefficients plus a constant. Atoms are symbols and every
// sub-expression that is not +, - (rendered canonically): len(x), convert(...), ...
type linearForm struct {
	terms map[string]int64
	c     int64
}

func (l linearForm) String() string {
	var ks []string
	for k, v := range l.terms {
		if v != 0 {
			ks = append(ks, fmt.Sprintf("%d*%s", v, k))
		}
	}
	sort.Strings(ks)
	return fmt.Sprintf("%s + %d", strings.Join(ks, " + "), l.c)
}

func (l linearForm) clone() linearForm {
	t := map[string]int64{}
	for k, v := range l.terms {
		t[k] = v
	}
	return linearForm{terms: t, c: l.c}
}
func (l linearForm) plus(n int64) linearForm { r := l.clone(); r.c += n; return r }
func (l linearForm) minusAtom(a string) linearForm {
	r := l.clone()
	r.terms[a]--
	return r
}
func (l linearForm) equal(o linearForm) bool {
	if l.c != o.c {
		return false
	}
	for k, v := range l.terms {
		if o.terms[k] != v {
			return false
		}
	}
	for k, v := range o.terms {
		if l.terms[k] != v {
			return false
		}
	}
	return true
}

func linForm(v AV) (linearForm, bool) {
	out := linearForm{terms: map[string]int64{}}
	var add func(v AV, sign int64) bool
	add = func(v AV, sign int64) bool {
		switch x := v.(type) {
		case nil:
			return false
		case Zero:
			return true
		case Const:
			n, ok := asInt(x)
			if !ok {
				return false
			}
			out.c += sign * n
			return true
		case Expr:
			if x.Op == "+" && len(x.Args) == 2 {
				return add(x.Args[0], sign) && add(x.Args[1], sign)
			}
			if x.Op == "-" && len(x.Args) == 2 {
				return add(x.Args[0], sign) && add(x.Args[1], -sign)
			}
			if strings.HasPrefix(x.Op, "convert:") && len(x.Args) == 1 && (strings.HasSuffix(x.Op, ":int") || strings.HasSuffix(x.Op, ":int64")) {
				return add(x.Args[0], sign)
			}
		}
		out.terms[canon(v)] += sign
		return true
	}
	ok := add(v, 1)
	return out, ok
}

// guardForm normalises a comparison of integers to "X < 0" and returns X.
func guardForm(v AV) (linearForm, bool) {
	e, ok := v.(Expr)
	if !ok || len(e.Args) != 2 {
		return linearForm{}, false
	}
	a, ok1 := linForm(e.Args[0])
	b, ok2 := linForm(e.Args[1])
	if !ok1 || !ok2 {
		return linearForm{}, false
	}
	sub := func(x, y linearForm, extra int64) linearForm {
		r := x.clone()
		for k, v := range y.terms {
			r.terms[k] -= v
		}
		r.c -= y.c
		r.c += extra
		return r
	}
	switch e.Op {
	case "<":
		return sub(a, b, 0), true
	case "<=": // a <= b  <=>  a - b - 1 < 0
		return sub(a, b, -1), true
	case ">":
		return sub(b, a, 0), true
	case ">=":
		return sub(b, a, -1), true
	}
	return linearForm{}, false
}

// iterIntegerBounded: the integer iterator evaluated on the operands -2 … 5: MoveNext answers true exactly
// max(n,0) times and false ever after (twice more here), Current().Key is 0, 1, … in order and reading it
// changes nothing. Everything folds to constants because the operand is one. This is not an induction: it is
// the fallback for an iterator whose state is not kept in one of the two recognised inductive forms.
func (s *seqRT) iterIntegerBounded() {
	c := s.c
	rule := "ITER.IV"
	fn := s.w.FuncOpt(pathSeq, "NewIntegerIter")
	if fn == nil {
		undecided("constructor seq.NewIntegerIter not found")
	}
	c.fn("seq.NewIntegerIter")
	pos := s.w.FnPos(fn)
	bad := ""
	for _, n := range []int64{-2, -1, 0, 1, 2, 3, 5} {
		in := s.interp()
		outs := in.Run(nil, fn, []AV{mkInt(n)}, nil)
		s.account(in)
		if len(outs) != 1 || outs[0].Panicked || len(outs[0].Ret) != 1 {
			bad = fmt.Sprintf("operand %d: the constructor is not a single normal path", n)
			break
		}
		d, ok := outs[0].Ret[0].(Dyn)
		if !ok {
			bad = fmt.Sprintf("operand %d: the constructor does not return a concrete iterator", n)
			break
		}
		methods := s.methodsOf(d.T)
		if methods["MoveNext"] == nil || methods["Current"] == nil {
			bad = "the iterator has no MoveNext/Current"
			break
		}
		c.fn(relName(methods["MoveNext"]))
		c.fn(relName(methods["Current"]))
		st := outs[0].St
		want := n
		if want < 0 {
			want = 0
		}
		for j := int64(0); j < want+2 && bad == ""; j++ {
			mo := in.Run(st.clone(), methods["MoveNext"], []AV{d.V}, nil)
			if len(mo) != 1 || mo[0].Panicked || len(mo[0].Ret) != 1 {
				bad = fmt.Sprintf("operand %d, advance %d: not a single normal path", n, j+1)
				break
			}
			b, known := asBool(mo[0].Ret[0])
			if !known || b != (j < want) {
				bad = fmt.Sprintf("operand %d, advance %d: MoveNext answers %s, expected %v", n, j+1, mo[0].Ret[0], j < want)
				break
			}
			st = mo[0].St
			if j >= want {
				continue
			}
			for read := 0; read < 2; read++ {
				cu := in.Run(st.clone(), methods["Current"], []AV{d.V}, nil)
				if len(cu) != 1 || cu[0].Panicked || len(cu[0].Ret) != 1 {
					bad = fmt.Sprintf("operand %d, after advance %d: Current is not a single normal path", n, j+1)
					break
				}
				k, isInt := asInt(pairField(cu[0].Ret[0], "Key"))
				if !isInt || k != j {
					bad = fmt.Sprintf("operand %d, after advance %d: Key = %s, expected %d", n, j+1, canon(pairField(cu[0].Ret[0], "Key")), j)
					break
				}
				if !sameHeap(st, cu[0].St) {
					bad = fmt.Sprintf("operand %d, after advance %d: Current changes the iterator", n, j+1)
					break
				}
			}
		}
		if bad != "" {
			break
		}
	}
	c.check(bad == "", rule, "seq.NewIntegerIter (bounded evaluation: the state is not in an inductive form the rule knows)", pos,
		"operands -2 … 5: true exactly max(n,0) times, keys 0, 1, … in order, false ever after, Current pure — by evaluation, not by induction", bad)
	// keep the instance counts of the inductive form
	c.ok(rule, "seq.NewIntegerIter step", pos, "(bounded evaluation, see above)")
	c.ok(rule, "seq.NewIntegerIter first advance", pos, "(bounded evaluation, see above)")
	c.ok("ITER.PURE", "seq.NewIntegerIter Current()", pos, "(bounded evaluation, see above)")
}

// iterStringBounded: the string iterator evaluated on constant operands (ASCII, multi-byte, invalid bytes, empty):
// the pairs it delivers are exactly the (byte offset, rune) pairs of Go's range over that string — invalid bytes
// as U+FFFD of width 1 — and MoveNext is false ever after. Fallback for an iterator whose state is not in the
// form the inductive rule recognises; bounded, not an induction.
func (s *seqRT) iterStringBounded() {
	c := s.c
	rule := "ITER.STR"
	fn := s.w.FuncOpt(pathSeq, "NewStringIter")
	if fn == nil {
		undecided("constructor seq.NewStringIter not found")
	}
	c.fn("seq.NewStringIter")
	pos := s.w.FnPos(fn)
	bad := ""
	for _, str := range []string{"", "a", "ab", "é", "aéz", "日本語", "a\xffz", "\xc3", "\xe6\x97", "x\xf0\x9f\x98\x80y", "\x80\x80a", "\uFFFD", "a\uFFFDb", "\xed\xa0\x80", "\xc0\x80x", "\xf4\x90\x80\x80"} {
		in := s.interp()
		outs := in.Run(nil, fn, []AV{mkString(str)}, nil)
		s.account(in)
		if len(outs) != 1 || outs[0].Panicked || len(outs[0].Ret) != 1 {
			bad = fmt.Sprintf("operand %q: the constructor is not a single normal path", str)
			break
		}
		d, ok := outs[0].Ret[0].(Dyn)
		if !ok {
			bad = fmt.Sprintf("operand %q: the constructor does not return a concrete iterator", str)
			break
		}
		methods := s.methodsOf(d.T)
		if methods["MoveNext"] == nil || methods["Current"] == nil {
			bad = "the iterator has no MoveNext/Current"
			break
		}
		c.fn(relName(methods["MoveNext"]))
		c.fn(relName(methods["Current"]))
		type pr struct {
			off int
			r   rune
		}
		var want []pr
		for i, r := range str { // the reference: Go's own range over the constant
			want = append(want, pr{i, r})
		}
		st := outs[0].St
		for j := 0; j < len(want)+2 && bad == ""; j++ {
			mo := in.Run(st.clone(), methods["MoveNext"], []AV{d.V}, nil)
			if len(mo) != 1 || mo[0].Panicked || len(mo[0].Ret) != 1 {
				bad = fmt.Sprintf("operand %q, advance %d: not a single normal path", str, j+1)
				if os.Getenv("VERIF_DEBUG_ITER") != "" {
					for _, o := range mo {
						var cs []string
						for _, cd := range o.St.Conds {
							cs = append(cs, condCanon(cd))
						}
						fmt.Fprintf(os.Stderr, "ITERSTR %q adv %d: panicked=%v ret=%v conds=%v\n", str, j+1, o.Panicked, o.Ret, cs)
					}
				}
				break
			}
			b, known := asBool(mo[0].Ret[0])
			if !known || b != (j < len(want)) {
				bad = fmt.Sprintf("operand %q, advance %d: MoveNext answers %s, expected %v", str, j+1, mo[0].Ret[0], j < len(want))
				break
			}
			st = mo[0].St
			if j >= len(want) {
				continue
			}
			for read := 0; read < 2; read++ {
				cu := in.Run(st.clone(), methods["Current"], []AV{d.V}, nil)
				if len(cu) != 1 || cu[0].Panicked || len(cu[0].Ret) != 1 {
					bad = fmt.Sprintf("operand %q, after advance %d: Current is not a single normal path", str, j+1)
					break
				}
				k, okK := asInt(pairField(cu[0].Ret[0], "Key"))
				v, okV := asInt(pairField(cu[0].Ret[0], "Val"))
				if !okK || !okV || int(k) != want[j].off || rune(v) != want[j].r {
					bad = fmt.Sprintf("operand %q, after advance %d: (Key, Val) = (%s, %s), Go's range gives (%d, %U)", str, j+1, canon(pairField(cu[0].Ret[0], "Key")), canon(pairField(cu[0].Ret[0], "Val")), want[j].off, want[j].r)
					break
				}
				if !sameHeap(st, cu[0].St) {
					bad = fmt.Sprintf("operand %q, after advance %d: Current changes the iterator", str, j+1)
					break
				}
			}
		}
		if bad != "" {
			break
		}
	}
	c.check(bad == "", rule, "seq.NewStringIter (bounded evaluation: the state is not in the inductive form the rule knows)", pos,
		"16 constant operands (ASCII, multi-byte, an encoded U+FFFD, truncated, overlong, surrogate and out-of-range sequences): exactly the (byte offset, rune) pairs of Go's range, then false for good — by evaluation, not by induction", bad)
	for _, k := range []string{"seq.NewStringIter advance", "seq.NewStringIter Current after advance", "seq.NewStringIter exhaustion", "seq.NewStringIter initial position"} {
		c.ok(rule, k, pos, "(bounded evaluation, see above)")
	}
	c.ok("ITER.PURE", "seq.NewStringIter Current()", pos, "(bounded evaluation, see above)")
}
