package main

// RW.YIELDTYPE: the type check of a yield's operand. A generator of element type T may yield every
// value that is assignable to T (Yield(1) in an Iter[any] generator, a concrete type in an interface
// element type): the check must not reject such a yield — rejecting is a compiler panic on a program of
// the supported subset (C11). Whether mismatching operands are rejected is not judged here: accepting
// them produces output that does not build, which none of the properties forbids.

import (
	"fmt"
	"go/types"
	"os"
	"sort"
	"strings"

	"golang.org/x/tools/go/ssa"
)

func (r *rwRT) ruleYieldType() {
	c := r.c
	c.min("RW.YIELDTYPE", 1)
	fn := r.w.MethodOpt(pathRw, "yieldRewriter", "checkYieldCall")
	if fn == nil {
		// no separate type check of the operand: nothing can reject an assignable one
		c.ok("RW.YIELDTYPE", "yield operand assignable to the element type", "", "the rewriter has no type check of its own for yield operands (the Go type checker decides)")
		return
	}
	c.fn(relName(fn))
	pos := r.w.FnPos(fn)
	st := newState()
	arg := exprLeaf(r, "arg0")
	callRef, _ := r.heapNode(st, "CallExpr", map[string]AV{"Fun": exprLeaf(r, "Yield"), "Args": SliceV{Elems: []AV{arg}}, "Lparen": Sym{Name: "lp"}})
	in := r.interp(rwConfig{root: fn, inlineAll: true})
	elem := exprLeaf(r, "T")
	in.Fields["r.yieldAst.funRetParamTy"] = elem
	tArg, tElem := Sym{Name: "typeof:arg", NN: true}, Sym{Name: "typeof:elem", NN: true}
	in.OnCall = wrapOnCall(in.OnCall, func(cc *CallCtx) []Answer {
		if cc.Fn == nil {
			return nil
		}
		switch {
		case cc.Fn.Name() == "TypeOf" && len(cc.Args) >= 1:
			if sameAV(unwrap(cc.Args[len(cc.Args)-1]), unwrap(arg)) {
				return []Answer{{Ret: []AV{tArg}, NoEvent: true}}
			}
			if sameAV(unwrap(cc.Args[len(cc.Args)-1]), unwrap(elem)) {
				return []Answer{{Ret: []AV{tElem}, NoEvent: true}}
			}
		case fnPkgPath(cc.Fn) == "go/types" && cc.Fn.Signature.Results().Len() == 1 && len(cc.Args) == 2:
			// a binary predicate over types: only "operand assignable to element type" is the question
			// (the element type may have been looked up earlier and kept in the rewriter's own state)
			memo := false
			if sy, ok := unwrap(cc.Args[1]).(Sym); ok && strings.HasPrefix(sy.Name, "r.") {
				memo = true
			}
			if cc.Fn.Name() == "AssignableTo" && sameAV(cc.Args[0], tArg) && (sameAV(cc.Args[1], tElem) || memo) {
				return []Answer{{Ret: []AV{mkBool(true)}, Label: "fits=true"}, {Ret: []AV{mkBool(false)}, Label: "fits=false"}}
			}
			return []Answer{{Ret: []AV{mkBool(true)}, Label: "other=true"}, {Ret: []AV{mkBool(false)}, Label: "other=false"}}
		}
		return nil
	})
	outs := in.Run(st, fn, []AV{Sym{Name: "r", NN: true}, callRef}, nil)
	r.account(in)
	bad := ""
	accepting := 0
	for _, o := range outs {
		fitsFalse := false
		for _, l := range o.St.Labels {
			if l == "fits=false" {
				fitsFalse = true
			}
		}
		if !o.Panicked {
			accepting++
			continue
		}
		if !fitsFalse {
			bad = "a yield is rejected on a path that did not find its operand unassignable to the element type (" + strings.Join(o.St.Labels, ", ") + "): e.g. Yield(1) in a generator of element type any no longer compiles"
		}
	}
	c.check(bad == "" && accepting > 0, "RW.YIELDTYPE", "yield operand assignable to the element type", pos,
		fmt.Sprintf("%d paths: a yield is rejected only when types.AssignableTo(typeof(operand), element type) is false", len(outs)),
		map[bool]string{true: bad, false: "every path rejects the yield"}[bad != ""])
}

// RW.RECOVER (C12): the diagnostics of the rewriter are panics (r.assert). A recover() anywhere in package
// rewriter that does not re-raise what it caught turns a rejection into a silent skip: the run ends normally
// and whatever was generated before stays in place. Every recover site must pass the recovered value on to a
// panic (the private abort sentinel of the yield search is compared first and everything else re-raised).
func (r *rwRT) ruleRecover() {
	c := r.c
	sites := 0
	for _, f := range r.w.FuncsOf(pathRw) {
		for _, b := range f.Blocks {
			for _, ins := range b.Instrs {
				call, ok := ins.(*ssa.Call)
				if !ok {
					continue
				}
				if bi, ok := call.Call.Value.(*ssa.Builtin); !ok || bi.Name() != "recover" {
					continue
				}
				sites++
				c.fn(relName(f))
				// forward flow of the recovered value (through phis and interface conversions) into a panic
				seen := map[ssa.Value]bool{}
				work := []ssa.Value{call}
				reraised := false
				for len(work) > 0 {
					v := work[0]
					work = work[1:]
					if seen[v] {
						continue
					}
					seen[v] = true
					if v.Referrers() == nil {
						continue
					}
					for _, ref := range *v.Referrers() {
						switch x := ref.(type) {
						case *ssa.Panic:
							reraised = true
						case *ssa.Phi:
							work = append(work, x)
						case *ssa.MakeInterface:
							work = append(work, x)
						case *ssa.ChangeInterface:
							work = append(work, x)
						case *ssa.Store:
							// kept in a variable of the function (defer closures capture it): follow the loads of that cell
							if al, ok := x.Addr.(*ssa.Alloc); ok && al.Referrers() != nil {
								for _, r2 := range *al.Referrers() {
									if u, ok := r2.(*ssa.UnOp); ok {
										work = append(work, u)
									}
								}
							}
						}
					}
				}
				c.check(reraised, "RW.RECOVER", "recover() in "+relName(f), r.w.Pos(call.Pos()),
					"what is recovered is raised again (only the private sentinel is absorbed): a diagnostic still ends the run",
					"the recovered value never reaches a panic: a rejection (r.assert) raised below this point is swallowed and the run ends normally")
			}
		}
	}
	if sites == 0 {
		c.ok("RW.RECOVER", "recover() in package rewriter", "", "no recover call: every diagnostic ends the run")
	}
}

// OPT.MEMO (C15): a table that is filled while files are processed and read again later makes the output of
// one file depend on the files processed before it, unless the key it is filled under determines the value.
// For every map update in package rewriter whose map lives longer than the call (a captured variable or a
// field), every parameter of the enclosing function that the stored value is computed from must also be one
// the key is computed from: memoising MustLookup(name) under name is fine, memoising a verdict computed from
// (ctx, expr) under the spelling of expr is not (the first file's type information decides for all later ones).
func (r *rwRT) ruleMemo() {
	c := r.c
	n := 0
	for _, f := range r.w.FuncsOf(pathRw) {
		for _, b := range f.Blocks {
			for _, ins := range b.Instrs {
				mu, ok := ins.(*ssa.MapUpdate)
				if !ok {
					continue
				}
				if !outlivesCall(mu.Map) {
					continue
				}
				n++
				c.fn(relName(f))
				pv, pk := paramDeps(mu.Value), paramDeps(mu.Key)
				var missing []string
				for p := range pv {
					// the receiver is the long-lived object the table belongs to, not an input of this call
					if recv := f.Signature.Recv(); recv != nil && len(f.Params) > 0 && p == f.Params[0] {
						continue
					}
					if !pk[p] {
						missing = append(missing, p.Name())
					}
				}
				sort.Strings(missing)
				c.check(len(missing) == 0, "OPT.MEMO", fmt.Sprintf("map update in %s (key %s)", relName(f), mu.Key.Name()), r.w.Pos(mu.Pos()),
					"the stored value is computed from nothing but what the key is computed from (and constants / captured configuration)",
					"a value computed from "+strings.Join(missing, ", ")+" is remembered under a key that does not depend on it: a later lookup under the same key returns the verdict of the first file / context that asked (output depends on what was processed before)")
			}
		}
	}
	if n == 0 {
		c.ok("OPT.MEMO", "long-lived tables of package rewriter", "", "no map outliving a call is updated")
	}
}

// outlivesCall: is the map reached through a captured variable, a field, or a global (not a local of the call)?
func outlivesCall(m ssa.Value) bool {
	switch x := m.(type) {
	case *ssa.UnOp:
		return outlivesCall(x.X)
	case *ssa.FreeVar, *ssa.Global, *ssa.FieldAddr, *ssa.Field:
		return true
	case *ssa.Phi:
		for _, e := range x.Edges {
			if outlivesCall(e) {
				return true
			}
		}
	}
	return false
}

// paramDeps: the parameters of the enclosing function a value is computed from (backward slice inside the function;
// loads of local cells follow the stores into them; captured variables and globals are configuration).
func paramDeps(v ssa.Value) map[*ssa.Parameter]bool {
	out := map[*ssa.Parameter]bool{}
	seen := map[ssa.Value]bool{}
	var walk func(v ssa.Value)
	walk = func(v ssa.Value) {
		if v == nil || seen[v] {
			return
		}
		seen[v] = true
		switch x := v.(type) {
		case *ssa.Parameter:
			out[x] = true
			return
		case *ssa.Alloc:
			if x.Referrers() != nil {
				for _, ref := range *x.Referrers() {
					if st, ok := ref.(*ssa.Store); ok && st.Addr == x {
						walk(st.Val)
					}
				}
			}
			return
		}
		if ins, ok := v.(ssa.Instruction); ok {
			for _, op := range ins.Operands(nil) {
				if op != nil && *op != nil {
					walk(*op)
				}
			}
		}
	}
	walk(v)
	return out
}

// RW.TERM (panic call sites, C11): "terminating" includes a call of the predeclared panic — of the builtin, not
// of whatever is spelled panic. yieldRewriter.isTerminating is run on the statement `panic(x)` in a package that
// declares its own function panic: the pattern matcher finds no call of the builtin, every type-information
// query answers with the user's function, and syntactic traversals see the identifier. The verdict must be
// "not terminating": otherwise the closing `return Normal()` is dropped after such a call and the thunk does
// not build ("missing return").
func (r *rwRT) ruleTermPanicSites() {
	c := r.c
	fn := r.w.MethodOpt(pathRw, "yieldRewriter", "isTerminating")
	if fn == nil {
		undecided("method yieldRewriter.isTerminating not found")
	}
	c.fn(relName(fn))
	pos := r.w.FnPos(fn)
	st := newState()
	_, fun := r.heapNode(st, "Ident", map[string]AV{"Name": mkString("panic")})
	_, arg := r.heapNode(st, "Ident", map[string]AV{"Name": mkString("x")})
	_, call := r.heapNode(st, "CallExpr", map[string]AV{"Fun": fun, "Args": SliceV{Elems: []AV{arg}}})
	_, stmt := r.heapNode(st, "ExprStmt", map[string]AV{"X": call})
	userPanic := Sym{Name: "obj:user-declared panic", NN: true, Uniq: true}
	builtinPanic := Sym{Name: "obj:builtin panic", NN: true, Uniq: true}
	// the set (or predicate) of panic call sites is what the termination checker is constructed from
	in := r.interp(rwConfig{root: fn, boundaries: map[string]bool{"mkTerminationChecker": true}})
	in.MaxDepth, in.MaxRecur, in.MaxVisits = 30, 8, 8
	var nodesOf func(st *State, v AV, seen map[int]bool) []AV
	nodesOf = func(st *State, v AV, seen map[int]bool) []AV {
		var out []AV
		switch x := v.(type) {
		case Dyn:
			if ref, ok := x.V.(Ref); ok && !seen[ref.ID] {
				if o := st.Obj(ref); o != nil && o.T != nil && strings.Contains(o.T.String(), "go/ast.") {
					seen[ref.ID] = true
					out = append(out, x)
					var names []string
					for k := range o.Fields {
						names = append(names, k)
					}
					sort.Strings(names)
					for _, k := range names {
						out = append(out, nodesOf(st, o.Fields[k], seen)...)
					}
				}
			}
		case SliceV:
			for _, e := range x.Elems {
				out = append(out, nodesOf(st, e, seen)...)
			}
		}
		return out
	}
	typeEnv := func(cc *CallCtx) []Answer {
		if cc.Fn == nil {
			return nil
		}
		pkg := fnPkgPath(cc.Fn)
		switch {
		case cc.Fn.Name() == "Unparen" && len(cc.Args) == 1:
			return []Answer{{Ret: []AV{cc.Args[0]}, NoEvent: true}}
		case (cc.Fn.Name() == "Inspect" || cc.Fn.Name() == "Walk") && strings.HasSuffix(pkg, "go/ast") && len(cc.Args) == 2:
			// a syntactic traversal: the callback sees every node of the statement (and the closing nil)
			var inv []Invocation
			root, cb := cc.Args[0], cc.Args[1]
			if cc.Fn.Name() == "Walk" {
				return nil
			}
			for _, n := range nodesOf(cc.St, root, map[int]bool{}) {
				inv = append(inv, Invocation{Fn: cb, Args: []AV{n}})
			}
			inv = append(inv, Invocation{Fn: cb, Args: []AV{Nil{}}})
			return []Answer{{Invoke: inv, NoEvent: true}}
		case cc.Fn.Name() == "Match" && strings.Contains(pkg, "matcher"):
			// the semantic pattern "callee is the builtin panic" has no match in this statement
			return []Answer{{NoEvent: true}}
		case cc.Fn.Name() == "Lookup" && strings.HasSuffix(pkg, "go/types"):
			return []Answer{{Ret: []AV{builtinPanic}, NoEvent: true}}
		case cc.Fn.Name() == "ObjectOf" || cc.Fn.Name() == "Callee" || cc.Fn.Name() == "Uses":
			return []Answer{{Ret: []AV{userPanic}, NoEvent: true}}
		}
		return nil
	}
	in.OnCall = wrapOnCall(in.OnCall, typeEnv)
	st0 := st.clone()
	outs := in.Run(st, fn, []AV{Sym{Name: "r", NN: true}, stmt}, nil)
	r.account(in)
	bad := ""
	judged := 0
	for _, o := range outs {
		if os.Getenv("VERIF_DEBUG_PANICSITES") != "" {
			fmt.Fprintf(os.Stderr, "PANICSITES %v %v %s\n", o.Panicked, o.Ret, pathSummary(o))
		}
		if o.Panicked {
			continue
		}
		for _, e := range o.St.Events {
			if e.Kind != "call" || e.Fn == nil || e.Fn.Name() != "mkTerminationChecker" || len(e.Args) != 1 {
				continue
			}
			judged++
			isSite, known := false, false
			switch sv := e.Args[0].(type) {
			case MapV:
				_, isSite = sv.M[unwrap(call).String()]
				known = true
			case Ref:
				if mo := o.St.Obj(sv); mo != nil && mo.Kind == 'm' {
					known = true
					for _, k := range mo.Elems {
						if sameAV(unwrap(k), unwrap(call)) {
							isSite = true
						}
					}
				}
			case Closure:
				for _, po := range in.Apply(o.St, sv, []AV{unwrap(call)}) {
					if po.Panicked || len(po.Ret) != 1 {
						continue
					}
					if b, ok := asBool(po.Ret[0]); ok {
						known = true
						isSite = isSite || b
					}
				}
			}
			if !known {
				bad = "what the termination checker is told about panic call sites is not determined for a call of a user-declared panic: " + e.Args[0].String()
			} else if isSite {
				bad = "a call of a function that is merely spelled panic (declared by the package itself) is handed to the termination checker as a call of the builtin: the statement counts as terminating, the closing `return Normal()` is dropped after it and the thunk does not build"
			}
		}
	}
	if judged == 0 {
		// the checker is not an object built by mkTerminationChecker: the verdict itself is observed. The entry point is
		// evaluated through (no function of the package answered for), on the same statement and under the same oracle;
		// its answer must be "not terminating" on every path.
		in2 := r.interp(rwConfig{root: fn, inlineAll: true, astWalk: true, noOracles: true})
		in2.MaxDepth, in2.MaxRecur, in2.MaxVisits = 40, 12, 8
		in2.OnCall = wrapOnCall(in2.OnCall, typeEnv)
		outs = in2.Run(st0, fn, []AV{Sym{Name: "r", NN: true}, stmt}, nil)
		r.account(in2)
		for _, o := range outs {
			if o.Panicked {
				continue
			}
			judged++
			if len(o.Ret) != 1 {
				bad = "no answer on a path: " + pathSummary(o)
				continue
			}
			if b, known := asBool(o.Ret[0]); !known {
				bad = "the verdict for a call of a user-declared function named panic is not determined: " + canon(o.Ret[0]) + ": " + pathSummary(o)
			} else if b {
				bad = "a call of a function that is merely spelled panic (declared by the package itself) counts as terminating: the closing `return Normal()` is dropped after it and the thunk does not build"
			}
		}
		if judged == 0 {
			undecided("yieldRewriter.isTerminating has no path that answers for a call statement")
		}
	}
	c.check(bad == "" && len(outs) > 0, "RW.TERM", "panic call sites are calls of the builtin", pos,
		"a user-declared function named panic is not a terminating call", bad)
}

// RW.ITERPRED (C06, C13, C12): "is this the iterator type of the API" is decided by identity of the type — never by
// its name. The predicate is evaluated itself (not answered as an oracle) in a symbolic type environment in which
// a second named type exists whose every *name-like* answer (Name, Id, String, the printed type) equals that of
// co.Iter but which is a different object of a different package: go/types' identity questions (types.Identical,
// comparison of objects) distinguish the two, spellings do not. The predicate must answer false for the other
// type on every path and true for an instance of co.Iter. (`Object.Id()` of an exported name is the bare name: a
// user's own `Iter[T]` next to the API imported by name would be rewritten into seq.Iterator[T].)
func (r *rwRT) ruleIterPred() {
	c := r.c
	c.min("RW.ITERPRED", 2)
	fn := r.w.MethodOpt(pathRw, "rewriter", "isIterator")
	if fn == nil {
		undecided("method rewriter.isIterator not found (the iterator-type predicate the passes are guarded by)")
	}
	c.fn(relName(fn))
	pos := r.w.FnPos(fn)
	tp := r.w.importedPkg(pathRw, "go/types")
	if tp == nil {
		undecided("package rewriter does not import go/types")
	}
	namedPtr := types.NewPointer(tp.Scope().Lookup("Named").Type())
	// lineage labels: iter = the object of co.Iter, iter.T = its (generic) type, inst = an instance Iter[int],
	// other = a named type of another package with the same name
	norm := func(l string) string {
		for {
			n := l
			n = strings.ReplaceAll(n, ".T.Obj", "")
			n = strings.ReplaceAll(n, ".Origin.Origin", ".Origin")
			n = strings.ReplaceAll(n, ".T.Origin", ".T")
			if strings.HasPrefix(n, "inst.Obj") {
				n = "iter" + strings.TrimPrefix(n, "inst.Obj")
			}
			if strings.HasPrefix(n, "inst.Origin") {
				n = "iter.T" + strings.TrimPrefix(n, "inst.Origin")
			}
			if n == l {
				return l
			}
			l = n
		}
	}
	mk := func(label string, asType bool) AV {
		s := Sym{Name: norm(label), NN: true, Uniq: true}
		if asType {
			return Dyn{T: namedPtr, V: s}
		}
		return s
	}
	var built *State // the rewriter as its own constructor makes it (fields derived from the looked-up objects included)
	var builtR AV
	var run func(arg AV) (outs []Outcome)
	newIn := func(root *ssa.Function) *Interp {
		in := r.interp(rwConfig{root: root, inlineAll: true, noOracles: true})
		in.Fields["r.iterType"] = mk("iter", false)
		in.OnCall = wrapOnCall(in.OnCall, func(cc *CallCtx) []Answer {
			name, recv := "", AV(nil)
			var rest []AV
			if (cc.Method == "MustLookup" || cc.Fn != nil && cc.Fn.Name() == "MustLookup") && len(cc.Args) >= 1 {
				// the loader's lookup of an API object by its qualified name
				if q, ok := asString(cc.Args[len(cc.Args)-1]); ok {
					if strings.HasSuffix(q, ".Iter") {
						return []Answer{{Ret: []AV{mk("iter", false)}, NoEvent: true}}
					}
					return []Answer{{Ret: []AV{Sym{Name: "obj:" + q, NN: true, Uniq: true}}, NoEvent: true}}
				}
			}
			switch {
			case cc.Method != "":
				name, recv, rest = cc.Method, cc.Recv, cc.Args
			case cc.Fn != nil && fnPkgPath(cc.Fn) == "go/types":
				name = cc.Fn.Name()
				if cc.Fn.Signature.Recv() != nil && len(cc.Args) > 0 {
					recv, rest = cc.Args[0], cc.Args[1:]
				} else {
					rest = cc.Args
				}
			default:
				return nil
			}
			lab := func(v AV) string { return argLabel(unwrap(v)) }
			switch name {
			case "Name", "Id", "String", "TypeString", "ObjectString", "ExprString":
				// every spelling is the same for the two types
				return []Answer{{Ret: []AV{mkString("Iter")}, NoEvent: true}}
			case "Exported":
				return []Answer{{Ret: []AV{mkBool(true)}, NoEvent: true}}
			case "Obj":
				if recv != nil {
					return []Answer{{Ret: []AV{mk(lab(recv)+".Obj", false)}, NoEvent: true}}
				}
			case "Type":
				if recv != nil {
					return []Answer{{Ret: []AV{mk(lab(recv)+".T", true)}, NoEvent: true}}
				}
			case "Origin":
				if recv != nil {
					return []Answer{{Ret: []AV{mk(lab(recv)+".Origin", true)}, NoEvent: true}}
				}
			case "Pkg":
				if recv != nil {
					root := strings.SplitN(norm(lab(recv)), ".", 2)[0]
					if root == "inst" {
						root = "iter"
					}
					return []Answer{{Ret: []AV{Sym{Name: "pkg:" + root, NN: true, Uniq: true}}, NoEvent: true}}
				}
			case "Path":
				if recv != nil {
					return []Answer{{Ret: []AV{mkString("path-of-" + lab(recv))}, NoEvent: true}}
				}
			case "Identical", "IdenticalIgnoreTags":
				if len(rest) == 2 {
					return []Answer{{Ret: []AV{mkBool(norm(lab(rest[0])) == norm(lab(rest[1])))}, Label: "identical(" + norm(lab(rest[0])) + "," + norm(lab(rest[1])) + ")"}}
				}
			}
			return nil
		})
		return in
	}
	for _, f := range r.w.FuncsOf(pathRw) {
		if f.Signature.Recv() != nil || f.Parent() != nil || f.Signature.Results().Len() != 1 || fn.Signature.Recv() == nil ||
			!types.Identical(f.Signature.Results().At(0).Type(), fn.Signature.Recv().Type()) || built != nil {
			continue
		}
		var args []AV
		for _, p := range f.Params {
			args = append(args, Sym{Name: p.Name(), NN: true})
		}
		cin := newIn(f)
		couts := cin.Run(newState(), f, args, nil)
		r.account(cin)
		if len(couts) == 1 && !couts[0].Panicked && !couts[0].St.Truncated && len(couts[0].Ret) == 1 {
			if _, isRef := couts[0].Ret[0].(Ref); isRef {
				built, builtR = couts[0].St, couts[0].Ret[0]
			}
		}
	}
	runFrom := func(st *State, arg AV) (outs []Outcome) {
		in := newIn(fn)
		if built != nil {
			outs = in.Run(st, fn, []AV{builtR, arg}, nil)
		} else {
			outs = in.Run(st, fn, []AV{Sym{Name: "r", NN: true}, arg}, nil)
		}
		r.account(in)
		return outs
	}
	run = func(arg AV) (outs []Outcome) {
		if built != nil {
			return runFrom(built.clone(), arg)
		}
		return runFrom(newState(), arg)
	}
	// the same rewriter answers many questions: whatever an earlier answer leaves behind in it (a memo) must not
	// decide a later one
	runAfter := func(first, second AV) (outs []Outcome) {
		for _, o := range run(first) {
			if o.Panicked {
				continue
			}
			outs = append(outs, runFrom(o.St, second)...)
		}
		return outs
	}
	verdict := func(outs []Outcome) (allTrue, allFalse bool, why string) {
		allTrue, allFalse = len(outs) > 0, len(outs) > 0
		for _, o := range outs {
			if o.Panicked || len(o.Ret) != 1 {
				return false, false, "a path panics or returns nothing: " + pathSummary(o)
			}
			b, known := asBool(o.Ret[0])
			if !known {
				return false, false, "the answer is not decided by identity questions about the type (it depends on " + canon(o.Ret[0]) + "): " + pathSummary(o)
			}
			if b {
				allFalse = false
				why = pathSummary(o)
			} else {
				allTrue = false
				why = pathSummary(o)
			}
		}
		return
	}
	_, otherFalse, why := verdict(run(mk("other", true)))
	c.check(otherFalse, "RW.ITERPRED", "a different type with the same name", pos,
		"a named type of another package whose name, Id and printed form equal those of co.Iter is not taken for the iterator type on any path",
		"a named type that only *spells* like co.Iter (same Name / Id / printed form, different object and package) is taken for the iterator type: its mentions would be rewritten into seq.Iterator[T] and functions returning it would be treated as generators: "+why)
	instTrue, _, why2 := verdict(run(mk("inst", true)))
	c.check(instTrue, "RW.ITERPRED", "an instance of the API's iterator type", pos,
		"an instance of co.Iter is recognised on every path", "an instance of co.Iter is not recognised: "+why2)
	_, otherFalse2, why3 := verdict(runAfter(mk("inst", true), mk("other", true)))
	c.check(otherFalse2, "RW.ITERPRED", "a different type with the same name, asked after an instance", pos,
		"the answer for the like-named type does not depend on an earlier answer of the same rewriter",
		"once an instance of co.Iter has been recognised, a named type that only spells like it is taken for the iterator type too (an answer remembered under a spelling): "+why3)
	instTrue2, _, why4 := verdict(runAfter(mk("other", true), mk("inst", true)))
	c.check(instTrue2, "RW.ITERPRED", "an instance of the API's iterator type, asked after a like-named type", pos,
		"an instance of co.Iter is recognised whatever was asked before",
		"once a like-named type has been rejected, an instance of co.Iter is rejected too (an answer remembered under a spelling): its loops stay unlowered while their operand's type is rewritten: "+why4)
}
