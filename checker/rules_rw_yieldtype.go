package main

// RW.YIELDTYPE: the type check of a yield's operand. A generator of element type T may yield every
// value that is assignable to T (Yield(1) in an Iter[any] generator, a concrete type in an interface
// element type): the check must not reject such a yield — rejecting is a compiler panic on a program of
// the supported subset (C11). Whether mismatching operands are rejected is not judged here: accepting
// them produces output that does not build, which none of the properties forbids.

import (
	"fmt"
	"strings"
)

func (r *rwRT) ruleYieldType() {
	c := r.c
	c.min("RW.YIELDTYPE", 1)
	fn := r.w.MethodOpt(pathRw, "yieldRewriter", "checkYieldCall")
	if fn == nil {
		// no separate type check of the operand: nothing can reject an assignable one
		c.ok("RW.YIELDTYPE", "yield operand assignable to the element type", "", "the rewriter has no type check of its own for yield operands (the Go type checker decides)")
		return
	}
	c.fn(relName(fn))
	pos := r.w.FnPos(fn)
	st := newState()
	arg := exprLeaf(r, "arg0")
	callRef, _ := r.heapNode(st, "CallExpr", map[string]AV{"Fun": exprLeaf(r, "Yield"), "Args": SliceV{Elems: []AV{arg}}, "Lparen": Sym{Name: "lp"}})
	in := r.interp(rwConfig{root: fn, inlineAll: true})
	elem := exprLeaf(r, "T")
	in.Fields["r.yieldAst.funRetParamTy"] = elem
	tArg, tElem := Sym{Name: "typeof:arg", NN: true}, Sym{Name: "typeof:elem", NN: true}
	in.OnCall = wrapOnCall(in.OnCall, func(cc *CallCtx) []Answer {
		if cc.Fn == nil {
			return nil
		}
		switch {
		case cc.Fn.Name() == "TypeOf" && len(cc.Args) >= 1:
			if sameAV(unwrap(cc.Args[len(cc.Args)-1]), unwrap(arg)) {
				return []Answer{{Ret: []AV{tArg}, NoEvent: true}}
			}
			if sameAV(unwrap(cc.Args[len(cc.Args)-1]), unwrap(elem)) {
				return []Answer{{Ret: []AV{tElem}, NoEvent: true}}
			}
		case fnPkgPath(cc.Fn) == "go/types" && cc.Fn.Signature.Results().Len() == 1 && len(cc.Args) == 2:
			// a binary predicate over types: only "operand assignable to element type" is the question
			if cc.Fn.Name() == "AssignableTo" && sameAV(cc.Args[0], tArg) && sameAV(cc.Args[1], tElem) {
				return []Answer{{Ret: []AV{mkBool(true)}, Label: "fits=true"}, {Ret: []AV{mkBool(false)}, Label: "fits=false"}}
			}
			return []Answer{{Ret: []AV{mkBool(true)}, Label: "other=true"}, {Ret: []AV{mkBool(false)}, Label: "other=false"}}
		}
		return nil
	})
	outs := in.Run(st, fn, []AV{Sym{Name: "r", NN: true}, callRef}, nil)
	r.account(in)
	bad := ""
	accepting := 0
	for _, o := range outs {
		fitsFalse := false
		for _, l := range o.St.Labels {
			if l == "fits=false" {
				fitsFalse = true
			}
		}
		if !o.Panicked {
			accepting++
			continue
		}
		if !fitsFalse {
			bad = "a yield is rejected on a path that did not find its operand unassignable to the element type (" + strings.Join(o.St.Labels, ", ") + "): e.g. Yield(1) in a generator of element type any no longer compiles"
		}
	}
	c.check(bad == "" && accepting > 0, "RW.YIELDTYPE", "yield operand assignable to the element type", pos,
		fmt.Sprintf("%d paths: a yield is rejected only when types.AssignableTo(typeof(operand), element type) is false", len(outs)),
		map[bool]string{true: bad, false: "every path rejects the yield"}[bad != ""])
}
