package main

func runControls(c *Ctx, spec propSpec, o opts) {}
func cmdControl(args []string) int             { return 0 }
