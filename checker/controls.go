package main

// Positive controls: is each rule still able to fire?
//
// A control is a one-construct mutation of /repo's *current* source, applied in
// memory through go/packages' overlay (nothing is written to disk). The
// property's rules are run on the mutated program and the named rule must
// report a violation. A control whose anchor text is no longer present, or
// whose mutant does not type-check, is reported "skipped" and does not fail the
// check (the tree may legitimately have changed); a control that applies but is
// not detected is printed as CONTROL-WARNING and recorded in the evidence: after
// a refactoring the mutated construct may have become redundant, so it must not
// fail a check on a tree where the property holds (vacuity is guarded by the
// minimum instance counts of the rules).

import (
	"fmt"
	"os"
	"path/filepath"
	"strings"
)

type control struct {
	Name  string
	Props []string
	Quick bool
	File  string
	Old   string
	New   string
	Rule  string
}

var controls = []control{
	{"for-post-before-first-iteration", []string{"C08", "C01"}, true, "seq/seq.go", "\t\tloop(true)\n", "\t\tloop(false)\n", "SEQ.FOR"},
	{"combine-runs-rest-on-continue", []string{"C08"}, true, "seq/seq.go", "if t == kNormal {", "if t == kNormal || t == kContinue {", "SEQ.COMBINE"},
	{"pending-step-not-cleared", []string{"C08", "C02"}, false, "seq/seq.go", "\t\ts := c.step   // otherwise nil\n\t\tc.step = nil\n", "\t\ts := c.step   // otherwise nil\n", "SEQ.TAKE"},
	{"bind-runs-thunk-eagerly", []string{"C02", "C08"}, true, "seq/seq.go", "\treturn func(c *co[V], k cont[V]) {\n\t\tc.step = &step[V]{\n\t\t\tvalue: v,\n\t\t\tnext:  mkNext(f, c, k),", "\tf()\n\treturn func(c *co[V], k cont[V]) {\n\t\tc.step = &step[V]{\n\t\t\tvalue: v,\n\t\t\tnext:  mkNext(f, c, k),", "SEQ.LAZY"},
	{"exhaustion-not-absorbing", []string{"C09", "C02"}, true, "seq/seq.go", "\t\td.next = nil\n\t\td.current = zero[V]()", "\t\td.current = zero[V]()", "SEQ.GEN"},
	{"send-passes-zero", []string{"C09"}, true, "seq/seq.go", "\tif d.moveNext(v) {", "\tif d.moveNext(zero[V]()) {", "SEQ.GEN"},
	{"current-not-reset", []string{"C09"}, false, "seq/seq.go", "\t\td.next = nil\n\t\td.current = zero[V]()\n", "\t\td.next = nil\n", "SEQ.GEN"},
	{"integer-iter-off-by-one", []string{"C10", "C04"}, true, "seq/iter.go", "\tif i.next >= i.n {", "\tif i.next > i.n {", "ITER.IV"},
	{"string-iter-runelen", []string{"C10"}, true, "seq/iter.go", "s.next += w", "s.next += utf8.RuneLen(r) + w - w", "ITER.STR"},
	{"map-iter-panicking-assert", []string{"C10"}, false, "seq/iter.go", "k, _ := m.iter.Key().Interface().(K)", "k := m.iter.Key().Interface().(K)", "ITER.ASSERT"},
	{"slice-iter-copies", []string{"C10"}, false, "seq/iter.go", "return &sliceIter[V]{slice: slice, idx: -1}", "return &sliceIter[V]{slice: append([]V(nil), slice...), idx: -1}", "ITER.IV"},
	{"package-level-state", []string{"C14"}, true, "seq/seq.go", "func Delay[V any](f lazy[V]) Seq[V] {\n\treturn func(c *co[V], k cont[V]) {\n", "var delayRuns int\n\nfunc Delay[V any](f lazy[V]) Seq[V] {\n\treturn func(c *co[V], k cont[V]) {\n\t\tdelayRuns++\n", "SEQ.STATE"},
	{"loop-state-hoisted", []string{"C14"}, true, "seq/seq.go", "\treturn func(c *co[V], k cont[V]) {\n\t\tvar loop func(skipPost bool)\n", "\tvar loop func(skipPost bool)\n\treturn func(c *co[V], k cont[V]) {\n", "SEQ.STATE"},
	{"trampoline-removed", []string{"C17"}, true, "seq/seq.go", "\t\t\t\t\t\tif inBody {\n\t\t\t\t\t\t\tagain = true\n\t\t\t\t\t\t} else {", "\t\t\t\t\t\tif inBody && false {\n\t\t\t\t\t\t\tagain = true\n\t\t\t\t\t\t} else {", "SEQ.STACK.HEIGHT"},
	{"recover-in-advance", []string{"C18"}, true, "seq/seq.go", "func (d *generator[V]) moveNext(sent V) bool {\n", "func (d *generator[V]) moveNext(sent V) bool {\n\tdefer func() { recover() }()\n", "SEQ.SYNC"},
	{"state-overwritten-before-step", []string{"C18"}, false, "seq/seq.go", "\ts := d.next(sent) // compute next step\n", "\td.current = zero[V]()\n\ts := d.next(sent) // compute next step\n", "SEQ.CHAIN"},
	{"implicit-normal-table", []string{"C01", "C11"}, true, "rewriter/yield_block.go", "\tcase kindIf, kindSwitch, kindTrival:\n\t\treturn !isTerminating(last)", "\tcase kindIf, kindTrival:\n\t\treturn !isTerminating(last)", "RW.KINDTAB"},
	{"break-ignores-native-switch", []string{"C01"}, true, "rewriter/yield_rewrite.go", "\t\t\t\tif inLoop() || inSwitch() {\n\t\t\t\t\treturn\n\t\t\t\t}\n\t\t\t\tr.assert(n.Label == nil, n, \"break", "\t\t\t\tif inLoop() {\n\t\t\t\t\treturn\n\t\t\t\t}\n\t\t\t\tr.assert(n.Label == nil, n, \"break", "RW.BRANCHCTX"},
	{"switch-case-list-dropped", []string{"C01"}, true, "rewriter/yield_rewrite.go", "\t\tcases = append(cases, X.Case(clause.List, caseBody.block.List))", "\t\tcases = append(cases, X.Case(nil, caseBody.block.List))", "RW.TMPL.SWITCH"},
	{"if-else-takes-then-block", []string{"C01"}, false, "rewriter/yield_rewrite.go", "\t\telsStmt := unwrapIf(els.block)\n\t\tiff := X.IfStmt(stmt.Init, stmt.Cond, body.block, elsStmt)\n\t\tchildren.push(iff, kindIf)\n\t\treturn\n\n\tcase *ast.IfStmt:", "\t\telsStmt := unwrapIf(body.block)\n\t\tiff := X.IfStmt(stmt.Init, stmt.Cond, body.block, elsStmt)\n\t\t_ = els\n\t\tchildren.push(iff, kindIf)\n\t\treturn\n\n\tcase *ast.IfStmt:", "RW.TMPL.IF"},
	{"combine-first-half-not-closed", []string{"C01", "C03"}, false, "rewriter/yield_rewrite.go", "\tcurrent.push(children.pop())\n\tr.generateLastNormalIfNecessary(current)\n", "\tcurrent.push(children.pop())\n", "RW.TMPL.COMBINESPLIT"},
	{"for-args-swapped", []string{"C01", "C02"}, false, "rewriter/yield_ast.go", "\treturn y.SeqCall(cstFor, cond, post, body)", "\treturn y.SeqCall(cstFor, post, cond, body)", "RW.TMPL.FOR"},
	{"defer-not-rejected", []string{"C12"}, true, "rewriter/yield_rewrite.go", "\t\t*ast.LabeledStmt, *ast.CaseClause,\n\t\t*ast.DeferStmt:", "\t\t*ast.LabeledStmt, *ast.CaseClause:", "RW.DISPATCH"},
	{"if-init-unguarded", []string{"C12"}, true, "rewriter/yield_rewrite.go", "\tr.assert(r.mustNoYield(stmt.Init), stmt, \"yield in if-init not supported\")\n", "", "RW.FIELDCOV"},
	{"labelled-break-accepted", []string{"C12"}, false, "rewriter/yield_rewrite.go", "\t\t\t\tr.assert(n.Label == nil, n, \"break with label not supported\")\n", "", "RW.BRANCHCTX"},
	{"signature-check-dropped", []string{"C12"}, false, "rewriter/rewrite.go", "\t\t\t\t\tcheckSignature(info.TypeOf(f.Name), n.Pos())\n", "", "RW.SIG"},
	{"tagless-switch-panics", []string{"C11"}, true, "rewriter/etc.go", "\tcase nil: // tag-less switch\n\t\treturn X.SwitchStmt(init, nil, body)\n", "", "RW.FACTORY"},
	{"loop-body-not-closed", []string{"C11"}, true, "rewriter/yield_rewrite.go", "\t\tr.generateLastNormalIfNecessary(body)\n\t\tcallFor := r.CallFor(\n\t\t\tr.ForCondFun(stmt.Cond),\n\t\t\tr.ForPostFun(stmt.Post),", "\t\tcallFor := r.CallFor(\n\t\t\tr.ForCondFun(stmt.Cond),\n\t\t\tr.ForPostFun(stmt.Post),", "RW.CLOSE"},
	{"unlabelled-break-panics", []string{"C11"}, false, "rewriter/return.go", "\t\t\tif s.Label != nil {\n\t\t\t\tpanic(\"labelled break not supported\")", "\t\t\tif s.Label == nil {\n\t\t\t\tpanic(\"labelled break not supported\")", "RW.EXH"},
	{"bind-whitelisted", []string{"C02", "C07", "C18"}, true, "rewriter/optimize.go", "\t\tcstLoop,\n\t\tcstReturn,\n\t)", "\t\tcstLoop,\n\t\tcstReturn,\n\t\tcstBind,\n\t)", "OPT.WHITELIST"},
	{"bind-literal-widened", []string{"C07", "C02"}, false, "rewriter/optimize.go", "matcher.MkPattern[BasicLitPattern](m, constTrue), // literal", "matcher.MkPattern[ExprPattern](m, constTrue), // anything", "OPT.BINDLIT"},
	{"eta-callee-unchecked", []string{"C07", "C13"}, true, "rewriter/optimize.go", "\t\t\t\tstableCallee(ctx, fun, false) && sameType(ctx, c.Node(), fun) {", "\t\t\t\tsameType(ctx, c.Node(), fun) {", "OPT.ETA"},
	{"iter-type-predicate-dropped", []string{"C13"}, true, "rewriter/rewrite.go", "\t\tif r.isIterator(pkg.TypeOf(n.X)) {\n\t\t\tc.Replace(X.Index(", "\t\tif r.isIterator(pkg.TypeOf(n.X)) || true {\n\t\t\tc.Replace(X.Index(", "RW.MUTGUARD"},
	{"range-body-spliced", []string{"C03", "C04"}, true, "rewriter/range.go", "\t\tbody := X.Block(kv, n.Body)\n", "\t\tbody := X.Block1(kv, n.Body.List...)\n", "RW.TMPL.RANGE"},
	{"hoist-without-block", []string{"C03"}, true, "rewriter/yield_rewrite.go", "\t\t\tif inYieldFunc() && isDefineStmt(n.Init) {\n\t\t\t\tinit := n.Init\n\t\t\t\tn.Init = nil\n\t\t\t\tn.For = token.NoPos\n\t\t\t\tc.Replace(X.Block(init, n))", "\t\t\tif inYieldFunc() && isDefineStmt(n.Init) {\n\t\t\t\tinit := n.Init\n\t\t\t\tn.Init = nil\n\t\t\t\tn.For = token.NoPos\n\t\t\t\tc.InsertBefore(init)", "RW.TMPL.HOIST"},
	{"string-range-wrong-iter", []string{"C04"}, true, "rewriter/range.go", "\t\t\t\t\tdo(cstNewStringIter, n.X)", "\t\t\t\t\tdo(cstNewSliceIter, n.X)", "RW.RANGEDISPATCH"},
	{"yieldfrom-yields-twice", []string{"C05"}, true, "rewriter/yieldfrom_rewrite.go", "\t\tBody: X.Block(callYield),", "\t\tBody: X.Block(callYield, callYield),", "RW.TMPL.YIELDFROM"},
	{"consumer-operand-twice", []string{"C05", "C06"}, true, "rewriter/rewrite.go", "\tcond := X.Call(next)\n\tbody := X.Block1(", "\tcond := X.Call(X.Select(fr.X, cstMoveNext))\n\t_ = next\n\tbody := X.Block1(", "RW.TMPL.CONSUMER"},
	{"consumer-always-define", []string{"C06"}, true, "rewriter/rewrite.go", "X.Assign(fr.Tok, fr.Key, X.Call(current))", "X.Define(fr.Key, X.Call(current))", "RW.TMPL.CONSUMER"},
	{"gensym-counter-frozen", []string{"C15"}, true, "rewriter/range.go", "\tr.symCnt++\n", "", "DET.GENSYM"},
	{"map-order-dependence", []string{"C15"}, true, "rewriter/rewrite.go", "\tr.yieldFuncLits = map[*ast.FuncLit]bool{}\n", "\tr.yieldFuncLits = map[*ast.FuncLit]bool{}\n\tfor k := range r.yieldFuncDecls {\n\t\t_ = k\n\t}\n", "DET.MAPRANGE"},
	{"tmp-not-emptied", []string{"C15", "C16"}, false, "rewriter/compile.go", "\ttmpOutputDir := mustMkEmptyDir(dir + \"_tmp\")", "\ttmpOutputDir := mustMkDir(dir + \"_tmp\")", "DET.TMP"},
	{"header-without-negation", []string{"C16"}, true, "rewriter/compile.go", "const fileComment = `//go:build !%s", "const fileComment = `//go:build %s", "GEN.HEADER"},
	// --- controls for the rules added after the second and third seeding rounds
	{"for-init-dropped", []string{"C01", "C02"}, false, "rewriter/yield_rewrite.go", "\t// extract out init stmt if present\n\tif stmt.Init != nil {\n\t\t// details referring to comment in rewriteInitStmt\n\t\tassert(!isDefineStmt(stmt.Init))\n\t\tchildren = r.rewriteStmt(stmt.Init, false, children)", "\t// extract out init stmt if present\n\tif stmt.Init != nil {\n\t\t// details referring to comment in rewriteInitStmt\n\t\tassert(!isDefineStmt(stmt.Init))\n\t\tif !trivalInit {\n\t\t\tchildren = r.rewriteStmt(stmt.Init, false, children)\n\t\t}", "RW.NOLOSS"},
	{"switch-tag-replaced", []string{"C01", "C02", "C03"}, false, "rewriter/yield_rewrite.go", "\t// not all case trival\n\tswitchStmt := X.Switch(\n\t\tnil,\n\t\tx,\n", "\t// not all case trival\n\tif as, ok := x.(*ast.AssignStmt); ok {\n\t\tx = X.Stmt(as.Rhs[0])\n\t}\n\tswitchStmt := X.Switch(\n\t\tnil,\n\t\tx,\n", "RW.TMPL.SWITCH.GUARD"},
	{"range-bindings-split", []string{"C04"}, false, "rewriter/range.go", "\t\tbody := X.Block1(kv, n.Body.List...)\n", "\t\tbody := X.Block1(kv, n.Body.List...)\n\t\tif len(kv.Lhs) == 2 {\n\t\t\tbody = X.Block1(X.Assign(kv.Tok, kv.Lhs[0], kv.Rhs[0]), append([]ast.Stmt{X.Assign(kv.Tok, kv.Lhs[1], kv.Rhs[1])}, n.Body.List...)...)\n\t\t}\n", "RW.TMPL.RANGE.TUPLE"},
	{"consumer-loop-edited-before-lowering", []string{"C06", "C05"}, false, "rewriter/rewrite.go", "\t\tif r.isIterator(pkg.TypeOf(n.X)) {\n\t\t\tc.Replace(r.rewriteForRange(pkg, n))", "\t\tif r.isIterator(pkg.TypeOf(n.X)) {\n\t\t\tif len(n.Body.List) == 0 {\n\t\t\t\tn.Tok = token.ASSIGN\n\t\t\t}\n\t\t\tc.Replace(r.rewriteForRange(pkg, n))", "RW.TMPL.CONSUMER"},
	{"file-skip-on-import-spelling", []string{"C11"}, false, "rewriter/rewrite.go", "\t\tif !imports.Uses(f, coPkg.Types) {", "\t\tif !astutil.UsesImport(f.File, pkgCoPath) {", "RW.ALLFILES"},
	{"file-dedupe-by-package-name", []string{"C15", "C13"}, false, "rewriter/rewrite.go", "\tr.m.Loader.VisitAllFiles(func(f *loader.File) {\n\t\tif !imports.Uses(f, coPkg.Types) {\n\t\t\tlog.Printf(\"skip file: %s\\n\", f.Filename)\n\t\t\treturn\n\t\t}\n", "\tseenPkg := map[string]bool{}\n\tr.m.Loader.VisitAllFiles(func(f *loader.File) {\n\t\tif !imports.Uses(f, coPkg.Types) {\n\t\t\tlog.Printf(\"skip file: %s\\n\", f.Filename)\n\t\t\treturn\n\t\t}\n\t\tif seenPkg[f.File.Name.Name] {\n\t\t\treturn\n\t\t}\n\t\tseenPkg[f.File.Name.Name] = true\n", "RW.ALLFILES"},
	{"comments-buffer-reused", []string{"C15", "C13"}, false, "rewriter/rewrite.go", "\tr.comments = nil\n", "\tr.comments = r.comments[:0]\n", "RW.FILEPASSES"},
	{"imports-cleaned-before-eta", []string{"C07", "C11"}, true, "rewriter/optimize.go", "\t\to.optimizeDelayCall()\n\t\t// o.optimizeBindCall()\n\t\to.etaReduction()\n\t\t// after the passes above, they may drop the last use of an import\n\t\to.optimizeImports(f)\n", "\t\to.optimizeImports(f)\n\t\to.optimizeDelayCall()\n\t\t// o.optimizeBindCall()\n\t\to.etaReduction()\n", "OPT.ORDER"},
	{"extra-rewrite-rule", []string{"C07", "C13", "C18"}, false, "rewriter/optimize.go", "\t\to.optimizeDelayCall()\n\t\t// o.optimizeBindCall()\n", "\t\to.optimizeDelayCall()\n\t\to.optimizeBindCall()\n", "OPT.RULES"},
	{"eta-user-iterator-method-value", []string{"C18", "C07"}, false, "rewriter/optimize.go", "\t\t\treturn ok && strings.HasPrefix(recv.Name, cstIterVar)", "\t\t\treturn ok && (strings.HasPrefix(recv.Name, cstIterVar) || recv.Name == \"it\")", "OPT.ETA"},
	{"combine-continuation-cached", []string{"C08", "C14"}, false, "seq/seq.go", "func Combine[V any](s1, s2 Seq[V]) Seq[V] {\n\treturn func(c *co[V], k cont[V]) {\n\t\ts1(c, func(t contType, v V) {", "func Combine[V any](s1, s2 Seq[V]) Seq[V] {\n\tvar k cont[V]\n\treturn func(c *co[V], k1 cont[V]) {\n\t\tif k == nil {\n\t\t\tk = k1\n\t\t}\n\t\ts1(c, func(t contType, v V) {", "SEQ.OVERLAP"},
	{"return-value-dropped", []string{"C08"}, false, "seq/seq.go", "// supporting generator with return value\n\treturn func(c *co[V], k cont[V]) {\n\t\tk(kReturn, v)\n", "// supporting generator with return value\n\treturn func(c *co[V], k cont[V]) {\n\t\tk(kReturn, zero[V]())\n", "SEQ.ROLE"},
	{"bind-continues-immediately", []string{"C08", "C02"}, false, "seq/seq.go", "\t\t\tvalue: v,\n\t\t\tnext:  mkNext(f, c, k),\n\t\t}\n", "\t\t\tvalue: v,\n\t\t\tnext:  mkNext(f, c, k),\n\t\t}\n\t\tk(kNormal, zero[V]())\n", "SEQ.SUSPEND"},
	{"start-result-not-recorded", []string{"C09", "C08"}, false, "seq/seq.go", "\t\tfunc(t contType, v V) { it.result = v },", "\t\tfunc(t contType, v V) {},", "SEQ.START"},
	{"result-hidden-until-started", []string{"C09"}, false, "seq/seq.go", "func (d *generator[V]) Result() V {\n\treturn d.result", "func (d *generator[V]) Result() V {\n\tif d.next != nil {\n\t\treturn zero[V]()\n\t}\n\treturn d.current", "SEQ.GEN"},
	{"string-iter-fast-path-unguarded", []string{"C10", "C04"}, false, "seq/iter.go", "\tr, w := utf8.DecodeRuneInString(s.str[s.next:])\n", "\tr, w := rune(s.str[s.next]), 1\n\tif r >= 0xC0 {\n\t\tr, w = utf8.DecodeRuneInString(s.str[s.next:])\n\t}\n", "ITER.STR"},
	{"switch-pushed-without-combine-check", []string{"C11", "C05"}, false, "rewriter/yield_rewrite.go", "\t\tchildren = r.combineIfNecessary(children) // for init containing yield\n\t\tchildren.push(switchStmt, kindTrival)", "\t\tchildren.push(switchStmt, kindTrival)", "RW.BLOCKSTATE"},
	{"doc-comments-not-collected", []string{"C13"}, false, "rewriter/rewrite.go", "\t\tf.File.Comments = mergeComments(docComments(f.File), r.comments)\n", "\t\tf.File.Comments = mergeComments(nil, r.comments)\n", "RW.COMMENTS"},
	{"test-suffix-unmapped", []string{"C16"}, true, "rewriter/compile.go", "\t\t\tfilename = strings.TrimSuffix(filename, testFileSuffix) + \"_test.go\"", "\t\t\tfilename = strings.TrimSuffix(filename, testFileSuffix) + \".go\"", "GEN.NAME"},
	// --- controls for the remaining rules (one per rule that had none)
	{"pid-in-file-header", []string{"C15"}, false, "rewriter/compile.go", "\tcomment := fmt.Sprintf(fileComment, defaultBuildTag)\n", "\tcomment := fmt.Sprintf(fileComment, defaultBuildTag) + fmt.Sprintf(\"// pid %d\\n\", os.Getpid())\n", "DET.SOURCES"},
	{"test-mode-inverted", []string{"C15", "C16"}, false, "rewriter/etc.go", "var runningWithGoTest = flag.Lookup(\"test.v\") != nil ||", "var runningWithGoTest = flag.Lookup(\"test.v\") == nil ||", "DET.TESTMODE"},
	{"gofile-check-disabled", []string{"C16"}, false, "cmd/cogen/main.go", "\tif goFile == \"\" {", "\tif goFile == \"\" && len(os.Args) > 99 {", "GEN.ENV"},
	{"file-filter-accepts-all", []string{"C16"}, false, "rewriter/compile.go", "loader.WithFileFilter(func(f *loader.File) bool { return isCoFile(f.Filename) }),", "loader.WithFileFilter(func(f *loader.File) bool { _ = isCoFile(f.Filename); return true }),", "GEN.FILTER"},
	{"custom-tag-ignored-by-loader", []string{"C16"}, false, "rewriter/compile.go", "\t\t\tloader.WithBuildTag(opt.buildTag),\n", "\t\t\tloader.WithBuildTag(defaultBuildTag),\n", "GEN.TAG"},
	{"chan-iter-value-dropped", []string{"C10"}, false, "seq/iter.go", "\tc.v, ok = <-c.ch\n", "\t_, ok = <-c.ch\n", "ITER.CHAN"},
	{"slice-iter-reads-first-element", []string{"C10"}, false, "seq/iter.go", "return pair[int, V]{Key: s.idx, Val: s.slice[s.idx]}", "return pair[int, V]{Key: s.idx, Val: s.slice[0]}", "ITER.LIVE"},
	{"map-iter-skips-entries", []string{"C10", "C04"}, false, "seq/iter.go", "\treturn m.iter.Next()\n", "\tm.iter.Next()\n\treturn m.iter.Next()\n", "ITER.MAP"},
	{"current-advances", []string{"C10"}, false, "seq/iter.go", "\treturn pair[T, any]{Key: i.i}\n", "\ti.i++\n\treturn pair[T, any]{Key: i.i - 1}\n", "ITER.PURE"},
	{"redundant-return-removed-when-reachable", []string{"C01"}, false, "rewriter/yield_rewrite.go", "\t\t\t\t\tif r.isTerminating(X.Block(stmts...)) {\n\t\t\t\t\t\tbody.List = stmts", "\t\t\t\t\tif !r.isTerminating(X.Block(stmts...)) {\n\t\t\t\t\t\tbody.List = stmts", "RW.BRANCHCTX.RMRET"},
	{"native-range-body-not-visited", []string{"C12"}, false, "rewriter/yield_rewrite.go", "\t\t\tr.rewriteBlockStmt(rg.Body, kindFor)\n", "\t\t\t_ = rg\n", "RW.DEEPVISIT"},
	{"seq-used-under-other-name", []string{"C11"}, false, "rewriter/rewrite.go", "\t\t\tseqName = importSeqName\n", "\t\t\tseqName = pkgSeqName\n", "RW.IMPORT"},
	{"block-without-ast-block", []string{"C01"}, false, "rewriter/yield_block.go", "\t\tblock:          X.Block(),\n", "", "RW.INV.BLOCK"},
	{"post-runs-in-goroutine", []string{"C18"}, false, "rewriter/yield_ast.go", "\t\tBody: X.Block(post),\n", "\t\tBody: X.Block(&ast.GoStmt{Call: X.Call(&ast.FuncLit{Type: &ast.FuncType{Params: X.Fields(), Results: X.Fields()}, Body: X.Block(post)})}),\n", "RW.NOASYNC"},
	{"range-lowering-declares-var", []string{"C13", "C14"}, false, "rewriter/range.go", "\t\tbody := X.Block(kv, n.Body)\n", "\t\tbody := X.Block(&ast.DeclStmt{Decl: &ast.GenDecl{Tok: token.VAR}}, kv, n.Body)\n", "RW.NODECL"},
	{"yieldfrom-not-seen-by-oracle", []string{"C12", "C13"}, false, "rewriter/rewrite.go", "\t\t\t\tif callee == r.yieldFunc || callee == r.yieldFromFunc {\n\t\t\t\t\tcontains = true", "\t\t\t\tif callee == r.yieldFunc {\n\t\t\t\t\tcontains = true", "RW.ORACLE"},
	{"for-define-init-pushed-out", []string{"C03"}, false, "rewriter/yield_rewrite.go", "\t\tassert(!isDefineStmt(stmt.Init))\n\t\tchildren = r.rewriteStmt(stmt.Init, false, children)", "\t\tchildren = r.rewriteStmt(stmt.Init, false, children)", "RW.SCOPE.INIT"},
	{"condless-for-always-terminating", []string{"C11"}, false, "rewriter/return.go", "\t\tif s.Cond == nil && !hasBreak(s.Body) {", "\t\tif s.Cond == nil {", "RW.TERM"},
	{"bind-continuation-dropped", []string{"C03", "C02"}, false, "rewriter/yield_ast.go", "\treturn y.SeqCall(cstBind,\n\t\tv,\n\t\ty.Thunk(body),", "\treturn y.SeqCall(cstBind,\n\t\tv,\n\t\ty.Thunk(X.Block()),", "RW.TMPL.BIND"},
	{"combine-halves-swapped", []string{"C03", "C07", "C02"}, false, "rewriter/yield_ast.go", "\t\ty.CallDelay(s1),\n\t\ty.CallDelay(s2),", "\t\ty.CallDelay(s2),\n\t\ty.CallDelay(s1),", "RW.TMPL.COMBINE"},
	{"yielding-post-appended-to-yielding-body", []string{"C03", "C01", "C05"}, false, "rewriter/yield_rewrite.go", "\tif body.combineRequired() {\n\t\t// combine(delay(body), delay(post))", "\tif body.combineRequired() && len(body.kinds) > 99 {\n\t\t// combine(delay(body), delay(post))", "RW.TMPL.FORPOST"},
	{"iter-type-argument-replaced", []string{"C06"}, false, "rewriter/rewrite.go", "\t\t\t\tX.PkgSelect(r.seqImportedName, cstIterator),\n\t\t\t\tn.Index,", "\t\t\t\tX.PkgSelect(r.seqImportedName, cstIterator),\n\t\t\t\tn.X,", "RW.TMPL.ITERTYPE"},
	{"range-temp-not-gensymed", []string{"C03", "C04", "C15"}, false, "rewriter/range.go", "\tit := X.Ident(r.gensym(cstIterVar))", "\tit := X.Ident(cstIterVar)", "RW.TMPL.RANGE.GENSYM"},
	{"return-lowered-to-normal", []string{"C01", "C02", "C18"}, false, "rewriter/yield_rewrite.go", "\t\t\t\tc.Replace(X.Return(r.CallReturn()))", "\t\t\t\tc.Replace(X.Return(r.CallNormal()))", "RW.TMPL.RETURN"},
	{"start-without-delay", []string{"C03", "C02"}, false, "rewriter/yield_ast.go", "\treturn y.SeqCall(cstStart,\n\t\ty.CallDelay(body),", "\treturn y.SeqCall(cstStart,\n\t\tX.Call(y.Thunk(body)),", "RW.TMPL.YIELDFUNC"},
	{"delay-runs-thunk-at-construction", []string{"C01", "C02", "C08", "C18"}, false, "seq/seq.go", "func Delay[V any](f lazy[V]) Seq[V] {\n\treturn func(c *co[V], k cont[V]) {\n\t\tf()(c, k)\n", "func Delay[V any](f lazy[V]) Seq[V] {\n\ts := f()\n\treturn func(c *co[V], k cont[V]) {\n\t\ts(c, k)\n", "SEQ.DELAY"},
	{"static-recursion-in-runtime", []string{"C17"}, false, "seq/seq.go", "func Delay[V any](f lazy[V]) Seq[V] {\n", "func Delay[V any](f lazy[V]) Seq[V] {\n\tif f == nil {\n\t\treturn Delay[V](f)\n\t}\n", "SEQ.STACK.REC"},
	// --- controls for the rules that came out of the mutation sweep
	{"yield-type-check-swapped", []string{"C11"}, false, "rewriter/yield_rewrite.go", "types.AssignableTo(v, t)", "types.AssignableTo(t, v)", "RW.YIELDTYPE"},
	{"spec-doc-comments-not-collected", []string{"C13"}, false, "rewriter/rewrite.go", "\t\tcase *ast.ValueSpec:\n\t\t\tadd(n.Doc, n.Comment)\n", "", "RW.COMMENTS"},
	{"comments-merged-in-reverse-order", []string{"C13"}, false, "rewriter/rewrite.go", "return zs[i].Pos() < zs[j].Pos()", "return zs[i].Pos() > zs[j].Pos()", "RW.COMMENTS"},
	{"trivial-else-if-pushed-into-its-else-block", []string{"C11"}, false, "rewriter/yield_rewrite.go", "\t\tr.rewriteIfStmt(alt, els)\n\t\tisTrival := body.mustNoYield() && els.mustNoYield()\n\t\tif isTrival {\n\t\t\tchildren.push(stmt, kindTrival)", "\t\tr.rewriteIfStmt(alt, els)\n\t\tisTrival := body.mustNoYield() && els.mustNoYield()\n\t\tif isTrival {\n\t\t\tels.push(stmt, kindTrival)", "RW.DISPATCH"},
	{"keyless-consumer-loop-rejected", []string{"C06", "C11"}, false, "rewriter/rewrite.go", "\tr.assert(pkg, fr.Value == nil, fr, \"invalid for range\")", "\tr.assert(pkg, fr.Key != nil && fr.Value == nil, fr, \"invalid for range\")", "RW.TMPL.CONSUMER"},
	{"eta-partial-instantiation", []string{"C07", "C13"}, false, "rewriter/optimize.go", "\t\t\treturn sig, sig.TypeParams().Len() == typeArgs", "\t\t\treturn sig, typeArgs > 0 || sig.TypeParams().Len() == 0", "OPT.ETA"},
	{"labelled-range-gets-an-iterator-inserted", []string{"C11", "C13"}, false, "rewriter/range.go", "\t\t\tif c.Index() < 0 {", "\t\t\tif c.Index() < -1 {", "RW.RANGEDISPATCH"},
	{"iterator-type-recognised-by-name", []string{"C13", "C06"}, false, "rewriter/rewrite.go", "\treturn identicalWithoutTypeParam(r.iterType.Type(), ty)", "\tnamed, ok := ty.(*types.Named)\n\treturn ok && named.Obj().Id() == r.iterType.Id()", "RW.ITERPRED"},
	{"file-chosen-after-the-passes", []string{"C13", "C16"}, false, "rewriter/optimize.go", "\t\tif !usesSeq[f.Filename] {", "\t\tif !imports.Uses(f, seqPkg.Types) {", "OPT.ORDER"},
	{"yield-used-as-a-value-accepted", []string{"C12"}, false, "rewriter/rewrite.go", "\t\t\t\tvalueUses = append(valueUses, n)", "\t\t\t\t_ = n", "RW.ORACLE"},
	{"trivial-switch-tagged-delay", []string{"C11"}, false, "rewriter/yield_rewrite.go", "\t\tchildren = r.combineIfNecessary(children) // for init containing yield\n\t\tchildren.push(switchStmt, kindTrival)", "\t\tchildren = r.combineIfNecessary(children) // for init containing yield\n\t\tchildren.push(switchStmt, kindDelay)", "RW.BLOCKSTATE"},
	{"incdec-unknown-to-break-scan", []string{"C11"}, false, "rewriter/return.go", "*ast.IncDecStmt, *ast.AssignStmt, *ast.GoStmt, *ast.DeferStmt,\n\t\t*ast.RangeStmt /*range empty*/ :\n\t\t// no chance", "*ast.AssignStmt, *ast.GoStmt, *ast.DeferStmt,\n\t\t*ast.RangeStmt /*range empty*/ :\n\t\t// no chance", "RW.EXH"},
	{"switch-break-rewrite-enters-loops", []string{"C01"}, false, "rewriter/yield_rewrite.go", "\t\tcase *ast.ForStmt, *ast.RangeStmt, *ast.SwitchStmt, *ast.TypeSwitchStmt,\n\t\t\t*ast.SelectStmt, *ast.FuncLit:\n\t\t\treturn false // a break in there refers to that stmt", "\t\tcase *ast.SwitchStmt, *ast.TypeSwitchStmt,\n\t\t\t*ast.SelectStmt, *ast.FuncLit:\n\t\t\treturn false // a break in there refers to that stmt", "RW.SCOPEAGREE"},
	{"switch-breaks-not-rewritten", []string{"C01"}, false, "rewriter/yield_rewrite.go", "\tif !r.mustNoYield(body) {\n\t\tr.rewriteSwitchBreaks(body)\n\t}\n", "", "RW.SCOPEAGREE"},
}

func runControls(c *Ctx, spec propSpec, o opts) {
	if c.W == nil {
		return
	}
	for _, ctl := range controls {
		mine := false
		for _, p := range ctl.Props {
			if p == c.Prop {
				mine = true
			}
		}
		if !mine || (o.tier != "thorough" && !ctl.Quick) {
			continue
		}
		if only := os.Getenv("VERIF_CONTROL"); only != "" && !strings.Contains(","+only+",", ","+ctl.Name+",") {
			continue // debugging aid: run the named controls only
		}
		c.Controls = append(c.Controls, runControl(c, spec, ctl))
	}
}

func runControl(c *Ctx, spec propSpec, ctl control) ControlResult {
	res := ControlResult{Name: ctl.Name, Rule: ctl.Rule}
	path := filepath.Join(c.W.Repo, ctl.File)
	src, err := os.ReadFile(path)
	if err != nil {
		res.Result, res.Detail = "skipped", "file not found: "+ctl.File
		return res
	}
	if strings.Count(string(src), ctl.Old) != 1 {
		res.Result, res.Detail = "skipped", fmt.Sprintf("anchor text occurs %d times in %s (the construct has changed)", strings.Count(string(src), ctl.Old), ctl.File)
		return res
	}
	mutated := strings.Replace(string(src), ctl.Old, ctl.New, 1)
	w2, err := loadWorld(c.W.Repo, map[string][]byte{path: []byte(mutated)})
	if err != nil {
		res.Result, res.Detail = "skipped", "mutant does not type-check: "+firstLine(err.Error())
		return res
	}
	c2 := newCtx(c.Prop, c.Tier, c.Seed, w2)
	c2.guard("META.RUN", func() { spec.Run(c2) })
	c.Paths += c2.Paths
	c.States += c2.States
	baseline := map[string]bool{}
	for _, ob := range c.Obls {
		if ob.Status == Violated {
			baseline[ob.Key()] = true // already violated (known finding) on the unmutated tree
		}
	}
	for _, ob := range c2.Obls {
		// an obligation of the rule that can no longer be established counts: the check fails on it
		if ob.Rule == ctl.Rule && (ob.Status == Violated || ob.Status == Undecided) && !baseline[ob.Key()] {
			res.Result = "fired"
			res.Detail = ob.Construct
			return res
		}
	}
	// a rule of the same family (RW.TMPL.RANGE.GENSYM for RW.TMPL.RANGE ...) or an undecided verdict does not count
	var others []string
	for _, ob := range c2.Obls {
		if ob.Status != OK {
			others = append(others, ob.Rule+"("+string(ob.Status)+")")
		}
	}
	res.Result = "MISSED"
	res.Detail = fmt.Sprintf("mutation %q of %s applied, but rule %s reported no violation (other findings: %s)", ctl.Name, ctl.File, ctl.Rule, strings.Join(others, ", "))
	return res
}

func firstLine(s string) string {
	if i := strings.Index(s, "\n"); i >= 0 {
		s = s[:i]
	}
	if len(s) > 200 {
		s = s[:200]
	}
	return s
}

func cmdControl(args []string) int {
	// gocoverif control list
	for _, ctl := range controls {
		fmt.Printf("%-36s %-28s quick=%-5v %s (%s)\n", ctl.Name, ctl.Rule, ctl.Quick, strings.Join(ctl.Props, ","), ctl.File)
	}
	return 0
}
