package main

// SEQ.STACK (C17), SEQ.SYNC / SEQ.CHAIN (C18), SEQ.STATE (C14) and the K5
// resolved-program scans they share.

import (
	"fmt"
	"go/ast"
	"go/token"
	"go/types"
	"sort"
	"strings"

	"golang.org/x/tools/go/ssa"
)

// ------------------------------------------------------------------ SEQ.STACK

// ruleStack: abstract stack-height analysis of the loop driver. The loop
// combinators are abstractly evaluated with a body that completes
// synchronously; the height of the abstract activation stack at successive
// calls of the body must not increase. Growth per iteration is exactly the
// defect "stack use grows with the number of non-yielding iterations".
func (s *seqRT) ruleStack() {
	c := s.c
	roles := s.ruleRole()
	c.min("SEQ.STACK.HEIGHT", 3)
	for _, fc := range []forCase{{"For", false, false}, {"For", true, true}, {"While", false, true}, {"Loop", true, true}} {
		fn := s.w.Func(pathSeq, fc.ctor)
		pos := s.w.FnPos(fn)
		var cond, post AV = Sym{Name: "cond", NN: true}, Sym{Name: "post", NN: true}
		if fc.condNil {
			cond = Nil{}
		}
		if fc.postNil {
			post = Nil{}
		}
		body := Sym{Name: "body", NN: true}
		var args []AV
		switch fc.ctor {
		case "For":
			args = []AV{cond, post, body}
		case "While":
			args = []AV{cond, body}
		case "Loop":
			args = []AV{body}
		}
		const iters = 4
		in := s.interp()
		in.MaxRecur = iters + 3
		in.MaxVisits = iters + 3
		in.MaxDepth = 60
		in.OnCall = func(cc *CallCtx) []Answer {
			sym, ok := cc.Callee.(Sym)
			if !ok {
				return nil
			}
			switch sym.Name {
			case "cond":
				return []Answer{{Ret: []AV{mkBool(true)}, Label: "true"}}
			case "body":
				n := 0
				for _, e := range cc.St.Events {
					if e.Kind == "call" && isSymNamed(e.Callee, "body") {
						n++
					}
				}
				if n >= iters || len(cc.Args) != 2 {
					return []Answer{{Label: "suspend"}}
				}
				// non-yielding iteration: completes with Normal, or with Continue
				return []Answer{
					{Label: "sync:Normal", Invoke: []Invocation{{Fn: cc.Args[1], Args: []AV{roles.Normal, Sym{Name: "v"}}}}},
					{Label: "sync:Continue", Invoke: []Invocation{{Fn: cc.Args[1], Args: []AV{roles.Continue, Sym{Name: "v"}}}}},
				}
			}
			return nil
		}
		seq, st, ok := s.construct(in, "SEQ.STACK.HEIGHT", fc.ctor, args)
		if !ok {
			continue
		}
		construct := fmt.Sprintf("%s[cond=%s,post=%s] non-yielding iterations", fc.ctor, nilStr(fc.condNil), nilStr(fc.postNil))
		outs := in.Apply(st, seq, []AV{symC(), symK()})
		// also: iterations after a resumption (the continuation runs on a fresh stack)
		var all []*State
		for _, o := range outs {
			all = append(all, o.St)
			if K := lastSuspendedK(o.St.Events); K != nil && !o.St.Truncated {
				s2 := o.St.clone()
				s2.Events = append(s2.Events, Event{Kind: "resume", Note: "Normal"})
				// allow more body calls after the resume
				in2 := *in
				in2.Paths, in2.Steps = 0, 0
				in2.OnCall = func(cc *CallCtx) []Answer {
					sym, ok := cc.Callee.(Sym)
					if !ok {
						return nil
					}
					switch sym.Name {
					case "cond":
						return []Answer{{Ret: []AV{mkBool(true)}, Label: "true"}}
					case "body":
						n := 0
						seenResume := false
						for _, e := range cc.St.Events {
							if e.Kind == "resume" {
								seenResume = true
								n = 0
							}
							if seenResume && e.Kind == "call" && isSymNamed(e.Callee, "body") {
								n++
							}
						}
						if n >= iters-1 || len(cc.Args) != 2 {
							return []Answer{{Label: "suspend"}}
						}
						return []Answer{{Label: "sync:Normal", Invoke: []Invocation{{Fn: cc.Args[1], Args: []AV{roles.Normal, Sym{Name: "v"}}}}}}
					}
					return nil
				}
				for _, o2 := range in2.Apply(s2, K, []AV{roles.Normal, Sym{Name: "v"}}) {
					all = append(all, o2.St)
				}
				in.Paths += in2.Paths
				in.Steps += in2.Steps
			}
		}
		s.account(in)
		worst := ""
		growth := false
		checked := 0
		for _, f := range all {
			prevDepth := -1
			prevSync := false
			var heights []string
			for _, e := range f.Events {
				if e.Kind == "resume" {
					prevDepth, prevSync = -1, false
					heights = append(heights, "resume")
					continue
				}
				if e.Kind != "call" || !isSymNamed(e.Callee, "body") {
					continue
				}
				d := strings.Count(e.Stack, " > ") + 1
				heights = append(heights, fmt.Sprint(d))
				if prevDepth >= 0 && prevSync {
					checked++
					if d > prevDepth {
						growth = true
						worst = "abstract stack heights at successive body calls: " + strings.Join(heights, ", ") + "; stack at the deeper call: " + e.Stack
					}
				}
				prevDepth = d
				prevSync = strings.HasPrefix(e.Note, "sync:")
			}
		}
		if checked < 3 {
			c.und("SEQ.STACK.HEIGHT", construct, pos, fmt.Sprintf("only %d successive body-call pairs explored", checked))
			continue
		}
		c.check(!growth, "SEQ.STACK.HEIGHT", construct, pos,
			fmt.Sprintf("%d successive body-call pairs (Normal and Continue completions, before and after a resumption): the abstract activation stack never gets deeper from one non-yielding iteration to the next", checked),
			"the loop driver re-enters itself on top of the previous iteration's frames: stack depth grows with every iteration that completes without suspending; "+worst)
	}
}

// ruleStackNested: the same height analysis for a loop whose body is another
// loop of the same runtime (flatten/filter shapes): the inner loop runs one
// non-yielding iteration and ends, the outer loop goes round several times.
func (s *seqRT) ruleStackNested() {
	s.ruleStackNestedMode("Normal")
	// the inner loop left by a break: the enclosing loop's continuation is invoked from inside the inner body
	s.ruleStackNestedMode("Break")
}

func (s *seqRT) ruleStackNestedMode(innerEnds string) {
	c := s.c
	roles := s.ruleRole()
	fn := s.w.Func(pathSeq, "For")
	pos := s.w.FnPos(fn)
	const outerIters = 4
	in := s.interp()
	in.MaxRecur = 3*outerIters + 4
	in.MaxVisits = 3*outerIters + 4
	in.MaxDepth = 120
	count := func(st *State, name string) int {
		n := 0
		for _, e := range st.Events {
			if e.Kind == "call" && isSymNamed(e.Callee, name) {
				n++
			}
		}
		return n
	}
	in.OnCall = func(cc *CallCtx) []Answer {
		sym, ok := cc.Callee.(Sym)
		if !ok {
			return nil
		}
		switch sym.Name {
		case "cond1":
			return []Answer{{Ret: []AV{mkBool(count(cc.St, "cond1") < outerIters)}, Label: "outer"}}
		case "cond2":
			if innerEnds == "Break" {
				return []Answer{{Ret: []AV{mkBool(true)}, Label: "inner"}}
			}
			// each run of the inner loop: one iteration, then done
			return []Answer{{Ret: []AV{mkBool(count(cc.St, "cond2")%2 == 0)}, Label: "inner"}}
		case "body2":
			if len(cc.Args) != 2 {
				return nil
			}
			if innerEnds == "Break" {
				return []Answer{{Label: "sync:Break", Invoke: []Invocation{{Fn: cc.Args[1], Args: []AV{roles.byName["Break"], Sym{Name: "v"}}}}}}
			}
			return []Answer{{Label: "sync:Normal", Invoke: []Invocation{{Fn: cc.Args[1], Args: []AV{roles.Normal, Sym{Name: "v"}}}}}}
		}
		return nil
	}
	inner, st1, ok := s.construct(in, "SEQ.STACK.HEIGHT", "For", []AV{Sym{Name: "cond2", NN: true}, Sym{Name: "post2", NN: true}, Sym{Name: "body2", NN: true}})
	if !ok {
		return
	}
	// build the outer loop in the same abstract heap
	outs := in.Run(st1, fn, []AV{Sym{Name: "cond1", NN: true}, Nil{}, inner}, nil)
	if len(outs) != 1 || outs[0].Panicked || len(outs[0].Ret) != 1 {
		c.und("SEQ.STACK.HEIGHT", "nested loops", pos, "cannot construct nested For")
		return
	}
	res := in.Apply(outs[0].St, outs[0].Ret[0], []AV{symC(), symK()})
	s.account(in)
	checked := 0
	growth := ""
	for _, o := range res {
		var hs []int
		// the inner loop value is run once per outer iteration: its condition (two calls per run) and its
		// post statement must be reached at the same depth in every run as well (a per-run wrapper around
		// a captured argument makes each run one call deeper than the one before)
		condHs, postHs := []int{}, []int{}
		for _, e := range o.St.Events {
			if e.Kind != "call" {
				continue
			}
			d := strings.Count(e.Stack, " > ") + 1
			switch {
			case isSymNamed(e.Callee, "body2"):
				hs = append(hs, d)
			case isSymNamed(e.Callee, "cond2"):
				condHs = append(condHs, d)
			case isSymNamed(e.Callee, "post2"):
				postHs = append(postHs, d)
			}
		}
		for i := 1; i < len(hs); i++ {
			checked++
			if hs[i] > hs[i-1] {
				growth = fmt.Sprintf("abstract stack heights at the inner body over successive outer iterations: %v", hs)
			}
		}
		step := 2
		if innerEnds == "Break" {
			step = 1 // one condition call per run
		}
		for i := step; i < len(condHs); i++ {
			if condHs[i] > condHs[i-step] {
				growth = fmt.Sprintf("abstract stack heights at the inner loop's condition over successive runs of the same loop value: %v", condHs)
			}
		}
		for i := 1; i < len(postHs); i++ {
			if postHs[i] > postHs[i-1] {
				growth = fmt.Sprintf("abstract stack heights at the inner loop's post statement over successive runs of the same loop value: %v", postHs)
			}
		}
	}
	construct := "nested loops (inner loop ends, outer loop continues)"
	if innerEnds == "Break" {
		construct = "nested loops (inner loop left by a break, outer loop continues)"
	}
	if checked < 2 {
		c.und("SEQ.STACK.HEIGHT", construct, pos, fmt.Sprintf("only %d outer iterations explored", checked))
		return
	}
	c.check(growth == "", "SEQ.STACK.HEIGHT", construct, pos,
		fmt.Sprintf("%d successive outer iterations each running a complete non-yielding inner loop: the abstract stack never gets deeper", checked),
		"with a loop nested in a loop the outer driver re-enters itself on top of the inner loop's frames: stack depth grows with every non-yielding outer iteration; "+growth)
}

// ruleStackCombineBody: a loop whose body is one Combine value (built once — the
// optimiser strips the per-iteration Delay around it) that completes synchronously.
func (s *seqRT) ruleStackCombineBody() {
	c := s.c
	roles := s.ruleRole()
	fn := s.w.Func(pathSeq, "For")
	pos := s.w.FnPos(fn)
	const iters = 4
	in := s.interp()
	in.MaxRecur, in.MaxVisits, in.MaxDepth = 3*iters+4, 3*iters+4, 120
	count := func(st *State, name string) int {
		n := 0
		for _, e := range st.Events {
			if e.Kind == "call" && isSymNamed(e.Callee, name) {
				n++
			}
		}
		return n
	}
	in.OnCall = func(cc *CallCtx) []Answer {
		sym, ok := cc.Callee.(Sym)
		if !ok {
			return nil
		}
		switch sym.Name {
		case "cond":
			return []Answer{{Ret: []AV{mkBool(count(cc.St, "cond") < iters)}, Label: "cond"}}
		case "s1", "s2":
			if len(cc.Args) != 2 {
				return nil
			}
			return []Answer{{Label: "sync:Normal", Invoke: []Invocation{{Fn: cc.Args[1], Args: []AV{roles.Normal, Sym{Name: "v"}}}}}}
		}
		return nil
	}
	comb, st1, ok := s.construct(in, "SEQ.STACK.HEIGHT", "Combine", []AV{Sym{Name: "s1", NN: true}, Sym{Name: "s2", NN: true}})
	if !ok {
		return
	}
	outs := in.Run(st1, fn, []AV{Sym{Name: "cond", NN: true}, Nil{}, comb}, nil)
	if len(outs) != 1 || outs[0].Panicked || len(outs[0].Ret) != 1 {
		c.und("SEQ.STACK.HEIGHT", "loop over one Combine value", pos, "cannot construct For(cond, nil, Combine(s1, s2))")
		return
	}
	res := in.Apply(outs[0].St, outs[0].Ret[0], []AV{symC(), symK()})
	s.account(in)
	checked := 0
	growth := ""
	for _, o := range res {
		var hs []int
		for _, e := range o.St.Events {
			if e.Kind == "call" && isSymNamed(e.Callee, "s1") {
				hs = append(hs, strings.Count(e.Stack, " > ")+1)
			}
		}
		for i := 1; i < len(hs); i++ {
			checked++
			if hs[i] > hs[i-1] {
				growth = fmt.Sprintf("abstract stack heights at the first half over successive iterations: %v", hs)
			}
		}
	}
	if checked < 2 {
		c.und("SEQ.STACK.HEIGHT", "loop over one Combine value", pos, fmt.Sprintf("only %d iterations explored", checked))
		return
	}
	c.check(growth == "", "SEQ.STACK.HEIGHT", "loop over one Combine value", pos,
		fmt.Sprintf("%d successive non-yielding iterations through the same Combine value: the abstract stack never gets deeper", checked),
		"entering the same Combine value once per iteration makes the loop driver recurse (a continuation kept from an earlier entry no longer belongs to the running iteration): "+growth)
}

// ruleNoStaticRecursion: no cycle among static calls in seq.
func (s *seqRT) ruleNoStaticRecursion() {
	c := s.c
	fns := s.w.FuncsOf(pathSeq)
	idx := map[*ssa.Function]int{}
	for i, f := range fns {
		idx[f] = i
	}
	adj := make([][]int, len(fns))
	sites := 0
	for i, f := range fns {
		for _, b := range f.Blocks {
			for _, ins := range b.Instrs {
				call, ok := ins.(ssa.CallInstruction)
				if !ok {
					continue
				}
				sites++
				callee := call.Common().StaticCallee()
				if callee == nil {
					continue
				}
				callee = bodyOf(callee)
				if o := callee.Origin(); o != nil {
					callee = o // an instance of a generic function (instantiation wrappers have a body of their own)
				}
				if j, ok := idx[callee]; ok {
					adj[i] = append(adj[i], j)
				}
			}
		}
	}
	c.CallSites += sites
	// DFS cycle detection
	color := make([]int, len(fns))
	var cyc []string
	var dfs func(i int, path []int)
	dfs = func(i int, path []int) {
		color[i] = 1
		for _, j := range adj[i] {
			if color[j] == 1 {
				var names []string
				for _, p := range append(path, i, j) {
					names = append(names, relName(fns[p]))
				}
				cyc = append(cyc, strings.Join(names, " -> "))
			} else if color[j] == 0 {
				dfs(j, append(path, i))
			}
		}
		color[i] = 2
	}
	for i := range fns {
		if color[i] == 0 {
			dfs(i, nil)
		}
	}
	if len(cyc) == 0 {
		c.ok("SEQ.STACK.REC", "static call graph of seq", "", fmt.Sprintf("%d functions, %d call sites: no cycle among statically resolved calls (no recursion whose depth could follow the input)", len(fns), sites))
	} else {
		for _, cy := range cyc {
			c.bad("SEQ.STACK.REC", "cycle "+cy, "", "static recursion in the runtime: depth may grow with the input")
		}
	}
}

// ------------------------------------------------------------------ SEQ.SYNC (K5 scan)

type scanHit struct {
	what string
	fn   *ssa.Function
	pos  token.Pos
}

// scanAsync finds every construct in a package that could run code outside the
// calling goroutine's current call, swallow a panic, or defer work.
func scanAsync(w *World, path string) (hits []scanHit, nInstr int) {
	for _, f := range w.FuncsOf(path) {
		for _, b := range f.Blocks {
			for _, ins := range b.Instrs {
				nInstr++
				switch x := ins.(type) {
				case *ssa.Go:
					hits = append(hits, scanHit{"go statement", f, x.Pos()})
				case *ssa.Defer:
					hits = append(hits, scanHit{"defer statement", f, x.Pos()})
				case *ssa.Select:
					hits = append(hits, scanHit{"select statement", f, x.Pos()})
				case *ssa.Send:
					hits = append(hits, scanHit{"channel send", f, x.Pos()})
				case *ssa.Call:
					if b, ok := x.Call.Value.(*ssa.Builtin); ok && b.Name() == "recover" {
						hits = append(hits, scanHit{"recover()", f, x.Pos()})
					}
					if callee := x.Call.StaticCallee(); callee != nil && callee.Pkg != nil {
						p := callee.Pkg.Pkg.Path()
						if p == "sync" || p == "sync/atomic" || p == "time" || p == "runtime" || p == "context" {
							hits = append(hits, scanHit{"call into " + p + " (" + callee.Name() + ")", f, x.Pos()})
						}
					} else if callee := x.Call.StaticCallee(); callee != nil && callee.Object() != nil && callee.Object().Pkg() != nil {
						p := callee.Object().Pkg().Path()
						if p == "sync" || p == "sync/atomic" || p == "time" || p == "runtime" || p == "context" {
							hits = append(hits, scanHit{"call into " + p + " (" + callee.Name() + ")", f, x.Pos()})
						}
					}
					if x.Call.IsInvoke() && x.Call.Method.Pkg() != nil {
						p := x.Call.Method.Pkg().Path()
						if p == "sync" || p == "context" {
							hits = append(hits, scanHit{"call into " + p, f, x.Pos()})
						}
					}
				}
			}
		}
	}
	return
}

func (s *seqRT) ruleSync() {
	c := s.c
	hits, n := scanAsync(s.w, pathSeq)
	c.States += n
	for _, f := range s.w.FuncsOf(pathSeq) {
		c.fn(relName(f))
	}
	if len(hits) == 0 {
		c.ok("SEQ.SYNC", "package seq", "", fmt.Sprintf("%d SSA instructions in %d functions: no go, defer, recover, select, channel send, sync/atomic/time/runtime call — a panic raised by a step can only propagate through the advancing call", n, len(s.w.FuncsOf(pathSeq))))
	}
	for _, h := range hits {
		c.bad("SEQ.SYNC", h.what+" in "+relName(h.fn), s.w.Pos(h.pos), "the runtime must execute steps synchronously inside the advancing call and must not intercept panics: "+h.what)
	}
	// channel receives: without go statements and sends (both excluded above) nothing in the runtime can feed a
	// channel, so a receive is either on a channel the user handed in (the range-over-channel iterator) or on a
	// channel nobody writes to; where the receive sits (a method, a closure built by the constructor) is a
	// matter of representation. Only a receive from a nil constant or a package variable is reported.
	made := 0
	for _, f := range s.w.FuncsOf(pathSeq) {
		for _, b := range f.Blocks {
			for _, ins := range b.Instrs {
				if u, ok := ins.(*ssa.UnOp); ok && u.Op == token.ARROW {
					_, isConst := u.X.(*ssa.Const)
					_, isGlobalLoad := func() (ssa.Value, bool) {
						if l, ok := u.X.(*ssa.UnOp); ok && l.Op == token.MUL {
							g, ok := l.X.(*ssa.Global)
							return g, ok
						}
						return nil, false
					}()
					c.check(made == 0 && !isConst && !isGlobalLoad, "SEQ.SYNC", "channel receive in "+relName(f), s.w.Pos(u.Pos()), "the runtime creates no channel and the operand is not a nil constant or a package variable: the receive is on the user's channel (range over a channel)", "channel receive on a channel of the runtime's own")
				}
			}
		}
	}
}

// ------------------------------------------------------------------ SEQ.STATE

// originOfFreeVar resolves a free variable to the value bound in the creating function.
func originOfFreeVar(fv *ssa.FreeVar) ssa.Value {
	fn := fv.Parent()
	parent := fn.Parent()
	if parent == nil {
		return nil
	}
	idx := -1
	for i, f := range fn.FreeVars {
		if f == fv {
			idx = i
		}
	}
	for _, b := range parent.Blocks {
		for _, ins := range b.Instrs {
			if mc, ok := ins.(*ssa.MakeClosure); ok && mc.Fn == fn && idx < len(mc.Bindings) {
				v := mc.Bindings[idx]
				if pfv, ok := v.(*ssa.FreeVar); ok {
					return originOfFreeVar(pfv)
				}
				return v
			}
		}
	}
	return nil
}

// rootOfAddr strips FieldAddr/IndexAddr chains.
func rootOfAddr(v ssa.Value) ssa.Value {
	for {
		switch x := v.(type) {
		case *ssa.FieldAddr:
			v = x.X
		case *ssa.IndexAddr:
			v = x.X
		default:
			return v
		}
	}
}

func isSeqResult(fn *ssa.Function) bool {
	res := fn.Signature.Results()
	if res.Len() != 1 {
		return false
	}
	if nt, ok := res.At(0).Type().(*types.Named); ok {
		return nt.Obj().Name() == "Seq" && nt.Obj().Pkg() != nil && nt.Obj().Pkg().Path() == pathSeq
	}
	return false
}

func (s *seqRT) ruleState() {
	c := s.c
	sp := s.w.SSA[pathSeq]
	// (1) package-level variables
	var globals []string
	for name, m := range sp.Members {
		if g, ok := m.(*ssa.Global); ok && !strings.HasPrefix(name, "init$") {
			globals = append(globals, g.Name())
		}
	}
	sort.Strings(globals)
	if len(globals) == 0 {
		c.ok("SEQ.STATE", "package-level variables of seq", "", "package seq declares no package-level variable: no state is reachable from two iterators through the runtime")
	}
	for _, g := range globals {
		// a global is tolerated only if never stored outside init
		stored := false
		var where token.Pos
		for _, f := range s.w.FuncsOf(pathSeq) {
			for _, b := range f.Blocks {
				for _, ins := range b.Instrs {
					if st, ok := ins.(*ssa.Store); ok {
						if gv, ok := rootOfAddr(st.Addr).(*ssa.Global); ok && gv.Name() == g {
							stored = true
							where = st.Pos()
						}
					}
					if mu, ok := ins.(*ssa.MapUpdate); ok {
						if u, ok := mu.Map.(*ssa.UnOp); ok {
							if gv, ok := u.X.(*ssa.Global); ok && gv.Name() == g {
								stored = true
								where = mu.Pos()
							}
						}
					}
				}
			}
		}
		// any global reachable from runtime functions is shared state
		used := false
		for _, f := range s.w.FuncsOf(pathSeq) {
			for _, b := range f.Blocks {
				for _, ins := range b.Instrs {
					for _, op := range ins.Operands(nil) {
						if op != nil && *op != nil {
							if gv, ok := (*op).(*ssa.Global); ok && gv.Name() == g {
								used = true
								if !where.IsValid() {
									where = ins.Pos()
								}
							}
						}
					}
				}
			}
		}
		if stored || used {
			what := "read"
			if stored {
				what = "written"
			}
			c.bad("SEQ.STATE", "package-level variable seq."+g, s.w.Pos(where), "package-level variable is "+what+" by runtime code: state shared by all iterators (and raced on from different goroutines)")
		} else {
			c.ok("SEQ.STATE", "package-level variable seq."+g, "", "declared but never touched by runtime code")
		}
	}
	// (2) constructor-level cells must not be mutated at run time
	n := 0
	for _, m := range sp.Members {
		ctor, ok := m.(*ssa.Function)
		if !ok || ctor.Synthetic != "" || !isSeqResult(ctor) {
			continue
		}
		n++
		c.fn(relName(ctor))
		var nested []*ssa.Function
		var walk func(f *ssa.Function)
		walk = func(f *ssa.Function) {
			for _, a := range f.AnonFuncs {
				nested = append(nested, a)
				walk(a)
			}
		}
		walk(ctor)
		bad := false
		for _, f := range nested {
			for _, b := range f.Blocks {
				for _, ins := range b.Instrs {
					var addr ssa.Value
					switch x := ins.(type) {
					case *ssa.Store:
						addr = x.Addr
					case *ssa.MapUpdate:
						addr = x.Map
					default:
						continue
					}
					root := rootOfAddr(addr)
					if u, ok := root.(*ssa.UnOp); ok && u.Op == token.MUL {
						// store through a pointer loaded from a cell: follow to the cell
						root = rootOfAddr(u.X)
					}
					fv, ok := root.(*ssa.FreeVar)
					if !ok {
						continue
					}
					org := originOfFreeVar(fv)
					if org == nil {
						continue
					}
					if al, ok := org.(*ssa.Alloc); ok && al.Parent() == ctor {
						// is the store to the cell itself (not through a loaded pointer such as c.step)?
						if direct, _ := rootOfAddr(addr).(*ssa.FreeVar); direct == fv {
							bad = true
							c.bad("SEQ.STATE", "constructor-level state of seq."+ctor.Name()+": "+al.Comment, s.w.Pos(ins.Pos()),
								"a variable declared in the constructor (outside the returned Seq) is assigned when the Seq runs ("+relName(f)+"): every run of the same Seq value — nested loops, two iterators started from one term — shares it")
						}
					}
				}
			}
		}
		if !bad {
			c.ok("SEQ.STATE", "constructor-level state of seq."+ctor.Name(), s.w.FnPos(ctor), "closures created by the constructor never assign a variable that lives outside the returned Seq; run-time state is allocated per run")
		}
	}
	if n < 6 {
		c.und("SEQ.STATE", "constructors", "", fmt.Sprintf("only %d Seq constructors found", n))
	}
}

// ------------------------------------------------------------------ rewriter-side scans (RW.NOASYNC / RW.NODECL)

// constructedTypes lists the named go/ast node types the rewriter allocates
// (composite literals / new), with positions.
func constructedASTTypes(w *World, path string) map[string][]token.Pos {
	out := map[string][]token.Pos{}
	for _, f := range w.FuncsOf(path) {
		for _, b := range f.Blocks {
			for _, ins := range b.Instrs {
				al, ok := ins.(*ssa.Alloc)
				if !ok {
					continue
				}
				t := al.Type().Underlying().(*types.Pointer).Elem()
				if nt, ok := t.(*types.Named); ok && nt.Obj().Pkg() != nil && nt.Obj().Pkg().Path() == "go/ast" {
					out[nt.Obj().Name()] = append(out[nt.Obj().Name()], al.Pos())
				}
			}
		}
	}
	return out
}

func ruleRwNoAsync(c *Ctx) {
	w := c.W
	built := constructedASTTypes(w, pathRw)
	if len(built) < 8 {
		c.und("RW.NOASYNC", "AST construction sites", "", fmt.Sprintf("only %d go/ast node types are constructed by the rewriter: scan is not seeing the factory", len(built)))
		return
	}
	var names []string
	for n := range built {
		names = append(names, n)
	}
	sort.Strings(names)
	bad := false
	for _, forbidden := range []string{"GoStmt", "DeferStmt", "SelectStmt", "SendStmt", "CommClause"} {
		if ps, ok := built[forbidden]; ok {
			bad = true
			c.bad("RW.NOASYNC", "rewriter constructs ast."+forbidden, w.Pos(ps[0]), "generated code must run generator statements synchronously inside the advancing call; the rewriter must not emit "+forbidden)
		}
	}
	// identifier "recover" / "panic" emitted?
	for _, f := range w.FuncsOf(pathRw) {
		for _, b := range f.Blocks {
			for _, ins := range b.Instrs {
				for _, op := range ins.Operands(nil) {
					if op == nil || *op == nil {
						continue
					}
					if k, ok := (*op).(*ssa.Const); ok && k.Value != nil {
						if sv, ok := asString(Const{k.Value}); ok && sv == "recover" {
							bad = true
							c.bad("RW.NOASYNC", "rewriter mentions identifier recover", w.Pos(ins.Pos()), "generated code must not recover panics of generator statements")
						}
					}
				}
			}
		}
	}
	if !bad {
		c.ok("RW.NOASYNC", "AST node types constructed by the rewriter", "", "constructs only {"+strings.Join(names, ", ")+"}: no go/defer/select/send statement and no recover call is ever emitted into generated code")
	}
}

func ruleRwNoDecl(c *Ctx) {
	w := c.W
	built := constructedASTTypes(w, pathRw)
	bad := false
	for _, forbidden := range []string{"GenDecl", "ValueSpec", "FuncDecl", "DeclStmt", "TypeSpec"} {
		if ps, ok := built[forbidden]; ok {
			bad = true
			c.bad("RW.NODECL", "rewriter constructs ast."+forbidden, w.Pos(ps[0]), "the rewriter must not introduce declarations: generated code could acquire state shared between iterators")
		}
	}
	// stores to (*ast.File).Decls
	for _, f := range w.FuncsOf(pathRw) {
		for _, b := range f.Blocks {
			for _, ins := range b.Instrs {
				st, ok := ins.(*ssa.Store)
				if !ok {
					continue
				}
				if fa, ok := st.Addr.(*ssa.FieldAddr); ok {
					pt, _ := fa.X.Type().Underlying().(*types.Pointer)
					if pt == nil {
						continue
					}
					if nt, ok := pt.Elem().(*types.Named); ok && nt.Obj().Pkg() != nil && nt.Obj().Pkg().Path() == "go/ast" && nt.Obj().Name() == "File" {
						fname := fieldName(fa.X.Type(), fa.Field)
						if fname == "Decls" || fname == "Scope" || fname == "Name" {
							bad = true
							c.bad("RW.NODECL", "store to ast.File."+fname+" in "+relName(f), w.Pos(st.Pos()), "the rewriter must not rewrite the declaration list of a file")
						}
					}
				}
			}
		}
	}
	if !bad {
		c.ok("RW.NODECL", "declarations", "", "the rewriter constructs no GenDecl/ValueSpec/FuncDecl/DeclStmt and never stores to ast.File.Decls: generated code has no package-level state of its own")
	}
}

var _ = ast.IsExported

// ruleStackRerun: a Seq *value* that is run again and again (the optimiser strips the
// per-iteration Delay around Bind(<literal>), Combine, loops …, so one value serves every
// round of the enclosing loop) must reach its caller-supplied functions at the same depth
// in every run. A wrapper stacked onto a captured argument on each run (transparent to the
// trace rules) makes run n call n frames deep: depth then grows with the number of rounds.
func (s *seqRT) ruleStackRerun() {
	c := s.c
	const runs = 4
	type ctorCase struct {
		name   string
		args   []AV
		resume bool // the value suspends (Bind): the caller-supplied thunk runs in the resumption
	}
	for _, cc := range []ctorCase{
		{"Bind", []AV{Sym{Name: "yv"}, Sym{Name: "f", NN: true}}, true},
		{"BindRecv", []AV{Sym{Name: "yv"}, Sym{Name: "f", NN: true}}, true},
		{"Delay", []AV{Sym{Name: "f", NN: true}}, false},
		{"Combine", []AV{Sym{Name: "s1", NN: true}, Sym{Name: "s2", NN: true}}, false},
	} {
		fn := s.w.FuncOpt(pathSeq, cc.name)
		if fn == nil {
			continue
		}
		pos := s.w.FnPos(fn)
		in := s.interp()
		in.MaxDepth = 40
		in.MaxRecur = runs + 4
		seq, st, ok := s.construct(in, "SEQ.STACK.HEIGHT", cc.name, cc.args)
		if !ok {
			continue
		}
		construct := cc.name + " value run repeatedly"
		var depths []int
		failed := ""
		for i := 0; i < runs && failed == ""; i++ {
			mark := len(st.Events)
			outs := in.Apply(st, seq, []AV{symC(), symK()})
			if len(outs) != 1 || outs[0].Panicked {
				failed = "a run of the value is not a single path"
				break
			}
			st = outs[0].St
			if cc.resume {
				next := storedResumption(st, st.Events[mark:])
				if next == nil {
					failed = "the value does not suspend by storing a step with a resumption"
					break
				}
				o2 := in.Apply(st, next, []AV{Sym{Name: "recv"}})
				if len(o2) != 1 || o2[0].Panicked {
					failed = "the resumption is not a single path"
					break
				}
				st = o2[0].St
			}
			d := -1
			for _, e := range st.Events[mark:] {
				if e.Kind == "call" && e.Fn == nil {
					if sy, ok := e.Callee.(Sym); ok && (sy.Name == "f" || sy.Name == "s1") {
						d = strings.Count(e.Stack, " > ") + 1
						break
					}
				}
			}
			if d < 0 {
				failed = "the caller-supplied function is not called in a run"
				break
			}
			depths = append(depths, d)
		}
		s.account(in)
		if failed != "" {
			c.und("SEQ.STACK.HEIGHT", construct, pos, failed)
			continue
		}
		grows := false
		for i := 1; i < len(depths); i++ {
			if depths[i] > depths[i-1] {
				grows = true
			}
		}
		c.check(!grows, "SEQ.STACK.HEIGHT", construct, pos,
			fmt.Sprintf("%d runs of one %s value reach the caller-supplied function at the same abstract stack depth %v", runs, cc.name, depths),
			fmt.Sprintf("each run of the same %s value reaches the caller-supplied function deeper than the run before (abstract stack depths %v): a wrapper is stacked on per run, so depth grows with the number of rounds of the enclosing loop once the optimiser has stripped the per-round Delay", cc.name, depths))
	}
}

// RW.SCOPE.REDECL (C03): the statements that follow a yield are moved into a function literal (the Bind thunk), and
// the whole body into the thunk of Start(Delay(…)). A short variable declaration with several variables declares
// only those that are new *in its own scope*; moved behind such a boundary, a variable of the enclosing block
// (`n, err := …; Yield(n); m, err := …`) or a parameter (`x, y := x+1, 2` at the top of the body) is declared anew
// instead of assigned, and a closure created earlier keeps the old one. Keeping the meaning requires knowing which
// left-hand sides are new, which only go/types' Defs / scope information tells: a rewriter that never reads it
// cannot be right for partial redeclarations. (Necessary, not sufficient.)
func ruleRwRedecl(c *Ctx) {
	w := c.W
	var where []string
	for _, f := range w.FuncsOf(pathRw) {
		for _, b := range f.Blocks {
			for _, ins := range b.Instrs {
				switch x := ins.(type) {
				case *ssa.FieldAddr:
					pt, _ := x.X.Type().Underlying().(*types.Pointer)
					if pt == nil {
						continue
					}
					if nt, ok := pt.Elem().(*types.Named); ok && nt.Obj().Pkg() != nil && nt.Obj().Pkg().Path() == "go/types" && nt.Obj().Name() == "Info" {
						switch fieldName(x.X.Type(), x.Field) {
						case "Defs", "Scopes", "Implicits":
							where = append(where, relName(f))
						}
					}
				case ssa.CallInstruction:
					if callee := x.Common().StaticCallee(); callee != nil && callee.Signature.Recv() != nil && fnPkgPath(callee) == "go/types" {
						if strings.HasSuffix(callee.Signature.Recv().Type().String(), "types.Scope") {
							switch callee.Name() {
							case "LookupParent", "Innermost", "Contains":
								where = append(where, relName(f))
							}
						}
					}
				}
			}
		}
		c.fn(relName(f))
	}
	c.check(len(where) > 0, "RW.SCOPE.REDECL", "short variable declarations moved behind a suspension point declare only what was new", "",
		"the rewriter reads go/types' definition / scope information ("+strings.Join(where, ", ")+")",
		"no function of package rewriter reads types.Info.Defs / Scopes / Implicits or asks a types.Scope: `m, err := …` after a yield (err declared before it), or `x, y := …` at the top of a generator with parameter x, is moved into a function literal as it is and declares a new err / x there; closures created earlier keep the old variable")
}
