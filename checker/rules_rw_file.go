package main

// RW.FILEPASSES — rewriteFile: per-file state is reset before the first pass,
// the passes run in the order the lowerings rely on, the file is printed last.

import (
	"fmt"
	"strings"

	"golang.org/x/tools/go/ssa"
)

type ssaFunction = ssa.Function
type ssaCallInstruction = ssa.CallInstruction

func (r *rwRT) ruleFilePasses() {
	c := r.c
	c.min("RW.FILEPASSES", 2)
	fn := r.method("rewriter", "rewriteFile")
	c.fn(relName(fn))
	pos := r.w.FnPos(fn)
	in := r.interp(rwConfig{root: fn, boundaries: map[string]bool{"rewriteFile": false, "attachComment": true, "rewriteForRanges": true, "rewriteIter": true, "mkYieldFromRewriter": true, "mkYieldRewriter": true, "collectYieldFunc": true}})
	in.MaxDepth = 10
	// only the closures of rewriteFile itself are followed; every named function it calls is a step
	passNames := map[string]bool{"attachComment": true, "rewriteForRanges": true, "rewriteIter": true, "mkYieldFromRewriter": true, "mkYieldRewriter": true, "collectYieldFunc": true}
	in.Inline = func(f *ssa.Function) bool {
		// helpers that rewriteFile is split into are followed; the passes themselves, and anything that performs the generator pass, are steps
		return inRw(f) && !passNames[f.Name()] && f.Name() != "rewriteYieldFunc" && !reachesFn(f, "rewriteYieldFunc", 4)
	}
	outs := in.Run(nil, fn, []AV{Sym{Name: "r", NN: true}, Sym{Name: "f", NN: true}, Sym{Name: "printer", NN: true}}, nil)
	r.account(in)
	// every path: sequence of astutil.Apply calls identified by the callback wrapped
	checked := 0
	for _, o := range outs {
		if o.Panicked || o.St.Truncated {
			continue
		}
		var seq []string
		for _, e := range o.St.Events {
			switch {
			case e.Kind == "call" && e.Fn != nil && e.Fn.Name() == "collectYieldFunc":
				seq = append(seq, "collect")
			case e.Kind == "call" && e.Fn != nil && e.Fn.Name() == "mkYieldFromRewriter":
				seq = append(seq, "mk:yieldFrom")
			case e.Kind == "call" && e.Fn != nil && e.Fn.Name() == "mkYieldRewriter":
				seq = append(seq, "mk:yield")
			case e.Kind == "call" && e.Fn != nil && e.Fn.Name() == "Apply" && len(e.Args) == 3:
				// which pass does the post callback run?
				name := "?"
				if cl, ok := e.Args[2].(Closure); ok && len(cl.Bind) > 0 {
					inner := o.St.Obj(cl.Bind[0])
					var fv AV
					if inner != nil {
						fv = inner.Val
					}
					for _, b := range cl.Bind {
						if ob := o.St.Obj(b); ob != nil && ob.Val != nil {
							if c2, ok := ob.Val.(Closure); ok {
								fv = c2
							}
							if sy, ok := ob.Val.(Sym); ok && strings.HasPrefix(sy.Name, "ret:") {
								fv = sy
							}
						}
					}
					switch x := fv.(type) {
					case Closure:
						name = x.Fn.Name()
						name = strings.TrimSuffix(name, "$bound")
					case Sym:
						name = x.Name
					}
				}
				switch {
				case strings.Contains(name, "attachComment"):
					seq = append(seq, "pass:comments")
				case strings.Contains(name, "mkYieldFromRewriter"):
					seq = append(seq, "pass:yieldFrom")
				case strings.Contains(name, "rewriteForRanges"):
					seq = append(seq, "pass:consumerRanges")
				case strings.Contains(name, "mkYieldRewriter"):
					seq = append(seq, "pass:yield")
				case strings.Contains(name, "rewriteIter"):
					seq = append(seq, "pass:iterType")
				default:
					seq = append(seq, "pass:"+name)
				}
			case e.Kind == "call" && e.Fn != nil && inRw(e.Fn) && (e.Fn.Name() == "rewriteYieldFunc" || reachesFn(e.Fn, "rewriteYieldFunc", 4)):
				// the generator pass performed by a direct call instead of a traversal
				if len(seq) == 0 || seq[len(seq)-1] != "pass:yield" {
					seq = append(seq, "pass:yield")
				}
			case e.Kind == "call" && isSymNamed(e.Callee, "printer"):
				seq = append(seq, "print")
			}
		}
		checked++
		idx := func(s string) int {
			for i, x := range seq {
				if x == s {
					return i
				}
			}
			return -1
		}
		order := []string{"collect", "pass:yieldFrom", "pass:consumerRanges", "pass:yield", "pass:iterType", "print"}
		var err error
		last := -1
		for _, s := range order {
			i := idx(s)
			if i < 0 {
				err = fmt.Errorf("step %q missing; steps seen: %s", s, strings.Join(seq, " -> "))
				break
			}
			if i < last {
				err = fmt.Errorf("step %q runs too early; steps seen: %s", s, strings.Join(seq, " -> "))
				break
			}
			last = i
		}
		c.check(err == nil, "RW.FILEPASSES", "order of passes in rewriteFile", pos,
			"collect generators -> YieldFrom -> range-over-iterator -> generator bodies -> iterator type -> print: each lowering sees the form its predecessor produces",
			fmt.Sprint(err))
	}
	if checked == 0 {
		c.und("RW.FILEPASSES", "order of passes in rewriteFile", pos, "no complete path through rewriteFile")
	}
	// per-file state: every rewriter field that is written or map-updated by the passes is re-initialised here before collect
	for _, o := range outs {
		if o.Panicked || o.St.Truncated {
			continue
		}
		reset := map[string]bool{}
		collectAt := -1
		for i, e := range o.St.Events {
			if e.Kind == "store" && strings.HasPrefix(e.Target, "r.") && (collectAt < 0) {
				reset[strings.TrimPrefix(e.Target, "r.")] = true
			}
			if e.Kind == "call" && e.Fn != nil && e.Fn.Name() == "collectYieldFunc" && collectAt < 0 {
				collectAt = i
			}
		}
		var missing []string
		for _, f := range []string{"coImportedName", "seqImportedName", "yieldFuncDecls", "yieldFuncLits", "comments"} {
			if !reset[f] {
				missing = append(missing, f)
			}
		}
		c.check(len(missing) == 0, "RW.FILEPASSES", "per-file state reset before the first pass", pos,
			"import names, generator sets and collected comments are re-initialised for every file before any pass uses them",
			"per-file field(s) not re-initialised before the first pass: "+strings.Join(missing, ", ")+" (state of the previous file leaks into this one)")
		break
	}
}

// reachesFn: does fn statically call (within depth) a function named target?
func reachesFn(fn interface{ String() string }, target string, depth int) bool {
	f, ok := fn.(*ssaFunction)
	if !ok || f == nil || depth < 0 {
		return false
	}
	for _, b := range f.Blocks {
		for _, ins := range b.Instrs {
			if call, ok := ins.(ssaCallInstruction); ok {
				if callee := call.Common().StaticCallee(); callee != nil {
					if callee.Name() == target {
						return true
					}
					if inRw(callee) && reachesFn(bodyOf(callee), target, depth-1) {
						return true
					}
				}
			}
		}
	}
	for _, a := range f.AnonFuncs {
		if reachesFn(a, target, depth-1) {
			return true
		}
	}
	return false
}
