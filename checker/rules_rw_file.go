package main

// RW.FILEPASSES — rewriteFile: per-file state is reset before the first pass,
// the passes run in the order the lowerings rely on, the file is printed last.

import (
	"fmt"
	"go/types"
	"os"
	"sort"
	"strings"

	"golang.org/x/tools/go/ssa"
)

type ssaFunction = ssa.Function
type ssaCallInstruction = ssa.CallInstruction

func (r *rwRT) ruleFilePasses() {
	c := r.c
	c.min("RW.FILEPASSES", 2)
	fn := r.method("rewriter", "rewriteFile")
	c.fn(relName(fn))
	pos := r.w.FnPos(fn)
	in := r.interp(rwConfig{root: fn, boundaries: map[string]bool{"rewriteFile": false, "attachComment": true, "rewriteForRanges": true, "rewriteIter": true, "mkYieldFromRewriter": true, "mkYieldRewriter": true, "collectYieldFunc": true}})
	in.MaxDepth = 10
	in.MaxVisits = 12 // the passes may be run from a table in a loop
	in.SnapClosures = true
	// only the closures of rewriteFile itself are followed; every named function it calls is a step
	passNames := map[string]bool{"attachComment": true, "rewriteForRanges": true, "rewriteIter": true, "mkYieldFromRewriter": true, "mkYieldRewriter": true, "collectYieldFunc": true}
	in.Inline = func(f *ssa.Function) bool {
		// helpers that rewriteFile is split into are followed; the passes themselves, and anything that performs the generator pass, are steps
		return inRw(f) && !passNames[f.Name()] && f.Name() != "rewriteYieldFunc" && !reachesFn(f, "rewriteYieldFunc", 4)
	}
	// the file is printed by rewriteFile itself (it is handed the printer) — or, when it is not, by its caller right
	// after it: then every call of rewriteFile must be followed, in the same basic block, by a call of a printer
	// (a function value taking the file name and the file, or a method of such a function type)
	printsItself := fn.Signature.Params().Len() >= 2
	runArgs := []AV{Sym{Name: "r", NN: true}, Sym{Name: "f", NN: true}, Sym{Name: "printer", NN: true}}
	if !printsItself {
		runArgs = runArgs[:2]
		isPrinterSig := func(t types.Type) bool {
			sig, ok := t.Underlying().(*types.Signature)
			if !ok || sig.Params().Len() != 2 || sig.Results().Len() != 0 {
				return false
			}
			bt, isB := sig.Params().At(0).Type().Underlying().(*types.Basic)
			_, isP := sig.Params().At(1).Type().Underlying().(*types.Pointer)
			return isB && bt.Info()&types.IsString != 0 && isP
		}
		sites, printed := 0, 0
		for _, f := range r.w.FuncsOf(pathRw) {
			for _, b := range f.Blocks {
				for i, ins := range b.Instrs {
					call, ok := ins.(ssa.CallInstruction)
					if !ok || call.Common().StaticCallee() != fn {
						continue
					}
					sites++
					for _, later := range b.Instrs[i+1:] {
						lc, ok := later.(ssa.CallInstruction)
						if !ok {
							continue
						}
						if cal := lc.Common().StaticCallee(); cal != nil && cal.Signature.Recv() != nil && isPrinterSig(cal.Signature.Recv().Type()) {
							printed++
							break
						}
						if lc.Common().StaticCallee() == nil && !lc.Common().IsInvoke() && isPrinterSig(lc.Common().Value.Type()) {
							printed++
							break
						}
					}
				}
			}
		}
		c.check(sites > 0 && printed == sites, "RW.FILEPASSES", "order of passes: the rewritten file is printed by the caller of rewriteFile", pos,
			fmt.Sprintf("%d call site(s) of rewriteFile, each followed in its basic block by a call of the file printer", sites),
			fmt.Sprintf("rewriteFile is not handed a printer and %d of its %d call site(s) are not followed by a call of a file printer: the rewritten file is never written", sites-printed, sites))
	}
	outs := in.Run(nil, fn, runArgs, nil)
	r.account(in)
	// every path: sequence of astutil.Apply calls identified by the callback wrapped
	checked := 0
	for _, o := range outs {
		if o.Panicked || o.St.Truncated {
			continue
		}
		var seq []string
		for _, e := range o.St.Events {
			switch {
			case e.Kind == "call" && e.Fn != nil && e.Fn.Name() == "collectYieldFunc":
				seq = append(seq, "collect")
			case e.Kind == "call" && e.Fn != nil && e.Fn.Name() == "mkYieldFromRewriter":
				seq = append(seq, "mk:yieldFrom")
			case e.Kind == "call" && e.Fn != nil && e.Fn.Name() == "mkYieldRewriter":
				seq = append(seq, "mk:yield")
			case e.Kind == "call" && e.Fn != nil && e.Fn.Name() == "Apply" && len(e.Args) == 3:
				// which pass does the post callback run?
				name := "?"
				if len(e.Bound) > 0 {
					// what the callback's captured variables held when Apply was called
					for _, b := range e.Bound {
						for _, known := range []string{"attachComment", "mkYieldFromRewriter", "rewriteForRanges", "mkYieldRewriter", "rewriteIter"} {
							if strings.Contains(b, known) {
								name = b
							}
						}
					}
					if name == "?" {
						name = strings.Join(e.Bound, "+")
					}
				} else if sy, ok := unwrap(e.Args[2]).(Sym); ok {
					// the callback is the very value a pass constructor returned
					name = sy.Name
				} else if cl, ok := e.Args[2].(Closure); ok && len(cl.Bind) == 0 {
					name = strings.TrimSuffix(cl.Fn.Name(), "$bound")
				} else if cl, ok := e.Args[2].(Closure); ok && len(cl.Bind) > 0 {
					inner := o.St.Obj(cl.Bind[0])
					var fv AV
					if inner != nil {
						fv = inner.Val
					}
					for _, b := range cl.Bind {
						if ob := o.St.Obj(b); ob != nil && ob.Val != nil {
							if c2, ok := ob.Val.(Closure); ok {
								fv = c2
							}
							if sy, ok := ob.Val.(Sym); ok && strings.HasPrefix(sy.Name, "ret:") {
								fv = sy
							}
						}
					}
					switch x := fv.(type) {
					case Closure:
						name = x.Fn.Name()
						name = strings.TrimSuffix(name, "$bound")
					case Sym:
						name = x.Name
					}
				}
				switch {
				case strings.Contains(name, "attachComment"):
					seq = append(seq, "pass:comments")
				case strings.Contains(name, "mkYieldFromRewriter"):
					seq = append(seq, "pass:yieldFrom")
				case strings.Contains(name, "rewriteForRanges"):
					seq = append(seq, "pass:consumerRanges")
				case strings.Contains(name, "mkYieldRewriter"):
					seq = append(seq, "pass:yield")
				case strings.Contains(name, "rewriteIter"):
					seq = append(seq, "pass:iterType")
				default:
					// not one of the names above: what the callback can reach decides (a pass object with a
					// method of its own, a renamed function)
					if cls := r.passClassByReach(name); cls != "" {
						seq = append(seq, "pass:"+cls)
					} else {
						seq = append(seq, "pass:"+name)
					}
				}
			case e.Kind == "call" && e.Fn != nil && inRw(e.Fn) && (e.Fn.Name() == "rewriteYieldFunc" || reachesFn(e.Fn, "rewriteYieldFunc", 4)):
				// the generator pass performed by a direct call instead of a traversal
				if len(seq) == 0 || seq[len(seq)-1] != "pass:yield" {
					seq = append(seq, "pass:yield")
				}
			case e.Kind == "call" && isSymNamed(e.Callee, "printer"):
				seq = append(seq, "print")
			}
		}
		checked++
		idx := func(s string) int {
			for i, x := range seq {
				if x == s {
					return i
				}
			}
			return -1
		}
		order := []string{"collect", "pass:yieldFrom", "pass:consumerRanges", "pass:yield", "pass:iterType", "print"}
		if !printsItself {
			order = order[:len(order)-1]
		}
		var err error
		last := -1
		for _, s := range order {
			i := idx(s)
			if i < 0 {
				err = fmt.Errorf("step %q missing; steps seen: %s", s, strings.Join(seq, " -> "))
				break
			}
			if i < last {
				err = fmt.Errorf("step %q runs too early; steps seen: %s", s, strings.Join(seq, " -> "))
				break
			}
			last = i
		}
		// astutil.Apply walks the children of the node it was handed, not of its replacement: a pass that replaces
		// nodes from the pre-order callback leaves the nested occurrences (Iter[Iter[T]], a consumer loop in a
		// consumer loop) in the detached original. Every pass runs from the post-order callback.
		topDown := ""
		for _, e := range o.St.Events {
			if e.Kind == "call" && e.Fn != nil && e.Fn.Name() == "Apply" && strings.Contains(fnPkgPath(e.Fn), "astutil") && len(e.Args) == 3 {
				if n, known := nilness(e.Args[1]); !known || !n {
					topDown = "a pass is handed to astutil.Apply as the pre-order callback: replacements made top-down lose the nested occurrences"
				}
			}
		}
		c.check(topDown == "", "RW.FILEPASSES", "order of passes: every pass runs bottom-up", pos, "each traversal passes its callback in the post-order position", topDown)
		c.check(err == nil, "RW.FILEPASSES", "order of passes in rewriteFile", pos,
			"collect generators -> YieldFrom -> range-over-iterator -> generator bodies -> iterator type -> print: each lowering sees the form its predecessor produces",
			fmt.Sprint(err))
	}
	if checked == 0 {
		c.und("RW.FILEPASSES", "order of passes in rewriteFile", pos, "no complete path through rewriteFile")
	}
	// per-file state: every rewriter field that is written or map-updated by the passes is re-initialised here before collect
	for _, o := range outs {
		if o.Panicked || o.St.Truncated {
			continue
		}
		reset := map[string]bool{}
		collectAt := -1
		var carried []string
		for i, e := range o.St.Events {
			if e.Kind == "store" && strings.HasPrefix(e.Target, "r.") && (collectAt < 0) {
				reset[strings.TrimPrefix(e.Target, "r.")] = true
				if sv, ok := e.Args[0].(StructV); ok && sv.T != nil {
					// a whole group of fields re-initialised by one composite literal
					if st, ok := sv.T.Underlying().(*types.Struct); ok {
						for _, l := range leafFields(st, "") {
							reset[strings.TrimPrefix(e.Target, "r.")+"."+l] = true
						}
					}
				}
				// the new value must not be derived from what the previous file left in the field
				if strings.Contains(epochRe.ReplaceAllString(e.Args[0].String(), ""), "⟨"+e.Target) {
					carried = append(carried, strings.TrimPrefix(e.Target, "r.")+" = "+canon(e.Args[0]))
				}
			}
			if e.Kind == "call" && e.Fn != nil && e.Fn.Name() == "collectYieldFunc" && collectAt < 0 {
				collectAt = i
			}
		}
		var missing []string
		// the per-file fields are discovered, not listed: every field of the rewriter that some function other
		// than its constructor stores to or map-updates (import names, generator sets, collected comments …)
		perFile := r.writtenRewriterFields()
		if len(perFile) < 3 {
			c.und("RW.FILEPASSES", "per-file state reset before the first pass", pos, fmt.Sprintf("only %d per-file fields of the rewriter discovered: %v", len(perFile), perFile))
			break
		}
		for _, f := range perFile {
			if !reset[f] {
				missing = append(missing, f)
			}
		}
		c.check(len(carried) == 0, "RW.FILEPASSES", "per-file state does not carry over", pos,
			"every per-file field is re-initialised with a value that does not depend on its previous content",
			"per-file field re-initialised from its own previous value ("+strings.Join(carried, "; ")+"): whether it is nil or empty for this file depends on the files processed before")
		c.check(len(missing) == 0, "RW.FILEPASSES", "per-file state reset before the first pass", pos,
			"import names, generator sets and collected comments are re-initialised for every file before any pass uses them",
			"per-file field(s) not re-initialised before the first pass: "+strings.Join(missing, ", ")+" (state of the previous file leaks into this one)")
		break
	}
}

// reachesFn: does fn statically call (within depth) a function named target?
// passClassByReach classifies a traversal callback, given by the full name of its function (a bound method value
// ends in $bound), by the lowering it can reach: the delegation lowering, the consumer-loop lowering, the generator
// lowering; a callback that reaches none of them but asks the iterator-type predicate and edits the tree is the
// iterator-type pass.
func (r *rwRT) passClassByReach(name string) string {
	name = strings.TrimSuffix(name, "$bound")
	var fn *ssaFunction
	for _, f := range r.w.FuncsOf(pathRw) {
		if f.String() == name || strings.HasSuffix(name, "+"+f.String()) {
			fn = f
		}
	}
	if fn == nil {
		return ""
	}
	switch {
	case reachesFn(fn, "rewriteYieldFrom", 4):
		return "yieldFrom"
	case reachesFn(fn, "rewriteForRange", 4):
		return "consumerRanges"
	case reachesFn(fn, "rewriteYieldFunc", 4):
		return "yield"
	case reachesFn(fn, "isIterator", 3) && reachesFn(fn, "Replace", 3):
		return "iterType"
	case reachesFn(fn, "AppendComment", 3) || reachesFn(fn, "Comment", 3):
		return "comments"
	}
	return ""
}

func reachesFn(fn interface{ String() string }, target string, depth int) bool {
	f, ok := fn.(*ssaFunction)
	if !ok || f == nil || depth < 0 {
		return false
	}
	for _, b := range f.Blocks {
		for _, ins := range b.Instrs {
			if call, ok := ins.(ssaCallInstruction); ok {
				if callee := call.Common().StaticCallee(); callee != nil {
					if callee.Name() == target {
						return true
					}
					if inRw(callee) && reachesFn(bodyOf(callee), target, depth-1) {
						return true
					}
				}
			}
		}
	}
	for _, a := range f.AnonFuncs {
		if reachesFn(a, target, depth-1) {
			return true
		}
	}
	return false
}

// ruleAllFiles: every file that uses the API is rewritten, whatever else is processed in the same invocation.
// strict: the decision must be the type-based test imports.Uses(f, coPkg.Types) (C11: every import form).
// Otherwise (C15) any predicate of the file alone is admissible: a call outside package rewriter whose
// arguments are derived only from the file, the co package and constants.
func (r *rwRT) ruleAllFiles(strict bool) {
	c := r.c
	c.min("RW.ALLFILES", 2)
	fn := r.method("rewriter", "rewriteAllFiles")
	c.fn(relName(fn))
	pos := r.w.FnPos(fn)
	in := r.interp(rwConfig{root: fn, boundaries: map[string]bool{"rewriteAllFiles": false}})
	in.OnCall = wrapOnCall(in.OnCall, func(cc *CallCtx) []Answer {
		if cc.Fn != nil && cc.Fn.Name() == "LookupPackage" {
			return []Answer{{Ret: []AV{Sym{Name: "coPkg", NN: true}}, NoEvent: true}}
		}
		// the package of one of the API objects the rewriter has looked up is the API package as well
		name, recv := cc.Method, cc.Recv
		if name == "" && cc.Fn != nil && cc.Fn.Signature.Recv() != nil && len(cc.Args) == 1 {
			name, recv = cc.Fn.Name(), cc.Args[0]
		}
		if name == "Pkg" && recv != nil {
			rv := unwrap(recv)
			if fr, ok := rv.(FieldRef); ok {
				rv = unwrap(fr.Base)
			}
			if sy, ok := rv.(Sym); ok {
				switch epochRe.ReplaceAllString(sy.Name, "") {
				case "r.yieldFunc", "r.yieldFromFunc", "r.iterType":
					return []Answer{{Ret: []AV{Sym{Name: "coPkg.Types", NN: true}}, NoEvent: true}}
				}
			}
		}
		return nil
	})
	outs := in.Run(nil, fn, []AV{Sym{Name: "r", NN: true}, Sym{Name: "printer", NN: true}}, nil)
	var visit AV
	var base *State
	for _, o := range outs {
		for _, e := range o.St.Events {
			if e.Kind == "call" && e.Fn != nil && e.Fn.Name() == "VisitAllFiles" && len(e.Args) == 2 {
				visit, base = e.Args[1], o.St
			}
		}
	}
	if visit == nil {
		c.und("RW.ALLFILES", "per-file decision", pos, "rewriteAllFiles does not visit files through VisitAllFiles")
		return
	}
	guards := map[string]bool{}
	for _, uses := range []bool{true, false} {
		uses := uses
		in.OnCall = wrapOnCall(in.OnCall, func(cc *CallCtx) []Answer {
			// the type-based test "file f refers to an object of package co" (every import form: dot, default
			// name, renamed); a syntactic test on import names is not this oracle and stays unknown
			// (imports.Imports is equivalent on type-correct input: Go rejects an unused import)
			if cc.Fn != nil && (cc.Fn.Name() == "Uses" || cc.Fn.Name() == "Imports") && cc.Fn.Pkg != nil && strings.HasSuffix(cc.Fn.Pkg.Pkg.Path(), "imports") &&
				len(cc.Args) == 2 && derivedFrom(argLabel(cc.Args[1]), "coPkg") {
				guards[fnPkgPath(cc.Fn)+"."+cc.Fn.Name()] = true
				return []Answer{{Ret: []AV{mkBool(uses)}, NoEvent: true}}
			}
			if !strict && cc.Fn != nil && !inRw(cc.Fn) && cc.Fn.Signature.Results().Len() == 1 && len(cc.Args) > 0 {
				if b, ok := cc.Fn.Signature.Results().At(0).Type().Underlying().(*types.Basic); ok && b.Info()&types.IsBoolean != 0 {
					fileOnly := true
					for _, a := range cc.Args {
						names := map[string]bool{}
						symNames(cc.St, a, names, map[int]bool{})
						for n := range names {
							if !derivedFrom(n, "f") && !derivedFrom(n, "coPkg") {
								fileOnly = false
							}
						}
					}
					if fileOnly {
						guards[fnPkgPath(cc.Fn)+"."+cc.Fn.Name()] = true
						return []Answer{{Ret: []AV{mkBool(uses)}, NoEvent: true}}
					}
				}
			}
			return nil
		})
		// distinct files have distinct names
		in.Fields["f.Filename"] = Sym{Name: "filename1", Uniq: true}
		in.Fields["f2.Filename"] = Sym{Name: "filename2", Uniq: true}
		res := in.Apply(base, visit, []AV{Sym{Name: "f", NN: true}})
		r.account(in)
		rewritten, skipped := 0, 0
		example := ""
		for _, o := range res {
			if o.Panicked {
				continue
			}
			found := false
			for _, e := range o.St.Events[len(base.Events):] {
				if e.Kind == "call" && e.Fn != nil && e.Fn.Name() == "rewriteFile" {
					found = true
				}
			}
			if found {
				rewritten++
			} else {
				skipped++
				example = pathSummary(o)
			}
			if uses && found {
				// a second, different file that uses the API, visited after the first one
				n0 := len(o.St.Events)
				for _, o2 := range in.Apply(o.St, visit, []AV{Sym{Name: "f2", NN: true}}) {
					if o2.Panicked {
						continue
					}
					found2 := false
					for _, e := range o2.St.Events[n0:] {
						if e.Kind == "call" && e.Fn != nil && e.Fn.Name() == "rewriteFile" {
							found2 = true
						}
					}
					if !found2 {
						skipped++
						example = "after another file was rewritten: " + pathSummary(o2)
					}
				}
				r.account(in)
			}
		}
		if uses {
			c.check(skipped == 0 && rewritten > 0, "RW.ALLFILES", "file using the API", pos, "is rewritten on every path: the decision is the type-based API-use test on the file alone", "a file that uses the API is skipped on some path — the decision depends on something other than whether the file refers to objects of package co (other files or packages of the invocation, or the spelling of its import): "+example)
		} else {
			c.check(rewritten == 0, "RW.ALLFILES", "file not using the API", pos, "is left alone", "a file that does not use the API is rewritten")
		}
	}
	// A file belonging to two package variants (p and p [p.test] share one *ast.File when tests are loaded,
	// which GoGen always does) is presented to the callback twice. The second visit must be a no-op, or the
	// bytes written for p/x_co.go depend on whether an unrelated p/y_co_test.go exists. Frozen table of
	// what the rewrite does to each predicate (source: github.com/goghcrow/go-imports import.go, x/tools astutil):
	//   imports.Uses, astutil.UsesImport  - "some identifier refers to package co": false once the file is rewritten
	//   imports.Imports/ImportsAs/ImportSpec, astutil imports tests - "the import declaration is present": the
	//   rewriter never deletes it (imports are cleaned by the optimiser, later), so it stays true
	if strict {
		return
	}
	var gs []string
	for g := range guards {
		gs = append(gs, g)
	}
	sort.Strings(gs)
	falsified, kept, unknown := 0, "", ""
	for _, g := range gs {
		switch {
		case strings.HasSuffix(g, "imports.Uses"), strings.HasSuffix(g, "astutil.UsesImport"):
			falsified++
		case strings.Contains(g, ".Imports"), strings.Contains(g, ".ImportSpec"):
			kept = g
		default:
			unknown = g
		}
	}
	switch {
	case falsified > 0:
		c.ok("RW.ALLFILES", "file visited twice", pos, "the guard of rewriteFile ("+strings.Join(gs, ", ")+") is a use-test, false for a file that has been rewritten: a file shared by two package variants is rewritten once")
	case kept != "":
		c.bad("RW.ALLFILES", "file visited twice", pos, "the guard of rewriteFile ("+kept+") tests the import declaration, which rewriting does not remove: a file shared by the package variants p and p [p.test] is rewritten and written twice, so its bytes depend on the presence of unrelated test files")
	case unknown != "":
		c.und("RW.ALLFILES", "file visited twice", pos, "cannot tell whether the guard "+unknown+" is false for an already rewritten file")
	default:
		c.und("RW.ALLFILES", "file visited twice", pos, "no guard recognised in front of rewriteFile")
	}
}

// writtenRewriterFields: names of the fields of type rewriter that are stored to, or whose map is updated,
// by any function of the package other than the constructor mkRewriter (resolved through SSA field addresses).
func (r *rwRT) writtenRewriterFields() []string {
	pkg := r.w.SSA[pathRw]
	seen := map[string]bool{}
	isRewriter := func(t types.Type) bool {
		if p, ok := t.Underlying().(*types.Pointer); ok {
			t = p.Elem()
		}
		n, ok := t.(*types.Named)
		return ok && n.Obj().Name() == "rewriter" && n.Obj().Pkg() != nil && n.Obj().Pkg().Path() == pathRw
	}
	// dotted path of a field below the rewriter (fields may be grouped in embedded structs)
	var fieldOf func(v ssa.Value) string
	fieldOf = func(v ssa.Value) string {
		fa, ok := v.(*ssa.FieldAddr)
		if !ok {
			return ""
		}
		if isRewriter(fa.X.Type()) {
			return fieldName(fa.X.Type(), fa.Field)
		}
		if outer := fieldOf(fa.X); outer != "" {
			return outer + "." + fieldName(fa.X.Type(), fa.Field)
		}
		return ""
	}
	mark := func(path string, t types.Type) {
		// a store to a struct-valued field writes every field of the struct (a pointer-valued field is one field)
		if st, ok := t.Underlying().(*types.Struct); ok && st.NumFields() > 0 {
			for _, l := range leafFields(st, "") {
				seen[path+"."+l] = true
			}
			return
		}
		seen[path] = true
	}
	var visit func(fn *ssa.Function)
	visit = func(fn *ssa.Function) {
		if fn == nil || fn.Name() == "mkRewriter" {
			return
		}
		for _, b := range fn.Blocks {
			for _, ins := range b.Instrs {
				switch x := ins.(type) {
				case *ssa.Store:
					if f := fieldOf(x.Addr); f != "" {
						mark(f, x.Val.Type())
					}
				case *ssa.MapUpdate:
					if u, ok := x.Map.(*ssa.UnOp); ok {
						if f := fieldOf(u.X); f != "" {
							seen[f] = true
						}
					}
				}
			}
		}
		for _, a := range fn.AnonFuncs {
			visit(a)
		}
	}
	for _, m := range pkg.Members {
		if fn, ok := m.(*ssa.Function); ok {
			visit(fn)
		}
		if t, ok := m.(*ssa.Type); ok {
			for _, recv := range []types.Type{t.Type(), types.NewPointer(t.Type())} {
				ms := r.w.Prog.MethodSets.MethodSet(recv)
				for i := 0; i < ms.Len(); i++ {
					if f := r.w.Prog.MethodValue(ms.At(i)); f != nil && f.Pkg == pkg {
						visit(f)
					}
				}
			}
		}
	}
	var out []string
	for f := range seen {
		out = append(out, f)
	}
	sort.Strings(out)
	return out
}

// ------------------------------------------------------------------ RW.COMMENTS
//
// go/printer prints the doc comments attached to nodes only when File.Comments is nil; with a
// non-nil list it prints exactly the listed groups. rewriteFile replaces the list (free-floating
// comments are dropped on purpose): whenever the list it installs can be non-nil, the doc comments
// of the file's own nodes must have been collected into it — otherwise every declaration of a file
// that contains a generator literal loses its doc comment, including directives (//go:embed,
// //go:noinline, //go:generate) that change what plain declarations do.
func (r *rwRT) ruleComments() {
	c := r.c
	c.min("RW.COMMENTS", 1)
	fn := r.method("rewriter", "rewriteFile")
	c.fn(relName(fn))
	pos := r.w.FnPos(fn)
	in := r.interp(rwConfig{root: fn, boundaries: map[string]bool{"rewriteFile": false, "attachComment": true, "rewriteForRanges": true, "rewriteIter": true, "mkYieldFromRewriter": true, "mkYieldRewriter": true, "collectYieldFunc": true}})
	in.MaxDepth, in.MaxVisits = 10, 12
	passNames := map[string]bool{"attachComment": true, "rewriteForRanges": true, "rewriteIter": true, "mkYieldFromRewriter": true, "mkYieldRewriter": true, "collectYieldFunc": true}
	in.Inline = func(f *ssa.Function) bool {
		return inRw(f) && !passNames[f.Name()] && f.Name() != "rewriteYieldFunc" && !reachesFn(f, "rewriteYieldFunc", 4)
	}
	// every node type of go/ast that carries a Doc or a (line) Comment group: the traversal that collects the
	// doc comments is shown one node of each, carrying distinct groups, and all of them must be in the list
	// that is finally installed
	type docField struct{ typ, field string }
	var docFields []docField
	astPkg := r.astPtr("File").(*types.Pointer).Elem().(*types.Named).Obj().Pkg()
	for _, name := range astPkg.Scope().Names() {
		tn, ok := astPkg.Scope().Lookup(name).(*types.TypeName)
		if !ok {
			continue
		}
		st, ok := tn.Type().Underlying().(*types.Struct)
		if !ok {
			continue
		}
		for i := 0; i < st.NumFields(); i++ {
			f := st.Field(i)
			// only doc positions can carry directives (//go:embed, //go:noinline, //go:linkname, the cgo preamble):
			// line comments and the comments of struct fields / parameters have no effect on behaviour
			if f.Name() == "Doc" && name != "Field" && strings.HasSuffix(f.Type().String(), "ast.CommentGroup") {
				docFields = append(docFields, docField{name, f.Name()})
			}
		}
	}
	if len(docFields) < 6 {
		undecided("only %d Doc fields found in go/ast", len(docFields))
	}
	in.OnCall = wrapOnCall(in.OnCall, func(cc *CallCtx) []Answer {
		if cc.Fn != nil && (cc.Fn.Name() == "Inspect" || cc.Fn.Name() == "Walk") && strings.HasSuffix(fnPkgPath(cc.Fn), "go/ast") && len(cc.Args) == 2 {
			if callee, pre, _, _, ok := r.astVisitCall(cc.Fn.Name(), cc.Args); ok {
				var inv []Invocation
				for _, df := range docFields {
					t := r.astPtr(df.typ)
					ref := cc.St.alloc(&Obj{T: t.(*types.Pointer).Elem(), Kind: 's', Fields: map[string]AV{df.field: Sym{Name: "grp:" + df.typ + "." + df.field, NN: true}}})
					inv = append(inv, Invocation{Fn: callee, Args: append(append([]AV{}, pre...), Dyn{T: t, V: ref})})
				}
				return []Answer{{Invoke: inv}}
			}
		}
		return nil
	})
	// the passes may have attached comments: after a traversal the list is unknown (nil or not)
	in.OnCall = wrapOnCall(in.OnCall, func(cc *CallCtx) []Answer {
		if cc.Fn != nil && cc.Fn.Name() == "Apply" && strings.Contains(fnPkgPath(cc.Fn), "astutil") {
			return []Answer{{Ret: []AV{Sym{Name: "applied"}}, Do: func(st *State) {
				for k := range st.symMem {
					if strings.HasPrefix(k, "r.") && !strings.Contains(k, "ImportedName") {
						st.symMem[k] = Sym{Name: k + "'"}
					}
				}
			}}}
		}
		return nil
	})
	outs := in.Run(nil, fn, []AV{Sym{Name: "r", NN: true}, Sym{Name: "f", NN: true}, Sym{Name: "printer", NN: true}}, nil)
	r.account(in)
	checked := 0
	bad := ""
	missing := map[string]string{}
	collectedPaths, sorted := 0, 0
	orderBad, pruned := "", ""
	for _, o := range outs {
		if o.Panicked || o.St.Truncated {
			continue
		}
		lastStore, collected := -1, false
		if os.Getenv("VERIF_DEBUG_COMMENTS") != "" {
			for _, e := range o.St.Events {
				if e.Kind == "store" {
					fmt.Fprintf(os.Stderr, "COMMENTS store %s\n", e.Target)
				}
			}
		}
		for i, e := range o.St.Events {
			if e.Kind == "store" && strings.HasSuffix(epochRe.ReplaceAllString(e.Target, ""), "File.Comments") {
				lastStore = i
			}
			if e.Kind == "call" && e.Fn != nil && (e.Fn.Name() == "Inspect" || e.Fn.Name() == "Walk") && strings.HasSuffix(fnPkgPath(e.Fn), "go/ast") && len(e.Args) >= 1 {
				names := map[string]bool{}
				for _, a := range e.Args { // the root is the first argument of Inspect and the second of Walk
					symNames(o.St, a, names, map[int]bool{})
				}
				for n := range names {
					if derivedFrom(n, "f.File") || derivedFrom(n, "f") {
						collected = true
					}
				}
			}
		}
		if lastStore < 0 {
			continue // the list is left as parsed: go/printer sees the original comments
		}
		checked++
		v := o.St.Events[lastStore].Args[0]
		// is the installed list known to be nil on this path?
		isNil := false
		if n, known := nilness(v); known && n {
			isNil = true
		}
		for _, cd := range o.St.Conds {
			cs := epochRe.ReplaceAllString(condCanon(cd), "")
			if strings.Contains(strings.ToLower(cs), "comments") && strings.Contains(cs, "nil") && (strings.HasPrefix(cs, "==(") || strings.HasPrefix(cs, "!(!=(")) {
				isNil = true
			}
		}
		if os.Getenv("VERIF_DEBUG_COMMENTS") != "" {
			var cs []string
			for _, cd := range o.St.Conds {
				cs = append(cs, condCanon(cd))
			}
			fmt.Fprintf(os.Stderr, "COMMENTS v=%s isNil=%v collected=%v conds=%v\n", v, isNil, collected, cs)
		}
		if !isNil && collected {
			// the merged list must be in source order: go/printer interleaves comments by position
			for _, e := range o.St.Events[:lastStore] {
				if e.Kind != "call" || e.Fn == nil || fnPkgPath(e.Fn) != "sort" || len(e.Args) != 2 || !strings.HasPrefix(e.Fn.Name(), "Slice") {
					continue // sort.Slice / sort.SliceStable take a comparator (sort.Search takes a predicate)
				}
				less, isClo := e.Args[1].(Closure)
				if !isClo {
					continue
				}
				sorted++
				// the list that is sorted is the one that is installed — unless what is installed is a single
				// collected list (in traversal order, which is source order), not a concatenation. Several sorts
				// (each part sorted, then a hand-written merge) are not judged: the merge's order is not decided here.
				nSorts := 0
				for _, e2 := range o.St.Events[:lastStore] {
					if e2.Kind == "call" && e2.Fn != nil && fnPkgPath(e2.Fn) == "sort" && len(e2.Args) == 2 && strings.HasPrefix(e2.Fn.Name(), "Slice") {
						nSorts++
					}
				}
				if nSorts == 1 && !sameAV(unwrap(e.Args[0]), unwrap(v)) {
					spreads, elems := 0, 0
					if sv, ok := unwrap(v).(SliceV); ok {
						elems = len(sv.Elems)
						for _, el := range sv.Elems {
							if _, sp := el.(Spread); sp {
								spreads++
							}
						}
					}
					if spreads >= 1 && elems >= 2 {
						orderBad = "the list that is installed is a concatenation (the collected doc comments followed by another list) and is not the list the sort was applied to: the attached source comments follow all doc comments instead of standing at their positions"
					}
				}
				for _, lo := range in.Apply(o.St, less, []AV{Sym{Name: "i"}, Sym{Name: "j"}}) {
					if lo.Panicked || len(lo.Ret) != 1 {
						continue
					}
					if os.Getenv("VERIF_DEBUG_COMMENTS") != "" {
						fmt.Fprintf(os.Stderr, "COMMENTS less = %s\n", lo.Ret[0])
					}
					recvOf := map[string]string{} // result symbol of a Pos() call -> its receiver
					for _, le := range lo.St.Events[len(o.St.Events):] {
						if le.Kind == "call" && le.Fn != nil && le.Fn.Name() == "Pos" && le.Ret != nil && len(le.Args) >= 1 {
							recvOf[le.Ret.String()] = "Pos(" + le.Args[0].String() + ")"
						}
					}
					if !ascendingByPos(lo.Ret[0], recvOf) {
						orderBad = "the comparator of the sort that orders the installed list is not `a.Pos() < b.Pos()`: " + lo.Ret[0].String()
					}
				}
			}
			// the traversal must not be cut short above the declarations and their specs
			for _, e := range o.St.Events[:lastStore] {
				if e.Kind != "call" || e.Fn == nil || (e.Fn.Name() != "Inspect" && e.Fn.Name() != "Walk") || len(e.Args) != 2 {
					continue
				}
				cb, pre, _, descends, okCall := r.astVisitCall(e.Fn.Name(), e.Args)
				if !okCall {
					continue
				}
				// (the declarations and their specs are the only directive-carrying nodes: File and GenDecl are on the way)
				for _, kind := range []string{"File", "GenDecl"} {
					t := r.astPtr(kind)
					st2 := o.St.clone()
					ref := st2.alloc(&Obj{T: t.(*types.Pointer).Elem(), Kind: 's', Fields: map[string]AV{}})
					for _, co := range in.Apply(st2, cb, append(append([]AV{}, pre...), Dyn{T: t, V: ref})) {
						if co.Panicked || len(co.Ret) != 1 {
							continue
						}
						if !descends(co.Ret[0]) {
							pruned = "the traversal that collects the doc comments does not descend below ast." + kind + " (the callback answers " + co.Ret[0].String() + "): the comment groups of the nodes underneath are not collected"
						}
					}
				}
			}
			names := map[string]bool{}
			symNames(o.St, v, names, map[int]bool{})
			for _, df := range docFields {
				if !names["grp:"+df.typ+"."+df.field] {
					missing[df.typ+"."+df.field] = pathSummary(o)
				}
			}
			collectedPaths++
		}
		if !isNil && !collected {
			bad = "a possibly non-empty comment list is installed in the file without the doc comments of the file's own nodes having been collected into it: go/printer then drops every doc comment — and directive — of the plain declarations: " + pathSummary(o)
		}
	}
	if checked == 0 {
		c.ok("RW.COMMENTS", "doc comments survive the installed comment list", pos, "rewriteFile does not replace the file's comment list")
		return
	}
	c.check(bad == "", "RW.COMMENTS", "doc comments survive the installed comment list", pos,
		fmt.Sprintf("%d paths: the installed list is nil, or the doc comments of the file's nodes were collected into it", checked), bad)
	if collectedPaths > 0 {
		c.check(pruned == "", "RW.COMMENTS", "collection descends through every node", pos, "the collecting traversal never prunes a subtree", pruned)
		if sorted > 0 {
			// only the comparator of a library sort is judged; a hand-written merge is not (its order is not decided here)
			c.check(orderBad == "", "RW.COMMENTS", "installed list in source order", pos,
				"the collected doc comments and the attached ones are merged by a sort on Pos(), ascending",
				"go/printer expects File.Comments in source order; "+orderBad)
		}
		for _, df := range docFields {
			k := df.typ + "." + df.field
			c.check(missing[k] == "", "RW.COMMENTS", "collected into the installed list: ast."+k, pos,
				"the group attached to such a node is in the list handed to go/printer",
				"the comment group in ast."+k+" is not in the installed list (go/printer prints only listed groups once the list is non-nil: the comment, and a directive in it, is lost): "+missing[k])
		}
	}
}

// ascendingByPos: is v the comparison elem(i).Pos() < elem(j).Pos() (or its mirror image)?
func ascendingByPos(v AV, recvOf map[string]string) bool {
	e, ok := v.(Expr)
	if !ok || len(e.Args) != 2 {
		return false
	}
	a, b := e.Args[0].String(), e.Args[1].String()
	if r, ok := recvOf[a]; ok {
		a = r
	}
	if r, ok := recvOf[b]; ok {
		b = r
	}
	hasI := func(s string) bool { return strings.Contains(s, "⟨i⟩") && !strings.Contains(s, "⟨j⟩") }
	hasJ := func(s string) bool { return strings.Contains(s, "⟨j⟩") && !strings.Contains(s, "⟨i⟩") }
	if !strings.Contains(a, "Pos") || !strings.Contains(b, "Pos") {
		return false
	}
	switch e.Op {
	case "<", "<=": // positions of distinct groups are distinct: <= orders them the same way
		return hasI(a) && hasJ(b)
	case ">", ">=":
		return hasJ(a) && hasI(b)
	}
	return false
}

// ruleNoAPIPkg: a tree in which no file imports the API (or, for the optimiser, in which nothing imports seq)
// is a type-correct input like any other: both stages must get through it without panicking (the package
// lookup answers nil there), whether they return early or visit the files and skip each.
func (r *rwRT) ruleNoAPIPkg() {
	c := r.c
	for _, ent := range []struct{ typ, method string }{{"rewriter", "rewriteAllFiles"}, {"optimizer", "optimizeAllFiles"}} {
		fn := r.w.MethodOpt(pathRw, ent.typ, ent.method)
		if fn == nil {
			undecided("method %s.%s not found", ent.typ, ent.method)
		}
		c.fn(relName(fn))
		in := r.interp(rwConfig{root: fn, boundaries: map[string]bool{ent.method: false}})
		in.OnCall = wrapOnCall(in.OnCall, func(cc *CallCtx) []Answer {
			if cc.Fn != nil && cc.Fn.Name() == "LookupPackage" {
				return []Answer{{Ret: []AV{Nil{}}, NoEvent: true}}
			}
			return nil
		})
		recv := "r"
		if ent.typ == "optimizer" {
			recv = "o"
		}
		outs := in.Run(nil, fn, []AV{Sym{Name: recv, NN: true}, Sym{Name: "printer", NN: true}}, nil)
		bad := ""
		for _, o := range outs {
			if o.Panicked {
				bad = "panics when the package lookup answers nil: " + pathSummary(o)
				continue
			}
			for _, e := range o.St.Events {
				if e.Kind == "call" && e.Fn != nil && e.Fn.Name() == "VisitAllFiles" && len(e.Args) == 2 {
					for _, o2 := range in.Apply(o.St, e.Args[1], []AV{Sym{Name: "f", NN: true}}) {
						if o2.Panicked {
							bad = "the per-file callback panics when the package lookup answered nil (it dereferences the package): " + pathSummary(o2)
						}
					}
				}
			}
		}
		r.account(in)
		c.check(bad == "" && len(outs) > 0, "RW.ALLFILES", "API package not loaded: "+ent.method, r.w.FnPos(fn),
			"a tree that does not use the package is passed through without a panic", bad)
	}
}

// astVisitCall: how to show one node to the callback of ast.Inspect(node, f) / ast.Walk(visitor, node):
// the callable, the arguments in front of the node, which argument of the traversal call is the root, and
// whether a result means "descend".
func (r *rwRT) astVisitCall(fnName string, args []AV) (callee AV, pre []AV, root AV, descends func(AV) bool, ok bool) {
	if len(args) != 2 {
		return nil, nil, nil, nil, false
	}
	switch fnName {
	case "Inspect":
		if _, isClo := args[1].(Closure); !isClo {
			return nil, nil, nil, nil, false
		}
		return args[1], nil, args[0], func(v AV) bool { b, known := asBool(v); return known && b }, true
	case "Walk":
		d, isDyn := args[0].(Dyn)
		if !isDyn {
			return nil, nil, nil, nil, false
		}
		ms := r.w.Prog.MethodSets.MethodSet(d.T)
		for i := 0; i < ms.Len(); i++ {
			if ms.At(i).Obj().Name() == "Visit" {
				if f := r.w.Prog.MethodValue(ms.At(i)); f != nil {
					return Closure{Fn: f}, []AV{d.V}, args[1], func(v AV) bool { n, known := nilness(v); return known && !n }, true
				}
			}
		}
	}
	return nil, nil, nil, nil, false
}
