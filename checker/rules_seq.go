package main

// Rules over package seq (the runtime): SEQ.ROLE, SEQ.COMBINE, SEQ.DELAY,
// SEQ.SUSPEND, SEQ.TAKE, SEQ.START, SEQ.FOR (F1-F5, incl. nil guards and
// continuation linearity), SEQ.LAZY, SEQ.GEN.
//
// Method: each exported constructor is evaluated by K1 on symbolic arguments;
// the Seq closure it returns is then *applied* abstractly to a symbolic
// coroutine state ⟨c⟩ and continuation ⟨k⟩, and the resulting event traces
// (calls of the user-supplied thunks / conditions / continuations, stores to
// c.step) are compared with the reference semantics written down in the
// property (C08) — for every signal, every nil-ness of optional arguments,
// every answer of the condition and every behaviour of the loop body
// (suspends, or completes with each of the four signals).

import (
	"fmt"
	"go/types"
	"sort"
	"strings"

	"golang.org/x/tools/go/ssa"
)

type sigRoles struct {
	Normal, Break, Continue, Return AV
	byName                          map[string]AV
	names                           []string
}

func (r *sigRoles) nameOf(v AV) string {
	for _, n := range r.names {
		if c, ok := r.byName[n].(Const); ok {
			if c2, ok := v.(Const); ok && c.V.ExactString() == c2.V.ExactString() {
				return n
			}
		}
	}
	if v == nil {
		return "?"
	}
	return v.String()
}

type seqRT struct {
	c     *Ctx
	w     *World
	roles *sigRoles
}

func newSeqRT(c *Ctx) *seqRT { return &seqRT{c: c, w: c.W} }

func (s *seqRT) interp() *Interp {
	seqPkg := s.w.SSA[pathSeq]
	return &Interp{
		W:          s.w,
		WatchLoads: true,
		// helper layers (a resumption object, adapters between thunk shapes) must not be cut off
		MaxDepth: 16,
		// frame condition for the opaque user-supplied Seq/thunk arguments: of the
		// coroutine state they only ever replace the pending step (through Bind)
		HavocKeep: func(key string) bool { return strings.HasPrefix(key, "c.") && key != "c.step" },
		Inline: func(fn *ssa.Function) bool {
			return fn.Pkg == seqPkg || (fn.Origin() != nil && fn.Origin().Pkg == seqPkg) || fnPkgPath(fn) == pathSeq
		},
	}
}

func (s *seqRT) account(in *Interp) {
	s.c.Paths += in.Paths
	s.c.States += in.Steps
}

// fnPkgPath: package of a function, also for synthetic wrappers (bound methods, instances).
func fnPkgPath(fn *ssa.Function) string {
	if fn == nil {
		return ""
	}
	if fn.Pkg != nil {
		return fn.Pkg.Pkg.Path()
	}
	if o := fn.Object(); o != nil && o.Pkg() != nil {
		return o.Pkg().Path()
	}
	if o := fn.Origin(); o != nil {
		return fnPkgPath(o)
	}
	if p := fn.Parent(); p != nil {
		return fnPkgPath(p)
	}
	return ""
}

// closureField: name of the (single) field of a heap struct holding a closure.
// storedResumption: the resumption closure a Bind run left in the coroutine state — whether as a field of a freshly
// allocated step object (`c.step = &step{…}`), as a field of a step stored by value, or stored directly.
func storedResumption(st *State, evs []Event) AV {
	var found AV
	for _, e := range evs {
		if e.Kind != "store" || !strings.HasPrefix(e.Target, "c.") || len(e.Args) != 1 {
			continue
		}
		switch v := e.Args[0].(type) {
		case Closure:
			found = v
		case StructV:
			for _, f := range v.Fields {
				if cl, ok := f.(Closure); ok {
					found = cl
				}
			}
		default:
			if ob := st.Obj(v); ob != nil {
				if n := closureField(ob); n != "" {
					found = ob.Fields[n]
				}
			}
		}
	}
	return found
}

func closureField(o *Obj) string {
	return fieldHolding(o, func(v AV) bool { _, ok := v.(Closure); return ok })
}

func fieldHolding(o *Obj, pred func(AV) bool) string {
	if o == nil {
		return ""
	}
	var names []string
	for n, v := range o.Fields {
		if pred(v) {
			names = append(names, n)
		}
	}
	if len(names) != 1 {
		return ""
	}
	return names[0]
}

func symC() AV { return Sym{Name: "c", NN: true} }
func symK() AV { return Sym{Name: "k", NN: true} }

// observable events: everything except loads that are not of c.step
func observable(evs []Event) []Event {
	var out []Event
	for _, e := range evs {
		if e.Kind == "load" && !strings.HasSuffix(e.Target, ".step") {
			continue
		}
		// bookkeeping the runtime keeps in its own coroutine state is not observable;
		// the pending step is
		if e.Kind == "store" && strings.HasPrefix(e.Target, "c.") && e.Target != "c.step" {
			continue
		}
		out = append(out, e)
	}
	return out
}

func isSymNamed(v AV, name string) bool {
	s, ok := v.(Sym)
	return ok && s.Name == name
}

func isZeroLike(v AV) bool {
	switch v.(type) {
	case Zero:
		return true
	}
	return false
}

func sameAV(a, b AV) bool {
	if a == nil || b == nil {
		return a == nil && b == nil
	}
	return a.String() == b.String()
}

// construct runs a constructor on args and returns the single resulting value + state.
func (s *seqRT) construct(in *Interp, rule, name string, args []AV) (AV, *State, bool) {
	fn := s.w.Func(pathSeq, name)
	s.c.fn("seq." + name)
	outs := in.Run(nil, fn, args, nil)
	if len(outs) != 1 || outs[0].Panicked || len(outs[0].Ret) != 1 {
		s.c.bad(rule, "seq."+name+" constructor", s.w.FnPos(fn), fmt.Sprintf("constructor has %d abstract paths / panics: expected a single straight-line construction of the Seq closure", len(outs)))
		return nil, nil, false
	}
	o := outs[0]
	// SEQ.LAZY: constructing a Seq must not run anything the caller supplied
	lazyOK := true
	for _, e := range o.St.Events {
		if e.Kind == "call" && e.Fn == nil {
			lazyOK = false
			s.c.bad("SEQ.LAZY", "seq."+name, s.w.Pos(e.Pos), "constructor calls a caller-supplied function value while building the Seq ("+e.String()+"): code would run before the iterator is advanced", o.St.TraceStrings()...)
		}
		if e.Kind == "store" || e.Kind == "go" || e.Kind == "defer" || e.Kind == "send" || e.Kind == "recv" {
			lazyOK = false
			s.c.bad("SEQ.LAZY", "seq."+name, s.w.Pos(e.Pos), "constructor has an effect ("+e.String()+") before the iterator is advanced", o.St.TraceStrings()...)
		}
	}
	if lazyOK {
		s.c.ok("SEQ.LAZY", "seq."+name, s.w.FnPos(fn), "constructor only allocates its closure; no caller-supplied function is called, no store outside fresh objects")
	}
	return o.Ret[0], o.St, true
}

// ------------------------------------------------------------------ SEQ.ROLE

func (s *seqRT) ruleRole() *sigRoles {
	if s.roles != nil {
		return s.roles
	}
	c := s.c
	c.min("SEQ.ROLE", 5)
	roles := &sigRoles{byName: map[string]AV{}, names: []string{"Normal", "Break", "Continue", "Return"}}
	for _, name := range roles.names {
		in := s.interp()
		seq, st, ok := s.construct(in, "SEQ.ROLE", name, nil)
		if !ok {
			continue
		}
		outs := in.Apply(st, seq, []AV{symC(), symK()})
		s.account(in)
		pos := s.w.FnPos(s.w.Func(pathSeq, name))
		if len(outs) != 1 || outs[0].Panicked {
			c.bad("SEQ.ROLE", "seq."+name, pos, "running the signal Seq is not a single straight-line path")
			continue
		}
		evs := observable(outs[0].St.Events[len(st.Events):])
		if len(evs) != 1 || evs[0].Kind != "call" || !isSymNamed(evs[0].Callee, "k") || len(evs[0].Args) != 2 {
			c.bad("SEQ.ROLE", "seq."+name, pos, "expected exactly one event k(signal, zero); got: "+strings.Join(outs[0].St.TraceStrings(), " ; "))
			continue
		}
		sig := evs[0].Args[0]
		if _, isConst := sig.(Const); !isConst {
			c.bad("SEQ.ROLE", "seq."+name, pos, "signal passed to the continuation is not a constant: "+sig.String())
			continue
		}
		if !isZeroLike(evs[0].Args[1]) {
			c.bad("SEQ.ROLE", "seq."+name, pos, "value passed with the signal is not the zero value: "+evs[0].Args[1].String())
			continue
		}
		roles.byName[name] = sig
		c.ok("SEQ.ROLE", "seq."+name, pos, "passes constant "+sig.String()+" and the zero value to its continuation exactly once")
	}
	// distinctness
	distinct := len(roles.byName) == 4
	seen := map[string]string{}
	for _, n := range roles.names {
		if v, ok := roles.byName[n]; ok {
			if other, dup := seen[v.String()]; dup {
				distinct = false
				c.bad("SEQ.ROLE", "signals distinct", "", "seq."+n+" and seq."+other+" pass the same signal constant "+v.String())
			}
			seen[v.String()] = n
		}
	}
	if distinct {
		c.ok("SEQ.ROLE", "signals distinct", "", "Normal/Break/Continue/Return pass four distinct constants")
	} else if len(roles.byName) != 4 {
		c.und("SEQ.ROLE", "signals distinct", "", "could not infer all four signal roles")
		undecided("signal roles of seq.Normal/Break/Continue/Return could not be inferred")
	}
	roles.Normal, roles.Break, roles.Continue, roles.Return = roles.byName["Normal"], roles.byName["Break"], roles.byName["Continue"], roles.byName["Return"]

	// ReturnValue(v): k(Return, v)
	{
		in := s.interp()
		v := Sym{Name: "retv"}
		seq, st, ok := s.construct(in, "SEQ.ROLE", "ReturnValue", []AV{v})
		if ok {
			outs := in.Apply(st, seq, []AV{symC(), symK()})
			s.account(in)
			pos := s.w.FnPos(s.w.Func(pathSeq, "ReturnValue"))
			good := len(outs) == 1 && !outs[0].Panicked
			if good {
				evs := observable(outs[0].St.Events[len(st.Events):])
				good = len(evs) == 1 && evs[0].Kind == "call" && isSymNamed(evs[0].Callee, "k") && len(evs[0].Args) == 2 &&
					sameAV(evs[0].Args[0], roles.Return) && isSymNamed(evs[0].Args[1], "retv")
			}
			c.check(good, "SEQ.ROLE", "seq.ReturnValue", pos, "passes (Return, v) with its own argument v exactly once", "expected exactly k(Return, v) with the constructor's own v")
		}
	}
	s.roles = roles
	return roles
}

// ------------------------------------------------------------------ SEQ.COMBINE

func (s *seqRT) ruleCombine() {
	c := s.c
	roles := s.ruleRole()
	c.min("SEQ.COMBINE", 5)
	in := s.interp()
	fn := s.w.Func(pathSeq, "Combine")
	pos := s.w.FnPos(fn)
	seq, st, ok := s.construct(in, "SEQ.COMBINE", "Combine", []AV{Sym{Name: "s1"}, Sym{Name: "s2"}})
	if !ok {
		return
	}
	outs := in.Apply(st, seq, []AV{symC(), symK()})
	if len(outs) != 1 || outs[0].Panicked {
		c.bad("SEQ.COMBINE", "entry", pos, "running Combine(s1,s2) is not a single path")
		return
	}
	evs := observable(outs[0].St.Events[len(st.Events):])
	if len(evs) != 1 || evs[0].Kind != "call" || !isSymNamed(evs[0].Callee, "s1") || len(evs[0].Args) != 2 || !isSymNamed(evs[0].Args[0], "c") {
		c.bad("SEQ.COMBINE", "entry", pos, "expected exactly one event s1(c, K) when the combined Seq is run (s2 must not start before s1 completes); got: "+strings.Join(traceOf(evs), " ; "))
		return
	}
	K := evs[0].Args[1]
	if _, isClo := K.(Closure); !isClo {
		c.bad("SEQ.COMBINE", "entry", pos, "s1 is not given a fresh continuation but "+K.String())
		return
	}
	c.ok("SEQ.COMBINE", "entry", pos, "running Combine(s1,s2) calls exactly s1(c, K); s2 is not started")
	base := outs[0].St
	for _, name := range roles.names {
		sig := roles.byName[name]
		o2 := in.Apply(base, K, []AV{sig, Sym{Name: "v"}})
		construct := "K(" + name + ")"
		if len(o2) != 1 || o2[0].Panicked {
			c.bad("SEQ.COMBINE", construct, pos, "continuation of s1 has several paths / panics for a fixed signal")
			continue
		}
		e2 := observable(o2[0].St.Events[len(base.Events):])
		var want string
		good := false
		if name == "Normal" {
			want = "exactly s2(c, k) with the outer c and k"
			good = len(e2) == 1 && e2[0].Kind == "call" && isSymNamed(e2[0].Callee, "s2") && len(e2[0].Args) == 2 && isSymNamed(e2[0].Args[0], "c") && isSymNamed(e2[0].Args[1], "k")
		} else {
			want = "exactly k(" + name + ", v) with the same signal and value (rest of the Combine skipped)"
			good = len(e2) == 1 && e2[0].Kind == "call" && isSymNamed(e2[0].Callee, "k") && len(e2[0].Args) == 2 && sameAV(e2[0].Args[0], sig) && isSymNamed(e2[0].Args[1], "v")
		}
		c.check(good, "SEQ.COMBINE", construct, pos, want, "expected "+want+"; got: "+strings.Join(traceOf(e2), " ; "), traceOf(e2)...)
	}
	s.account(in)
}

func traceOf(evs []Event) []string {
	var xs []string
	for _, e := range evs {
		x := e.String()
		if e.Note != "" && (e.Kind == "call" || e.Kind == "resume") {
			x += " [" + e.Note + "]"
		}
		xs = append(xs, x)
	}
	if len(xs) == 0 {
		xs = []string{"(no events)"}
	}
	return xs
}

// ------------------------------------------------------------------ SEQ.DELAY

func (s *seqRT) ruleDelay() {
	c := s.c
	c.min("SEQ.DELAY", 1)
	in := s.interp()
	fn := s.w.Func(pathSeq, "Delay")
	pos := s.w.FnPos(fn)
	seq, st, ok := s.construct(in, "SEQ.DELAY", "Delay", []AV{Sym{Name: "f"}})
	if !ok {
		return
	}
	outs := in.Apply(st, seq, []AV{symC(), symK()})
	s.account(in)
	good := len(outs) == 1 && !outs[0].Panicked
	var evs []Event
	if good {
		evs = observable(outs[0].St.Events[len(st.Events):])
		good = len(evs) == 2 && evs[0].Kind == "call" && isSymNamed(evs[0].Callee, "f") && len(evs[0].Args) == 0 &&
			evs[1].Kind == "call" && sameAV(evs[1].Callee, evs[0].Ret) && len(evs[1].Args) == 2 && isSymNamed(evs[1].Args[0], "c") && isSymNamed(evs[1].Args[1], "k")
	}
	c.check(good, "SEQ.DELAY", "Delay(f) run", pos, "forces f exactly once and runs its result with the same (c, k)", "expected exactly f() followed by result(c, k); got: "+strings.Join(traceOf(evs), " ; "), traceOf(evs)...)
}

// ------------------------------------------------------------------ SEQ.SUSPEND / SEQ.TAKE

func (s *seqRT) ruleSuspend() {
	c := s.c
	c.min("SEQ.SUSPEND", 2)
	c.min("SEQ.TAKE", 2)
	for _, name := range []string{"Bind", "BindRecv"} {
		in := s.interp()
		fn := s.w.Func(pathSeq, name)
		pos := s.w.FnPos(fn)
		seq, st, ok := s.construct(in, "SEQ.SUSPEND", name, []AV{Sym{Name: "yv"}, Sym{Name: "f"}})
		if !ok {
			continue
		}
		outs := in.Apply(st, seq, []AV{symC(), symK()})
		if len(outs) != 1 || outs[0].Panicked {
			c.bad("SEQ.SUSPEND", name+"(v,f) run", pos, "not a single path")
			continue
		}
		o := outs[0]
		evs := observable(o.St.Events[len(st.Events):])
		// how the pending step is kept in the coroutine state is the package's business: when the run does nothing
		// but write that state in some other way (a value and a flag, helper methods), the same three facts are
		// decided by observation, through the iterator Start returns
		onlyState := true
		for _, e := range o.St.Events[len(st.Events):] {
			if e.Kind == "call" && e.Fn == nil || e.Kind == "store" && !strings.HasPrefix(e.Target, "c.") {
				onlyState = false
			}
		}
		if onlyState && !(len(evs) == 1 && evs[0].Kind == "store" && evs[0].Target == "c.step") {
			s.suspendObserved(name)
			continue
		}
		var stepRef AV
		good := len(evs) == 1 && evs[0].Kind == "store" && evs[0].Target == "c.step"
		if good {
			stepRef = evs[0].Args[0]
			obj := o.St.Obj(stepRef)
			good = obj != nil && obj.Kind == 's' && fieldHolding(obj, func(v AV) bool { return isSymNamed(v, "yv") }) != "" && closureField(obj) != ""
		}
		if !c.check(good, "SEQ.SUSPEND", name+"(v,f) run", pos,
			"stores a fresh step{value: v, next: resumption} in c.step and returns; neither f nor k is called (suspension)",
			"expected exactly one effect: c.step = &step{value: v, next: <closure>} and no call of f or k; got: "+strings.Join(traceOf(evs), " ; "), traceOf(evs)...) {
			continue
		}
		// SEQ.TAKE: the resumption
		next := o.St.Obj(stepRef).Fields[closureField(o.St.Obj(stepRef))]
		o2 := in.Apply(o.St, next, []AV{Sym{Name: "recv"}})
		construct := name + " resumption"
		if len(o2) != 1 || o2[0].Panicked {
			c.bad("SEQ.TAKE", construct, pos, "resumption is not a single path")
			continue
		}
		e2 := observable(o2[0].St.Events[len(o.St.Events):])
		// expected: call f([recv]) ; call ret(c,k) ; load c.step ; store c.step = nil ; return loaded
		ok2 := len(e2) == 4 && e2[0].Kind == "call" && isSymNamed(e2[0].Callee, "f") &&
			e2[1].Kind == "call" && sameAV(e2[1].Callee, e2[0].Ret) && len(e2[1].Args) == 2 && isSymNamed(e2[1].Args[0], "c") && isSymNamed(e2[1].Args[1], "k") &&
			e2[2].Kind == "load" && e2[2].Target == "c.step" &&
			e2[3].Kind == "store" && e2[3].Target == "c.step"
		why := ""
		if ok2 {
			if name == "Bind" {
				ok2 = len(e2[0].Args) == 0
				why = "Bind's thunk takes no argument"
			} else {
				ok2 = len(e2[0].Args) == 1 && isSymNamed(e2[0].Args[0], "recv")
				why = "BindRecv's thunk must receive the value sent by the consumer"
			}
		}
		if ok2 {
			n, known := nilness(e2[3].Args[0])
			ok2 = known && n
			why = "pending step must be cleared"
		}
		if ok2 {
			ret := o2[0].Ret
			ok2 = len(ret) == 1
			if ok2 {
				rs, isSym := ret[0].(Sym)
				ok2 = isSym && strings.HasPrefix(rs.Name, "c.step")
				why = "must return the step found after running the thunk"
			}
		}
		c.check(ok2, "SEQ.TAKE", construct, pos,
			"calls the thunk once, runs its Seq with the captured (c, k), then takes c.step, clears it and returns it",
			"expected f(..) ; result(c,k) ; s := c.step ; c.step = nil ; return s  ("+why+"); got: "+strings.Join(traceOf(e2), " ; ")+" => "+fmt.Sprint(o2[0].Ret), traceOf(e2)...)
		// The same value run a second time (the body of a loop whose Delay was elided is one value run once per
		// iteration): it suspends again and its resumption runs the thunk again — nothing is remembered from the
		// first run.
		if ok2 {
			again := ""
			o3 := in.Apply(o2[0].St, seq, []AV{symC(), symK()})
			if len(o3) != 1 || o3[0].Panicked {
				again = "the second run of the value is not a single path"
			} else {
				next2 := storedResumption(o3[0].St, o3[0].St.Events[len(o2[0].St.Events):])
				if next2 == nil {
					again = "the second run of the value does not suspend by storing a step with a resumption"
				} else {
					o4 := in.Apply(o3[0].St, next2, []AV{Sym{Name: "recv2"}})
					if len(o4) != 1 || o4[0].Panicked {
						again = "the resumption of the second run is not a single path"
					} else {
						e4 := observable(o4[0].St.Events[len(o3[0].St.Events):])
						if len(e4) == 0 || e4[0].Kind != "call" || !isSymNamed(e4[0].Callee, "f") {
							again = "the resumption of the second run does not call the thunk (the statements after the yield run only the first time): " + strings.Join(traceOf(e4), " ; ")
						}
					}
				}
			}
			c.check(again == "", "SEQ.TAKE", name+" resumption, value run a second time", pos, "the thunk is called again by the resumption of every run", again)
		}
		s.account(in)
	}
}

// suspendObserved: SEQ.SUSPEND / SEQ.TAKE for a Bind / BindRecv whose pending step is not kept as `c.step = &step{…}`.
// The term Bind(yv, f) is started; the first advance must deliver yv without calling f (suspension); the next one,
// carrying a sent value, must call f exactly once — without arguments for Bind, with the sent value for BindRecv —
// and then run the Seq it returns; when that completes the iterator is exhausted and reports the result. The same
// term started a second time behaves the same (nothing is remembered from the first run).
func (s *seqRT) suspendObserved(name string) {
	c := s.c
	fn := s.w.Func(pathSeq, name)
	pos := s.w.FnPos(fn)
	in := s.interp()
	in.MaxDepth = 16
	outs := in.Run(newState(), fn, []AV{Sym{Name: "yv", Uniq: true}, Sym{Name: "f", NN: true}}, nil)
	if len(outs) != 1 || outs[0].Panicked || len(outs[0].Ret) != 1 {
		c.bad("SEQ.SUSPEND", name+"(v,f) run", pos, "constructor is not a single path")
		return
	}
	term, st := outs[0].Ret[0], outs[0].St
	in.OnCall = func(cc *CallCtx) []Answer {
		sy, ok := cc.Callee.(Sym)
		if !ok {
			return nil
		}
		switch epochRe.ReplaceAllString(sy.Name, "") {
		case "f":
			return []Answer{{Ret: []AV{Sym{Name: "rest", NN: true}}}}
		case "rest":
			if len(cc.Args) == 2 {
				return []Answer{{Invoke: []Invocation{{Fn: cc.Args[1], Args: []AV{Sym{Name: "sig"}, Sym{Name: "res", Uniq: true}}}}}}
			}
		}
		return nil
	}
	startFn := s.w.Func(pathSeq, "Start")
	type obs struct{ callee, args string }
	callsOf := func(st *State, from int) []obs {
		var out []obs
		for _, e := range st.Events[from:] {
			if sy, ok := e.Callee.(Sym); ok && e.Kind == "call" && e.Fn == nil {
				var as []string
				for _, a := range e.Args {
					as = append(as, argLabel(a))
				}
				out = append(out, obs{epochRe.ReplaceAllString(sy.Name, ""), strings.Join(as, ",")})
			}
		}
		return out
	}
	run := func(st *State, tag string) (*State, string) {
		so := in.Run(st, startFn, []AV{term}, nil)
		if len(so) != 1 || so[0].Panicked || len(so[0].Ret) != 1 {
			return nil, tag + "Start is not a single path"
		}
		it, ok := so[0].Ret[0].(Dyn)
		if !ok {
			return nil, tag + "Start does not return a concrete iterator"
		}
		m := s.methodsOf(it.T)
		if m["MoveNext"] == nil || m["Send"] == nil || m["Current"] == nil || m["Result"] == nil {
			return nil, tag + "the iterator lacks MoveNext / Send / Current / Result"
		}
		st1 := so[0].St
		n0 := len(st1.Events)
		o1 := in.Run(st1, m["MoveNext"], []AV{it.V}, nil)
		if len(o1) != 1 || o1[0].Panicked || len(o1[0].Ret) != 1 {
			return nil, tag + "the first advance is not a single path"
		}
		if b, known := asBool(o1[0].Ret[0]); !known || !b {
			return nil, tag + "the first advance does not report a value (the term must suspend with its value)"
		}
		if cs := callsOf(o1[0].St, n0); len(cs) != 0 {
			return nil, fmt.Sprintf("%sthe first advance calls %v: the thunk must not run before the iterator is resumed", tag, cs)
		}
		cu := in.Run(o1[0].St.clone(), m["Current"], []AV{it.V}, nil)
		if len(cu) != 1 || cu[0].Panicked || len(cu[0].Ret) != 1 || argLabel(cu[0].Ret[0]) != "yv" {
			return nil, tag + "the value delivered by the first advance is not the bound value"
		}
		n1 := len(o1[0].St.Events)
		o2 := in.Run(o1[0].St, m["Send"], []AV{it.V, Sym{Name: "recv", Uniq: true}}, nil)
		if len(o2) != 1 || o2[0].Panicked || len(o2[0].Ret) != 2 {
			return nil, tag + "the resuming advance is not a single path"
		}
		wantArgs := ""
		if name == "BindRecv" {
			wantArgs = "recv"
		}
		cs := callsOf(o2[0].St, n1)
		if len(cs) != 2 || cs[0] != (obs{"f", wantArgs}) || cs[1].callee != "rest" {
			return nil, fmt.Sprintf("%sthe resuming advance runs %v; expected exactly f(%s) and then the Seq it returned", tag, cs, wantArgs)
		}
		if b, known := asBool(o2[0].Ret[1]); !known || b {
			return nil, tag + "after the rest of the term completed the iterator still reports a value (the taken step is not cleared)"
		}
		re := in.Run(o2[0].St.clone(), m["Result"], []AV{it.V}, nil)
		if len(re) != 1 || re[0].Panicked || len(re[0].Ret) != 1 || argLabel(re[0].Ret[0]) != "res" {
			return nil, tag + "the result passed to the continuation is not the iterator's result"
		}
		return o2[0].St, ""
	}
	st1, why := run(st, "")
	c.check(why == "" || !strings.Contains(why, "first advance"), "SEQ.SUSPEND", name+"(v,f) run", pos,
		"observed through Start: the first advance delivers the bound value and calls neither the thunk nor the continuation (suspension)", why)
	c.check(why == "", "SEQ.TAKE", name+" resumption", pos,
		"observed through Start: the resuming advance calls the thunk exactly once (with the sent value for BindRecv, without for Bind), runs the Seq it returns on the same coroutine, and the taken step is gone afterwards", why)
	if why == "" {
		_, why2 := run(st1, "second run of the same term: ")
		c.check(why2 == "", "SEQ.TAKE", name+" resumption, value run a second time", pos, "the same term started again suspends and resumes in the same way", why2)
	}
	s.account(in)
}

// ------------------------------------------------------------------ SEQ.START

func (s *seqRT) ruleStart() (gen AV, st *State, in *Interp, ok bool) {
	c := s.c
	c.min("SEQ.START", 3)
	in = s.interp()
	fn := s.w.Func(pathSeq, "Start")
	pos := s.w.FnPos(fn)
	it, st0, ok := s.construct(in, "SEQ.START", "Start", []AV{Sym{Name: "seq"}})
	if !ok {
		return nil, nil, nil, false
	}
	d, isDyn := it.(Dyn)
	var gobj *Obj
	if isDyn {
		gobj = st0.Obj(d.V)
	}
	if gobj == nil || gobj.Kind != 's' {
		c.bad("SEQ.START", "Start(seq) result", pos, "Start does not return a freshly allocated generator object: "+st0.Render(it))
		return nil, nil, nil, false
	}
	c.ok("SEQ.START", "Start(seq) result", pos, "returns a generator allocated inside Start (fresh per call); seq itself is not run")
	// the first advance, through the iterator's own MoveNext (where the resumption is kept is representation)
	methods := s.methodsOf(d.T)
	if methods["MoveNext"] == nil || methods["Result"] == nil {
		c.bad("SEQ.START", "generator methods", pos, "the value returned by Start has no MoveNext/Result method")
		return nil, nil, nil, false
	}
	o2 := in.Run(st0.clone(), methods["MoveNext"], []AV{d.V}, nil)
	if len(o2) == 0 {
		c.bad("SEQ.START", "first advance", pos, "first advance has no path")
		return nil, nil, nil, false
	}
	for _, o := range o2 {
		if o.Panicked {
			c.bad("SEQ.START", "first advance", pos, "first advance panics before running seq", o.St.TraceStrings()...)
			return nil, nil, nil, false
		}
	}
	e2 := observable(o2[0].St.Events[len(st0.Events):])
	good := len(e2) >= 1 && e2[0].Kind == "call" && isSymNamed(e2[0].Callee, "seq") && len(e2[0].Args) == 2
	var K AV
	if good {
		cobj := o2[0].St.Obj(e2[0].Args[0])
		good = cobj != nil && cobj.Kind == 's'
		K = e2[0].Args[1]
		_, isK := K.(Closure)
		good = good && isK
	}
	if !c.check(good, "SEQ.START", "first advance", pos, "the first advance runs seq(c0, K0) with a coroutine state allocated by this Start call", "expected seq(freshCo, K0) as the first event of the first advance; got "+strings.Join(traceOf(e2), " ; "), traceOf(e2)...) {
		return nil, nil, nil, false
	}
	// final continuation records the result for every signal
	roles := s.ruleRole()
	allOK := true
	for _, name := range roles.names {
		o3 := in.Apply(o2[0].St, K, []AV{roles.byName[name], Sym{Name: "resv"}})
		if len(o3) != 1 || o3[0].Panicked {
			allOK = false
			continue
		}
		// observed through Result(), not through the field it happens to be stored in
		o4 := in.Run(o3[0].St.clone(), methods["Result"], []AV{d.V}, nil)
		if len(o4) != 1 || o4[0].Panicked || len(o4[0].Ret) != 1 || !isSymNamed(o4[0].Ret[0], "resv") {
			allOK = false
		}
		for _, e := range observable(o3[0].St.Events[len(o2[0].St.Events):]) {
			if e.Kind == "call" {
				allOK = false
			}
		}
	}
	c.check(allOK, "SEQ.START", "final continuation", pos, "records its value as this generator's Result(), for every signal, and calls nothing", "the terminal continuation must record v in the generator's result")
	s.account(in)
	return it, st0, in, true
}

// methodsOf: the methods of the named type behind a pointer-typed dynamic value, by name.
func (s *seqRT) methodsOf(t types.Type) map[string]*ssa.Function {
	out := map[string]*ssa.Function{}
	pt, _ := t.(*types.Pointer)
	if pt == nil {
		return out
	}
	nt, _ := pt.Elem().(*types.Named)
	if nt == nil {
		return out
	}
	nt = nt.Origin()
	for i := 0; i < nt.NumMethods(); i++ {
		m := nt.Method(i)
		out[m.Name()] = s.w.Prog.FuncValue(m)
	}
	return out
}

// ------------------------------------------------------------------ SEQ.FOR

type forCase struct {
	ctor             string
	condNil, postNil bool
}

// ruleFor checks For/While/Loop against the reference loop semantics by
// comparing abstract traces for every combination of choices.
func (s *seqRT) ruleFor() { s.ruleForOnly(nil) }

// ruleForOnly restricts the loop cases (e.g. to the post-less shapes that the
// lowering of delegation and range loops produces).
func (s *seqRT) ruleForOnly(only func(fc forCase) bool) {
	c := s.c
	roles := s.ruleRole()
	c.min("SEQ.FOR", 2)
	cases := []forCase{
		{"For", false, false}, {"For", true, false}, {"For", false, true}, {"For", true, true},
		{"While", false, true}, {"While", true, true},
		{"Loop", true, true},
	}
	for _, fc := range cases {
		if only != nil && !only(fc) {
			continue
		}
		s.forCase(fc, roles)
	}
}

// exploration bounds of the loop tables (raised in the thorough tier)
var (
	maxBodyCalls = 3
	maxResumes   = 2
)

// forCase: the loop tables, and — if the loop keeps bookkeeping of its own in the coroutine state, which all
// terms of one run share — the same tables once more with a body that changes that bookkeeping before it
// suspends or completes: the body of a loop may contain a loop of the same kind (nested loops), which writes the
// same fields. (The frame condition "an opaque Seq argument only replaces c.step" would otherwise be unsound for
// exactly the fields the combinators themselves write.)
// The nested loop leaves in such a field one of the values the loop code stores there (or leaves it alone): this
// is enumerable when those values are constants (flags); a field holding computed values (a counter, a stamp) is
// not modelled here — arbitrary values would be unsound the other way (a stamp only ever grows).
func (s *seqRT) forCase(fc forCase, roles *sigRoles) {
	if w := s.forCaseW(fc, roles, nil); len(w) > 0 {
		s.forCaseW(fc, roles, w)
	}
}

func (s *seqRT) forCaseW(fc forCase, roles *sigRoles, havoc map[string][]AV) (written map[string][]AV) {
	c := s.c
	fn := s.w.Func(pathSeq, fc.ctor)
	pos := s.w.FnPos(fn)
	construct := fmt.Sprintf("%s[cond=%s,post=%s]", fc.ctor, nilStr(fc.condNil), nilStr(fc.postNil))
	// the assignments a nested loop can leave behind: per field one of its stored constants, or untouched
	type leave struct {
		label string
		do    func(st *State)
	}
	leaves := []leave{{"", nil}}
	if len(havoc) > 0 {
		var keys []string
		for k := range havoc {
			keys = append(keys, k)
		}
		sort.Strings(keys)
		construct += " (body containing a loop: it changes " + strings.Join(keys, ", ") + ")"
		for _, key := range keys {
			var next []leave
			for _, l := range leaves {
				next = append(next, l) // untouched
				for _, v := range havoc[key] {
					key, v, prev := key, v, l.do
					next = append(next, leave{l.label + " " + key + "=" + v.String(), func(st *State) {
						if prev != nil {
							prev(st)
						}
						st.symMem[key] = v
					}})
				}
			}
			leaves = next
		}
	}
	var cond, post AV = Sym{Name: "cond", NN: true}, Sym{Name: "post", NN: true}
	if fc.condNil {
		cond = Nil{}
	}
	if fc.postNil {
		post = Nil{}
	}
	body := Sym{Name: "body", NN: true}
	var args []AV
	switch fc.ctor {
	case "For":
		args = []AV{cond, post, body}
	case "While":
		args = []AV{cond, body}
	case "Loop":
		args = []AV{body}
	}
	// the nested-loop rerun multiplies every body answer by what the inner loop may leave behind: two body calls
	// and one resumption are enough to expose a stale flag, and keep the table small
	maxBodyCalls, maxResumes := maxBodyCalls, maxResumes
	if len(havoc) > 0 {
		maxBodyCalls, maxResumes = 2, 1
	}
	in := s.interp()
	in.MaxRecur = maxBodyCalls + 2
	in.MaxVisits = maxBodyCalls + 2
	in.MaxDepth = 40
	var lastK AV
	_ = lastK
	in.OnCall = func(cc *CallCtx) []Answer {
		sym, ok := cc.Callee.(Sym)
		if !ok {
			return nil
		}
		switch sym.Name {
		case "cond":
			return []Answer{{Ret: []AV{mkBool(true)}, Label: "true"}, {Ret: []AV{mkBool(false)}, Label: "false"}}
		case "body":
			n := 0
			for _, e := range cc.St.Events {
				if e.Kind == "call" && isSymNamed(e.Callee, "body") {
					n++
				}
			}
			var ans []Answer
			for _, l := range leaves {
				ans = append(ans, Answer{Label: "suspend" + l.label, Do: l.do})
				if n < maxBodyCalls && len(cc.Args) == 2 {
					for _, name := range roles.names {
						ans = append(ans, Answer{Label: "sync:" + name + l.label, Do: l.do, Invoke: []Invocation{{Fn: cc.Args[1], Args: []AV{roles.byName[name], Sym{Name: "v"}}}}})
					}
				}
			}
			return ans
		}
		return nil
	}
	seq, st, ok := s.construct(in, "SEQ.FOR", fc.ctor, args)
	if !ok {
		return nil
	}
	type item struct {
		st      *State
		resumes int
	}
	var finals []*State
	work := []item{}
	for _, o := range in.Apply(st, seq, []AV{symC(), symK()}) {
		if o.Panicked {
			o.St.Events = append(o.St.Events, Event{Kind: "panicked"})
		}
		work = append(work, item{o.St, 0})
	}
	for len(work) > 0 {
		it := work[len(work)-1]
		work = work[:len(work)-1]
		finals = append(finals, it.st)
		if it.resumes >= maxResumes || it.st.Truncated {
			continue
		}
		// resume the last suspended body, if the loop is still live
		K := lastSuspendedK(it.st.Events)
		if K == nil {
			continue
		}
		for _, name := range roles.names {
			s2 := it.st.clone()
			s2.Events = append(s2.Events, Event{Kind: "resume", Note: name})
			for _, o := range in.Apply(s2, K, []AV{roles.byName[name], Sym{Name: "v"}}) {
				if o.Panicked {
					o.St.Events = append(o.St.Events, Event{Kind: "panicked"})
				}
				work = append(work, item{o.St, it.resumes + 1})
			}
		}
	}
	firstRunsConform := true
	for _, f := range finals {
		if _, _, okc := conformFor(observable(f.Events[len(st.Events):]), fc, roles); !okc {
			firstRunsConform = false
		}
	}
	// re-run: the Seq value returned by the constructor may be run again (nested
	// loops, Start called twice on one term); each run must start from scratch.
	reruns := 0
	for _, f := range append([]*State(nil), finals...) {
		if reruns >= 12 || f.Truncated || !firstRunsConform {
			continue
		}
		evs := observable(f.Events[len(st.Events):])
		if len(evs) == 0 || len(evs) > 8 {
			continue
		}
		reruns++
		s2 := f.clone()
		mark := len(s2.Events)
		s2.Events = append(s2.Events, Event{Kind: "rerun"})
		for _, o := range in.Apply(s2, seq, []AV{symC(), symK()}) {
			if o.Panicked {
				o.St.Events = append(o.St.Events, Event{Kind: "panicked"})
			}
			second := observable(o.St.Events[mark+1:])
			got, want, okc := conformFor(second, fc, roles)
			if !okc {
				c.bad("SEQ.FOR", construct+" second run of the same Seq value", pos,
					"a second run of the Seq returned by the constructor does not start from scratch (state shared between runs)",
					append(append([]string{"first run: " + strings.Join(traceOf(evs), " ; "), "second run got:"}, got...), append([]string{"want:"}, want...)...)...)
			}
		}
	}
	if reruns > 0 {
		c.ok("SEQ.FOR", construct+" second run of the same Seq value", pos, fmt.Sprintf("%d completed first runs followed by a second run of the same Seq value: each conforms to the reference from its initial state", reruns))
	}
	s.account(in)
	bad := 0
	total := 0
	for _, f := range finals {
		total++
		evs := observable(f.Events[len(st.Events):])
		got, want, okc := conformFor(evs, fc, roles)
		if !okc {
			bad++
			if bad <= 3 {
				c.bad("SEQ.FOR", construct+fmt.Sprintf(" trace#%d", bad), pos,
					"implementation trace differs from the reference loop semantics (post after Normal/Continue but not before the first iteration; cond before every body; Break -> k(Normal); Return -> k(Return,v); nothing runs after the loop ended)",
					append(append([]string{"got:"}, got...), append([]string{"want:"}, want...)...)...)
			}
		}
	}
	if bad == 0 {
		c.ok("SEQ.FOR", construct, pos, fmt.Sprintf("%d abstract traces (cond answers x body behaviours {suspend, sync Normal/Break/Continue/Return} x resumptions, <=%d body calls, <=%d resumptions) all equal the reference semantics", total, maxBodyCalls, maxResumes))
	}
	if total < 5 {
		c.und("SEQ.FOR", construct+" coverage", pos, fmt.Sprintf("only %d traces explored", total))
	}
	// the bookkeeping the loop itself keeps in the shared coroutine state
	written = map[string][]AV{}
	computed := map[string]bool{}
	for _, f := range finals {
		for _, e := range f.Events[len(st.Events):] {
			if e.Kind != "store" || !strings.HasPrefix(e.Target, "c.") || e.Target == "c.step" || len(e.Args) != 1 {
				continue
			}
			switch e.Args[0].(type) {
			case Const, Zero:
				dup := false
				for _, v := range written[e.Target] {
					dup = dup || sameAV(v, e.Args[0])
				}
				if !dup {
					written[e.Target] = append(written[e.Target], e.Args[0])
				}
			default:
				computed[e.Target] = true
			}
		}
	}
	for k := range computed {
		delete(written, k)
		if len(havoc) == 0 {
			c.ok("SEQ.FOR", construct+" bookkeeping "+k, pos, "the loop keeps computed values (a counter, a stamp) in the shared coroutine state: the run with a body that contains a loop of its own is not modelled for this field (done for fields holding constants only)")
		}
	}
	return written
}

func nilStr(b bool) string {
	if b {
		return "nil"
	}
	return "set"
}

// lastSuspendedK: the continuation handed to the last body call if that call
// suspended and nothing (no resume) happened afterwards that consumed it.
func lastSuspendedK(evs []Event) AV {
	for i := len(evs) - 1; i >= 0; i-- {
		e := evs[i]
		if e.Kind == "call" && isSymNamed(e.Callee, "body") {
			if e.Note == "suspend" && len(e.Args) == 2 {
				return e.Args[1]
			}
			return nil
		}
		if e.Kind == "resume" {
			// resumed K and no new body call followed: loop ended or cut
			return nil
		}
	}
	return nil
}

// conformFor replays the choices recorded in the trace through the reference
// semantics and compares the event sequences.
func conformFor(evs []Event, fc forCase, roles *sigRoles) (got, want []string, ok bool) {
	// normalise the implementation trace
	for _, e := range evs {
		switch {
		case e.Kind == "call" && isSymNamed(e.Callee, "cond"):
			got = append(got, "cond()="+e.Note)
		case e.Kind == "call" && isSymNamed(e.Callee, "post"):
			got = append(got, "post()")
		case e.Kind == "call" && isSymNamed(e.Callee, "body"):
			a := "?"
			if len(e.Args) == 2 && isSymNamed(e.Args[0], "c") {
				if _, isClo := e.Args[1].(Closure); isClo {
					a = "c,K"
				}
			}
			got = append(got, "body("+a+")["+e.Note+"]")
		case e.Kind == "call" && isSymNamed(e.Callee, "k"):
			var xs []string
			for i, a := range e.Args {
				if i == 0 {
					xs = append(xs, roles.nameOf(a))
				} else {
					xs = append(xs, a.String())
				}
			}
			got = append(got, "k("+strings.Join(xs, ",")+")")
		case e.Kind == "resume":
			got = append(got, "resume["+e.Note+"]")
		case e.Kind == "cut":
			got = append(got, "cut")
		default:
			got = append(got, e.String())
		}
	}
	// reference
	first := true
	done := false
	idx := 0
	peek := func() string {
		if idx < len(got) {
			return got[idx]
		}
		return ""
	}
	emit := func(s string) { want = append(want, s); idx++ }
	var iterate func()
	var onSignal func(sig string)
	zeroV := "zero"
	iterate = func() {
		if done {
			return
		}
		if !first && !fc.postNil {
			emit("post()")
		}
		first = false
		if !fc.condNil {
			p := peek()
			if p == "cond()=false" {
				emit("cond()=false")
				emit("k(Normal," + zeroV + ")")
				done = true
				return
			}
			emit("cond()=true")
		}
		p := peek()
		if strings.HasPrefix(p, "body(") {
			beh := p[strings.Index(p, "[")+1 : len(p)-1]
			emit("body(c,K)[" + beh + "]")
			if strings.HasPrefix(beh, "sync:") {
				onSignal(strings.TrimPrefix(beh, "sync:"))
			}
			return
		}
		emit("body(c,K)[?]")
	}
	onSignal = func(sig string) {
		switch sig {
		case "Normal", "Continue":
			iterate()
		case "Break":
			emit("k(Normal," + zeroV + ")")
			done = true
		case "Return":
			emit("k(Return,⟨v⟩)")
			done = true
		}
	}
	iterate()
	for idx < len(got) {
		p := peek()
		if strings.HasPrefix(p, "resume[") {
			emit(p)
			onSignal(p[len("resume[") : len(p)-1])
			continue
		}
		if p == "cut" {
			// exploration bound reached: the prefix so far conformed
			want = append(want, got[idx:]...)
			idx = len(got)
			break
		}
		break
	}
	// normalise zero printing in got
	for i, g := range got {
		if strings.HasPrefix(g, "k(Normal,zero") {
			got[i] = "k(Normal," + zeroV + ")"
		}
	}
	if len(got) != len(want) {
		return got, want, false
	}
	for i := range got {
		if got[i] != want[i] {
			return got, want, false
		}
	}
	return got, want, true
}

// ------------------------------------------------------------------ SEQ.LAZY for the remaining constructors

func (s *seqRT) ruleLazyIters() {
	c := s.c
	p := s.w.Pkgs[pathSeq]
	scope := p.Types.Scope()
	for _, name := range scope.Names() {
		obj, ok := scope.Lookup(name).(*types.Func)
		if !ok || !obj.Exported() || !strings.HasPrefix(name, "New") {
			continue
		}
		in := s.interp()
		sig := obj.Type().(*types.Signature)
		var args []AV
		for i := 0; i < sig.Params().Len(); i++ {
			args = append(args, Sym{Name: sig.Params().At(i).Name()})
		}
		fn := s.w.Func(pathSeq, name)
		outs := in.Run(nil, fn, args, nil)
		s.account(in)
		c.fn("seq." + name)
		good := true
		for _, o := range outs {
			for _, e := range o.St.Events {
				if e.Kind == "recv" || e.Kind == "send" || e.Kind == "go" || (e.Kind == "call" && e.Fn == nil) {
					good = false
					c.bad("SEQ.LAZY", "seq."+name, s.w.Pos(e.Pos), "iterator constructor consumes its operand eagerly ("+e.String()+")")
				}
			}
		}
		if good {
			c.ok("SEQ.LAZY", "seq."+name, s.w.FnPos(fn), "constructor does not receive from / call into its operand")
		}
	}
}
