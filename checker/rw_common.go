package main

// Common K1 configuration for package rewriter: which callees are inlined,
// which are boundaries (recursive rewrite functions), which are oracles
// (yield-freeness, termination, nil tests), and the dynamic-type domain of
// go/ast statements.

import (
	"sort"
	"fmt"
	"go/constant"
	"go/token"
	"go/types"
	"os"
	"strconv"
	"strings"

	"golang.org/x/tools/go/ssa"
)

type rwRT struct {
	importKeysDone              bool
	importKeysCo, importKeysSeq []string

	// switchBreakDepthBlind: set by switchBreaksRewritten when the break replacement asks nothing about nesting
	switchBreakDepthBlind bool

	c   *Ctx
	w   *World
	pkg *ssa.Package
	ast *types.Package
	tok *types.Package
	// markMethod: name of block's "combine check done" method, discovered by behaviour
	markMethod string
	// yaFields: state-independent field values of the yieldAst its constructor builds for the import name ʂɘʠ
	// (function-valued fields such as a qualifier factory), computed once
	yaFields map[string]map[string]AV
}

func newRwRT(c *Ctx) *rwRT {
	r := &rwRT{c: c, w: c.W, pkg: c.W.SSA[pathRw]}
	r.ast = c.W.importedPkg(pathRw, "go/ast")
	r.tok = c.W.importedPkg(pathRw, "go/token")
	if r.ast == nil || r.tok == nil {
		undecided("package rewriter does not import go/ast and go/token")
	}
	return r
}

// astPtr returns the type *ast.<name>.
func (r *rwRT) astPtr(name string) types.Type {
	obj := r.ast.Scope().Lookup(name)
	if obj == nil {
		undecided("go/ast has no type %s", name)
	}
	return types.NewPointer(obj.Type())
}

// stmtKinds: all concrete statement node types of go/ast (implementers of ast.Stmt).
func (r *rwRT) stmtKinds() []string {
	stmt := r.ast.Scope().Lookup("Stmt").Type().Underlying().(*types.Interface)
	var out []string
	for _, n := range r.ast.Scope().Names() {
		tn, ok := r.ast.Scope().Lookup(n).(*types.TypeName)
		if !ok {
			continue
		}
		if _, isStruct := tn.Type().Underlying().(*types.Struct); !isStruct {
			continue
		}
		if types.Implements(types.NewPointer(tn.Type()), stmt) {
			out = append(out, n)
		}
	}
	sort.Strings(out)
	return out
}

func (r *rwRT) tokConst(name string) AV {
	c, ok := r.tok.Scope().Lookup(name).(*types.Const)
	if !ok {
		undecided("go/token has no constant %s", name)
	}
	return Const{c.Val()}
}

// node builds a symbolic AST node of a concrete type: an interface value with
// dynamic type *ast.<kind> holding the non-nil hole ⟨name⟩.
func (r *rwRT) node(kind, name string) AV {
	return Dyn{T: r.astPtr(kind), V: Sym{Name: name, NN: true, T: r.astPtr(kind)}}
}

func (r *rwRT) method(typ, name string) *ssa.Function { return r.w.Method(pathRw, typ, name) }

func inRw(fn *ssa.Function) bool {
	fn = bodyOf(fn)
	if fn == nil {
		return false
	}
	if fn.Pkg != nil {
		return fn.Pkg.Pkg.Path() == pathRw
	}
	if p := fn.Parent(); p != nil {
		return inRw(p)
	}
	if o := fn.Object(); o != nil && o.Pkg() != nil {
		return o.Pkg().Path() == pathRw
	}
	return false
}

// isNilSemantics implements the trusted helper rewriter.isNil(x): true for a nil
// interface and for an interface holding a nil pointer.
func isNilAnswers(arg AV) []Answer {
	var inner AV = arg
	if d, ok := arg.(Dyn); ok {
		inner = d.V
	}
	if n, known := nilness(inner); known {
		return []Answer{{Ret: []AV{mkBool(n)}, NoEvent: true}}
	}
	return nil
}

// boundary functions of the statement rewriter: analysed one at a time.
var rwBoundaries = []string{
	"rewriteStmts", "rewriteStmt", "rewriteBlockStmt", "rewriteIfStmt", "rewriteSwitchStmt", "rewriteForStmt",
	"rewriteYieldCall", "combineIfNecessary", "generateLastNormalIfNecessary",
	"rewriteRanges", "rewriteBreakContinues", "rewriteReturnAndForSwitchInitStmtInYieldFun",
	"rewriteYieldFunc", "rewriteYieldFuncBody", "rewriteYieldFuncResult", "rewriteRangeToForIter", "rewriteForRange", "rewriteYieldFrom", "rangeIter",
	"collectYieldFunc", "rewriteFile", "rewriteAllFiles",
}

// oracles: pure predicates whose answer is enumerated.
var rwOracles = []string{"mustNoYield", "containsYield", "isTerminating", "isYieldCall", "isYieldFromCall", "isCallStmtOf", "isIterator", "isYieldFuncDecl", "isYieldFuncLit"}

type rwConfig struct {
	noOracles  bool
	astWalk    bool // follow go/ast.Inspect / Walk
	root       *ssa.Function
	boundaries map[string]bool
	// symbolic *block receivers: methods answered as oracles
	blockOracles bool
	extra        func(cc *CallCtx) []Answer
	inlineAll    bool
}

// argLabel: short, stable rendering of an argument for oracle labels.
func argLabel(a AV) string {
	switch x := a.(type) {
	case Dyn:
		return argLabel(x.V)
	case Sym:
		return epochRe.ReplaceAllString(x.Name, "")
	case Nil:
		return "nil"
	case nil:
		return "?"
	}
	return epochRe.ReplaceAllString(a.String(), "")
}

func (r *rwRT) interp(cfg rwConfig) *Interp {
	in := &Interp{W: r.w, MaxDepth: 12, MaxVisits: 3, MaxRecur: 2}
	// the rewriter's own configuration fields are not modified by the functions analysed
	in.HavocKeep = func(key string) bool { return strings.HasPrefix(key, "r.") }
	in.Fields = map[string]AV{"r.yieldAst.seqImportedName": mkString("ʂɘʠ"), "r.yieldAst.callNormal": Sym{Name: "callNormal", NN: true}}
	// function-valued fields of the yieldAst (a qualifier factory instead of the import name, ...) are taken from
	// its constructor, run for the import name the rule has configured
	in.LazyFields = func(key string) (AV, bool) {
		// <object>.<field>, where the rule has configured <object>.seqImportedName: <object> is a yieldAst
		i := strings.LastIndex(key, ".")
		if i < 0 {
			return nil, false
		}
		name, _ := asString(in.Fields[key[:i]+".seqImportedName"])
		if name == "" {
			return nil, false
		}
		v, ok := r.yieldAstFields(name)["r.yieldAst."+key[i+1:]]
		return v, ok
	}
	bound := map[string]bool{}
	for _, b := range rwBoundaries {
		bound[b] = true
	}
	for b, v := range cfg.boundaries {
		bound[b] = v
	}
	in.Inline = func(fn *ssa.Function) bool {
		if !inRw(fn) {
			// the syntax-tree traversal of go/ast (Inspect / Walk) is followed when the rule asks for it: on the
			// concrete abstract trees of the termination shapes its real code visits exactly the nodes it would
			return cfg.astWalk && isAstWalkFn(fn)
		}
		if cfg.inlineAll {
			return true
		}
		if bound[fn.Name()] {
			return false
		}
		// a hand-written recursive walk over statements (ast in, ast out, no output block): on a symbolic statement
		// list it would be unfolded without end; it is an opaque traversal here and is judged, where a rule needs
		// it, on concrete trees
		if _, explicit := cfg.boundaries[fn.Name()]; !explicit && !cfg.astWalk && isRecursiveAstWalk(fn) {
			return false
		}
		return true
	}
	// every *block is built by mkBlock, which always gives it an AST block
	in.NNField = func(t types.Type, field string) bool {
		return field == "block" && strings.HasSuffix(t.String(), "rewriter.block")
	}
	in.OpaqueArgs = func(fn *ssa.Function) bool { return inRw(fn) && bound[fn.Name()] }
	// only the rewriter's own bookkeeping objects (blocks) are mutated by the recursion;
	// go/ast nodes handed to it keep their structure
	in.OpaqueType = func(t types.Type) bool {
		nt, ok := t.(*types.Named)
		return ok && nt.Obj().Pkg() != nil && nt.Obj().Pkg().Path() == pathRw
	}
	// the import declarations of the file under rewriting, for code that scans them itself instead of asking the
	// imports library: by default the API imported without a name of its own and no import of seq
	r.setFileImports(in, "")
	in.OnCall = func(cc *CallCtx) []Answer {
		if cfg.extra != nil {
			if a := cfg.extra(cc); a != nil {
				return a
			}
		}
		fn := cc.Fn
		if fn == nil {
			return nil
		}
		// the type check of a yield's operand is followed on the path on which the operand fits (what it hands back
		// — nothing, the operand, the call — is then whatever the code computes); the other path is RW.YIELDTYPE's
		if fnPkgPath(fn) == "go/types" && (fn.Name() == "AssignableTo" || fn.Name() == "ConvertibleTo") && strings.Contains(cc.St.stackString(), "checkYieldCall") && cfg.root != nil && cfg.root.Name() != "checkYieldCall" {
			return []Answer{{Ret: []AV{mkBool(true)}, NoEvent: true}}
		}
		// the path of a symbolic import spec (imports.SpecPath and the like), the spelling of its name
		if len(cc.Args) == 1 {
			if sy, ok := unwrap(cc.Args[0]).(Sym); ok && strings.HasPrefix(sy.Name, "importspec:") && fn.Signature.Results().Len() == 1 {
				if b, isB := fn.Signature.Results().At(0).Type().Underlying().(*types.Basic); isB && b.Kind() == types.String && strings.Contains(strings.ToLower(fn.Name()), "path") {
					if v, ok := in.Fields[sy.Name+".path"]; ok {
						return []Answer{{Ret: []AV{v}, NoEvent: true}}
					}
				}
			}
			if fn.Name() == "String" && fn.Signature.Recv() != nil && strings.HasSuffix(fn.Signature.Recv().Type().String(), "ast.Ident") {
				switch x := unwrap(cc.Args[0]).(type) {
				case Nil:
					return []Answer{{Ret: []AV{mkString("<nil>")}, NoEvent: true}}
				case Sym:
					if v, ok := in.Fields[x.Name+".Name"]; ok {
						return []Answer{{Ret: []AV{v}, NoEvent: true}}
					}
				}
			}
		}
		if inRw(fn) {
			switch fn.Name() {
			case "isNil":
				if len(cc.Args) == 1 {
					if a := isNilAnswers(cc.Args[0]); a != nil {
						return a
					}
					lbl := "isNil(" + argLabel(cc.Args[0]) + ")"
					return []Answer{{Ret: []AV{mkBool(true)}, Label: lbl + "=true"}, {Ret: []AV{mkBool(false)}, Label: lbl + "=false"}}
				}
			case "mustNoYield":
				if fn.Signature.Recv() != nil && strings.Contains(fn.Signature.Recv().Type().String(), "yieldRewriter") && len(cc.Args) == 2 {
					// yield-freeness of a statement; nil statements are yield-free by definition
					var inner AV = cc.Args[1]
					if d, ok := inner.(Dyn); ok {
						inner = d.V
					}
					if n, known := nilness(inner); known && n {
						return []Answer{{Ret: []AV{mkBool(true)}, NoEvent: true}}
					}
					lbl := "mustNoYield(" + argLabel(cc.Args[1]) + ")"
					return []Answer{{Ret: []AV{mkBool(true)}, Label: lbl + "=true"}, {Ret: []AV{mkBool(false)}, Label: lbl + "=false"}}
				}
			}
			isBlockMethod := fn.Signature.Recv() != nil && strings.HasSuffix(fn.Signature.Recv().Type().String(), "rewriter.block")
			for _, o := range rwOracles {
				if cfg.noOracles {
					break // the predicates themselves are under analysis: they are followed, not answered
				}
				if fn.Name() == o && fn != cfg.root && !isBlockMethod {
					var as []string
					start := 0
					if fn.Signature.Recv() != nil {
						start = 1
					}
					for _, a := range cc.Args[start:] {
						as = append(as, argLabel(a))
					}
					lbl := o + "(" + strings.Join(as, ",") + ")"
					nres := fn.Signature.Results().Len()
					mk := func(b bool) []AV {
						if nres == 2 {
							// (call, ok) shape of isYieldCall
							return []AV{Sym{Name: "call:" + strings.Join(as, ","), NN: true}, mkBool(b)}
						}
						return []AV{mkBool(b)}
					}
					return []Answer{{Ret: mk(true), Label: lbl + "=true"}, {Ret: mk(false), Label: lbl + "=false"}}
				}
			}
			// methods of *block on a symbolic receiver
			if cfg.blockOracles && fn.Signature.Recv() != nil && strings.HasSuffix(fn.Signature.Recv().Type().String(), "rewriter.block") && len(cc.Args) >= 1 {
				_, isSym := cc.Args[0].(Sym)
				recvName := argLabel(cc.Args[0])
				if o := cc.St.Obj(cc.Args[0]); o != nil && o.Opaque != "" {
					isSym = true
					recvName = o.Opaque
				}
				if isSym {
					res := fn.Signature.Results()
					if res.Len() == 1 {
						if b, ok := res.At(0).Type().Underlying().(*types.Basic); ok && b.Info()&types.IsBoolean != 0 {
							lbl := fn.Name() + "(" + recvName + ")"
							return []Answer{{Ret: []AV{mkBool(true)}, Label: lbl + "=true"}, {Ret: []AV{mkBool(false)}, Label: lbl + "=false"}}
						}
					}
					// push, pushReturn, markCombined, pop, last...: opaque event on the symbolic block
					var rs []AV
					for i := 0; i < res.Len(); i++ {
						rs = append(rs, Sym{Name: fmt.Sprintf("%s(%s)#%d", fn.Name(), recvName, i), T: res.At(i).Type()})
					}
					return []Answer{{Ret: rs}}
				}
			}
		}
		return nil
	}
	return in
}

func (r *rwRT) account(in *Interp) {
	r.c.Paths += in.Paths
	r.c.States += in.Steps
}

// describe a path compactly (for diagnostics)
func pathSummary(o Outcome) string {
	var xs []string
	for _, e := range o.St.Events {
		if e.Kind == "load" {
			continue
		}
		xs = append(xs, shortEvent(e))
	}
	end := "return"
	if o.Panicked {
		end = "PANIC"
	}
	lbl := ""
	if len(o.St.Labels) > 0 {
		var ls []string
		for _, l := range o.St.Labels {
			if !strings.Contains(l, "typeassert") {
				ls = append(ls, l)
			}
		}
		lbl = " [" + strings.Join(ls, ", ") + "]"
	}
	return strings.Join(append(xs, end), " ; ") + lbl
}

func shortEvent(e Event) string {
	name := e.Name()
	if i := strings.LastIndex(name, "."); i >= 0 && e.Kind == "call" && e.Fn != nil {
		name = name[i+1:]
	}
	var as []string
	for _, a := range e.Args {
		s := argLabel(a)
		if len(s) > 48 {
			s = s[:48] + "…"
		}
		as = append(as, s)
	}
	switch e.Kind {
	case "call", "invoke", "store", "go", "defer":
		return e.Kind + " " + name + "(" + strings.Join(as, ",") + ")"
	}
	return e.Kind + " " + name
}

var _ = fmt.Sprint
var _ = token.NoPos

// buildBlock constructs an output block through the package's own API — mkBlock(kind), then
// markCombined + push(stmt, kind) per statement — so that the rules do not depend on how the
// block type represents its state (field names, flags as bools or bits).
func (r *rwRT) buildBlock(st *State, blockKind AV, stmts []AV, kinds []AV) (AV, *State, error) {
	mk := r.w.FuncOpt(pathRw, "mkBlock")
	if mk == nil {
		return nil, nil, fmt.Errorf("constructor mkBlock not found")
	}
	in := r.interp(rwConfig{root: mk, inlineAll: true})
	outs := in.Run(st, mk, []AV{blockKind}, nil)
	r.account(in)
	if len(outs) != 1 || outs[0].Panicked || len(outs[0].Ret) != 1 {
		return nil, nil, fmt.Errorf("mkBlock is not a single straight-line construction")
	}
	b, cur := outs[0].Ret[0], outs[0].St
	call := func(method string, args ...AV) error {
		fn := r.method("block", method)
		if fn == nil {
			return fmt.Errorf("method block.%s not found", method)
		}
		in := r.interp(rwConfig{root: fn, inlineAll: true})
		in.MaxVisits = 8
		o := in.Run(cur, fn, append([]AV{b}, args...), nil)
		r.account(in)
		if len(o) != 1 || o[0].Panicked {
			return fmt.Errorf("block.%s is not a single normal path while building a block", method)
		}
		cur = o[0].St
		return nil
	}
	mark := r.blockMarkMethod()
	if mark == "" {
		return nil, nil, fmt.Errorf("no method of block re-arms push (the combine-check marker was not found)")
	}
	for i := range stmts {
		if err := call(mark); err != nil {
			return nil, nil, err
		}
		if err := call("push", stmts[i], kinds[i]); err != nil {
			return nil, nil, err
		}
	}
	cur.Events = nil
	return b, cur, nil
}

// astBlockOf: the go/ast block an output block carries (found by its type, not by a field name).
func (r *rwRT) astBlockOf(st *State, b AV) (AV, *Obj) {
	o := st.Obj(b)
	if o == nil {
		return nil, nil
	}
	want := r.astPtr("BlockStmt").(*types.Pointer).Elem()
	for _, f := range o.Fields {
		if fo := st.Obj(unwrap(f)); fo != nil && fo.T != nil && types.Identical(fo.T, want) {
			return unwrap(f), fo
		}
	}
	return nil, nil
}

// blockHasConst: some field of the block object holds exactly this constant (e.g. its kind).
func blockHasConst(st *State, b AV, c AV) bool {
	o := st.Obj(b)
	if o == nil {
		return false
	}
	for _, f := range o.Fields {
		if sameAV(f, c) {
			return true
		}
	}
	return false
}

// blockMarkMethod discovers, by behaviour, the method of *block that records "the combine check has
// run": the niladic method without results after which a second push does not trip push's assertion
// (a push right after a push does). Its name is not assumed.
func (r *rwRT) blockMarkMethod() string {
	if r.markMethod != "" {
		return r.markMethod
	}
	mk := r.w.FuncOpt(pathRw, "mkBlock")
	push := r.w.MethodOpt(pathRw, "block", "push")
	if mk == nil || push == nil {
		return ""
	}
	kd := r.kindConst("kindDelay")
	kt := r.kindConst("kindTrival")
	s0 := Dyn{T: r.astPtr("ExprStmt"), V: Sym{Name: "s0", NN: true}}
	run := func(st *State, fn *ssa.Function, args []AV) (*State, []AV, bool) {
		in := r.interp(rwConfig{root: fn, inlineAll: true})
		in.MaxVisits = 8
		o := in.Run(st, fn, args, nil)
		r.account(in)
		if len(o) != 1 || o[0].Panicked {
			return nil, nil, false
		}
		return o[0].St, o[0].Ret, true
	}
	st, ret, ok := run(newState(), mk, []AV{kd})
	if !ok || len(ret) != 1 {
		return ""
	}
	b := ret[0]
	st, _, ok = run(st, push, []AV{b, s0, kt})
	if !ok {
		return ""
	}
	// a second push right away must fail (otherwise there is no such protocol to discover)
	if _, _, ok2 := run(st.clone(), push, []AV{b, s0, kt}); ok2 {
		return ""
	}
	nt := push.Signature.Recv().Type()
	ms := r.w.Prog.MethodSets.MethodSet(nt)
	for i := 0; i < ms.Len(); i++ {
		m := r.w.Prog.MethodValue(ms.At(i))
		if m == nil || m.Signature.Params().Len() != 0 || m.Signature.Results().Len() != 0 {
			continue
		}
		st2, _, ok := run(st.clone(), m, []AV{b})
		if !ok {
			continue
		}
		if _, _, ok := run(st2, push, []AV{b, s0, kt}); ok {
			r.markMethod = m.Name()
			return r.markMethod
		}
	}
	return ""
}

// setFileImports describes the import declarations of the file f: the API package imported without a name of its
// own, and seq absent (""), imported under the alias sq ("imported") or without a name of its own ("default").
func (r *rwRT) setFileImports(in *Interp, seqScenario string) {
	coPath, seqPath := r.w.Pkgs[pathRw].Types.Scope().Lookup("pkgCoPath"), r.w.Pkgs[pathRw].Types.Scope().Lookup("pkgSeqPath")
	cp, sp := "github.com/goghcrow/go-co", pathSeq
	if c, ok := coPath.(*types.Const); ok {
		cp = constant.StringVal(c.Val())
	}
	if c, ok := seqPath.(*types.Const); ok {
		sp = constant.StringVal(c.Val())
	}
	co := Sym{Name: "importspec:co", NN: true, Uniq: true}
	in.Fields[co.Name+".path"] = mkString(cp)
	in.Fields[co.Name+".Path.Value"] = mkString(strconv.Quote(cp))
	in.Fields[co.Name+".Name"] = Nil{}
	specs := []AV{co}
	if seqScenario != "" {
		sq := Sym{Name: "importspec:seq", NN: true, Uniq: true}
		in.Fields[sq.Name+".path"] = mkString(sp)
		in.Fields[sq.Name+".Path.Value"] = mkString(strconv.Quote(sp))
		if seqScenario == "imported" {
			id := Sym{Name: "importspec:seq.ident", NN: true}
			in.Fields[sq.Name+".Name"] = id
			in.Fields[id.Name+".Name"] = mkString("sq")
		} else {
			in.Fields[sq.Name+".Name"] = Nil{}
		}
		specs = append(specs, sq)
	}
	in.Fields["f.File.Imports"] = SliceV{Elems: specs}
}

// yieldAstFields: the helper object every statement lowering reads its seq names from is built by mkYieldAst.
// Fields whose value does not depend on the state it was built in (constants, closures over constants) are taken
// from an abstract run of that constructor, so that a lowering that keeps, say, a qualifier function instead of
// the import name sees the same configuration.
func (r *rwRT) yieldAstFields(seqName string) map[string]AV {
	if m, done := r.yaFields[seqName]; done {
		return m
	}
	if r.yaFields == nil {
		r.yaFields = map[string]map[string]AV{}
	}
	r.yaFields[seqName] = nil
	mk := r.w.FuncOpt(pathRw, "mkYieldAst")
	if mk == nil || mk.Signature.Params().Len() != 2 {
		return nil
	}
	in := &Interp{W: r.w, MaxDepth: 12, MaxVisits: 3, MaxRecur: 2}
	in.Inline = func(fn *ssa.Function) bool { return inRw(fn) }
	outs := in.Run(newState(), mk, []AV{mkString(seqName), Sym{Name: "r.yieldAst.funRetParamTy"}}, nil)
	if len(outs) != 1 || outs[0].Panicked || len(outs[0].Ret) != 1 {
		return nil
	}
	obj := outs[0].St.Obj(outs[0].Ret[0])
	if os.Getenv("VERIF_DEBUG_YA") != "" {
		fmt.Fprintf(os.Stderr, "YA outs=%d obj=%v ret=%v\n", len(outs), obj != nil, outs[0].Ret)
		if obj != nil {
			for k, v := range obj.Fields {
				fmt.Fprintf(os.Stderr, "YA field %s = %s\n", k, v)
				if cl, ok := v.(Closure); ok {
					fmt.Fprintf(os.Stderr, "YA   bind %v\n", cl.Bind)
				}
			}
		}
	}
	if obj == nil {
		return nil
	}
	// a value is portable when it mentions no heap object of the scratch state: constants, closures over constants;
	// a captured variable holding a constant becomes the state-independent address of that constant
	var port func(v AV, depth int) (AV, bool)
	port = func(v AV, depth int) (AV, bool) {
		if depth > 3 {
			return nil, false
		}
		switch x := v.(type) {
		case Const:
			return x, true
		case Ref:
			if o := outs[0].St.Obj(x); o != nil && o.Kind == 'c' {
				if pv, ok := port(o.Val, depth+1); ok {
					if _, isConst := pv.(Const); isConst {
						return CellV{V: pv}, true
					}
				}
			}
			return nil, false
		case Closure:
			nb := make([]AV, len(x.Bind))
			for i, b := range x.Bind {
				pb, ok := port(b, depth+1)
				if !ok {
					return nil, false
				}
				nb[i] = pb
			}
			return Closure{Fn: x.Fn, Bind: nb}, true
		}
		return nil, false
	}
	out := map[string]AV{}
	for k, v := range obj.Fields {
		if _, isClo := v.(Closure); isClo {
			if pv, ok := port(v, 0); ok {
				out["r.yieldAst."+k] = pv
			}
		}
	}
	r.yaFields[seqName] = out
	return out
}

// newYieldAst: the helper object of the lowerings, built in st by its own constructor (mkYieldAst) for the given
// import name and element type; a hand-made object with the two original fields is the fallback.
func (r *rwRT) newYieldAst(st *State, seqName string, retTy AV) AV {
	if mk := r.w.FuncOpt(pathRw, "mkYieldAst"); mk != nil && mk.Signature.Params().Len() == 2 {
		in := &Interp{W: r.w, MaxDepth: 12, MaxVisits: 3, MaxRecur: 2}
		in.Inline = func(fn *ssa.Function) bool { return inRw(fn) }
		mark := len(st.Events)
		outs := in.Run(st, mk, []AV{mkString(seqName), retTy}, nil)
		if len(outs) == 1 && !outs[0].Panicked && len(outs[0].Ret) == 1 && outs[0].St == st {
			if ref, ok := outs[0].Ret[0].(Ref); ok && st.Obj(ref) != nil {
				st.Events = st.Events[:mark] // the construction is set-up, not behaviour under analysis
				return ref
			}
		}
	}
	return st.alloc(&Obj{Kind: 's', Fields: map[string]AV{"seqImportedName": mkString(seqName), "funRetParamTy": retTy}})
}

// isAstWalkFn: the traversal functions of go/ast (and their helpers).
func isAstWalkFn(fn *ssa.Function) bool {
	fn = bodyOf(fn)
	if fn == nil {
		return false
	}
	pkg := ""
	if fn.Pkg != nil {
		pkg = fn.Pkg.Pkg.Path()
	} else if o := fn.Object(); o != nil && o.Pkg() != nil {
		pkg = o.Pkg().Path()
	} else if p := fn.Parent(); p != nil {
		return isAstWalkFn(p)
	}
	if pkg != "go/ast" {
		return false
	}
	name := fn.Name()
	if name == "Inspect" || name == "Walk" || name == "Visit" || strings.HasPrefix(name, "walk") {
		return len(fn.Blocks) > 0 || (fn.Origin() != nil && len(fn.Origin().Blocks) > 0)
	}
	return false
}

// isRecursiveAstWalk: a function of package rewriter that calls itself (directly or from its own closures) and
// whose parameters and results, the receiver aside, are all go/ast values.
func isRecursiveAstWalk(fn *ssa.Function) bool {
	fn = bodyOf(fn)
	if fn == nil || !inRw(fn) || fn.Parent() != nil {
		return false
	}
	isAst := func(t types.Type) bool {
		s := t.String()
		return strings.Contains(s, "go/ast.")
	}
	sig := fn.Signature
	if sig.Params().Len() == 0 {
		return false
	}
	for i := 0; i < sig.Params().Len(); i++ {
		if !isAst(sig.Params().At(i).Type()) {
			return false
		}
	}
	for i := 0; i < sig.Results().Len(); i++ {
		if !isAst(sig.Results().At(i).Type()) {
			return false
		}
	}
	return reachesFn(fn, fn.Name(), 2)
}

// importNameKeys: where rewriteFile keeps the names the API package and package seq are imported under — found by
// evaluating rewriteFile with the import-name resolution answered by two marker strings and reading off the stores
// that carry them (a field of its own, or a field of a struct stored as a whole), not by field names.
func (r *rwRT) importNameKeys() (co, seq []string) {
	if r.importKeysDone {
		return r.importKeysCo, r.importKeysSeq
	}
	r.importKeysDone = true
	defer func() {
		if recover() != nil {
			r.importKeysCo, r.importKeysSeq = nil, nil
		}
	}()
	fn := r.w.MethodOpt(pathRw, "rewriter", "rewriteFile")
	if fn == nil {
		return nil, nil
	}
	in := r.interp(rwConfig{root: fn, boundaries: map[string]bool{"rewriteFile": false, "attachComment": true, "rewriteForRanges": true, "rewriteIter": true, "mkYieldFromRewriter": true, "mkYieldRewriter": true, "collectYieldFunc": true}})
	in.MaxDepth, in.MaxVisits = 10, 12
	in.Inline = func(f *ssa.Function) bool {
		return inRw(f) && !reachesCursorMutator(f, 3) && !reachesFn(f, "rewriteYieldFunc", 4)
	}
	in.OnCall = wrapOnCall(in.OnCall, func(cc *CallCtx) []Answer {
		if cc.Fn != nil && cc.Fn.Name() == "ImportName" && strings.Contains(fnPkgPath(cc.Fn), "go-imports") && len(cc.Args) >= 2 {
			if p, ok := asString(cc.Args[1]); ok {
				if strings.HasSuffix(p, "/seq") {
					return []Answer{{Ret: []AV{mkString("§seq")}, NoEvent: true}}
				}
				return []Answer{{Ret: []AV{mkString("§co")}, NoEvent: true}}
			}
		}
		return nil
	})
	args := []AV{Sym{Name: "r", NN: true}, Sym{Name: "f", NN: true}, Sym{Name: "printer", NN: true}}
	if n := len(fn.Params); n < len(args) {
		args = args[:n]
	}
	seen := map[string]bool{}
	note := func(key string, v AV) {
		if s, ok := asString(v); ok && !seen[key] && strings.HasPrefix(key, "r.") {
			switch s {
			case "§co":
				seen[key] = true
				r.importKeysCo = append(r.importKeysCo, key)
			case "§seq":
				seen[key] = true
				r.importKeysSeq = append(r.importKeysSeq, key)
			}
		}
	}
	for _, o := range in.Run(nil, fn, args, nil) {
		for _, e := range o.St.Events {
			if e.Kind != "store" || len(e.Args) != 1 {
				continue
			}
			key := epochRe.ReplaceAllString(e.Target, "")
			note(key, e.Args[0])
			if sv, ok := e.Args[0].(StructV); ok {
				for f, v := range sv.Fields {
					note(key+"."+f, v)
				}
			}
		}
	}
	sort.Strings(r.importKeysCo)
	sort.Strings(r.importKeysSeq)
	return r.importKeysCo, r.importKeysSeq
}

// setImportNames configures the import names on the rewriter `r` (and on an embedding / referring `r.rewriter`).
func (r *rwRT) setImportNames(in *Interp, co, seq string) {
	cks, sks := r.importNameKeys()
	set := func(keys []string, legacy, val string) {
		if val == "" {
			return
		}
		keys = append(append([]string{}, keys...), "r."+legacy)
		for _, k := range keys {
			in.Fields[k] = mkString(val)
			in.Fields["r.rewriter."+strings.TrimPrefix(k, "r.")] = mkString(val)
		}
	}
	set(cks, "coImportedName", co)
	set(sks, "seqImportedName", seq)
}
