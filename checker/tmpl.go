package main

// K3 — templates. The AST a rewrite function constructs is a tree of heap
// objects in K1's abstract state with holes (symbols) for user syntax. Pat
// describes the expected shape; match reports the first difference.

import (
	"fmt"
	"sort"
	"strings"
)

type Pat interface{}

type (
	pNode struct { // heap object of go/ast type Kind with (at least) these fields; unlisted fields must be zero/nil unless Open
		Kind   string
		Fields map[string]Pat
		Open   bool
	}
	pList   struct{ Elems []Pat } // slice with exactly these elements (a pSpread element matches a spread of a hole)
	pLeaf   struct{ Name string } // the original hole ⟨Name⟩ (possibly wrapped in an interface)
	pSpread struct{ Name string } // ...⟨Name⟩
	pStr    struct{ S string }    // string constant
	pTok    struct{ V AV }        // token constant
	pNil    struct{}              // nil / zero
	pAny    struct{}              // anything
	pBind   struct {
		Label string
		P     Pat
	} // remember the matched value under Label; later occurrences must be identical
	pSame struct{ Label string } // same value as bound under Label
	pVal  struct{ V AV }         // exactly this abstract value
	pOr   struct{ Alts []Pat }
)

type matcher struct {
	st    *State
	binds map[string]AV
}

func unwrap(v AV) AV {
	if d, ok := v.(Dyn); ok {
		return d.V
	}
	return v
}

func isNilLike(v AV) bool {
	if v == nil {
		return true
	}
	v = unwrap(v)
	switch x := v.(type) {
	case Nil:
		return true
	case Zero:
		return true
	case SliceV:
		return len(x.Elems) == 0
	case Const:
		if s, ok := asString(x); ok {
			return s == ""
		}
		if n, ok := asInt(x); ok {
			return n == 0
		}
	}
	return false
}

func (m *matcher) match(v AV, p Pat, path string) error {
	switch pt := p.(type) {
	case pAny:
		return nil
	case pNil:
		if !isNilLike(v) {
			return fmt.Errorf("%s: expected nil, got %s", path, m.st.Render(v))
		}
		return nil
	case pStr:
		if s, ok := asString(unwrap(v)); !ok || s != pt.S {
			return fmt.Errorf("%s: expected %q, got %s", path, pt.S, m.st.Render(v))
		}
		return nil
	case pTok:
		if !sameAV(unwrap(v), pt.V) {
			return fmt.Errorf("%s: expected token %s, got %s", path, pt.V, m.st.Render(v))
		}
		return nil
	case pVal:
		if !sameAV(unwrap(v), unwrap(pt.V)) {
			return fmt.Errorf("%s: expected %s, got %s", path, m.st.Render(pt.V), m.st.Render(v))
		}
		return nil
	case pLeaf:
		u := unwrap(v)
		if s, ok := u.(Sym); ok && epochRe.ReplaceAllString(s.Name, "") == pt.Name {
			return nil
		}
		return fmt.Errorf("%s: expected the original ⟨%s⟩, got %s", path, pt.Name, m.st.Render(v))
	case pBind:
		if err := m.match(v, pt.P, path); err != nil {
			return err
		}
		if old, ok := m.binds[pt.Label]; ok {
			if !sameAV(unwrap(old), unwrap(v)) {
				return fmt.Errorf("%s: %s differs from its earlier occurrence (%s vs %s)", path, pt.Label, m.st.Render(v), m.st.Render(old))
			}
		}
		m.binds[pt.Label] = v
		return nil
	case pSame:
		old, ok := m.binds[pt.Label]
		if !ok {
			return fmt.Errorf("%s: %s not bound", path, pt.Label)
		}
		if !sameAV(unwrap(old), unwrap(v)) {
			return fmt.Errorf("%s: expected the same %s as before (%s), got %s", path, pt.Label, m.st.Render(old), m.st.Render(v))
		}
		return nil
	case pOr:
		var errs []string
		for _, a := range pt.Alts {
			saved := map[string]AV{}
			for k, x := range m.binds {
				saved[k] = x
			}
			if err := m.match(v, a, path); err == nil {
				return nil
			} else {
				errs = append(errs, err.Error())
			}
			m.binds = saved
		}
		return fmt.Errorf("%s: no alternative matches (%s)", path, strings.Join(errs, " / "))
	case pList:
		sv, ok := unwrap(v).(SliceV)
		if !ok {
			if len(pt.Elems) == 0 && isNilLike(v) {
				return nil
			}
			if len(pt.Elems) == 1 {
				if sp, isSp := pt.Elems[0].(pSpread); isSp {
					// the slice is the hole itself
					return m.match(v, pLeaf{sp.Name}, path)
				}
			}
			return fmt.Errorf("%s: expected a list of %d element(s), got %s", path, len(pt.Elems), m.st.Render(v))
		}
		if len(sv.Elems) != len(pt.Elems) {
			return fmt.Errorf("%s: expected %d element(s), got %d: %s", path, len(pt.Elems), len(sv.Elems), m.st.Render(v))
		}
		for i, e := range sv.Elems {
			if sp, isSp := pt.Elems[i].(pSpread); isSp {
				s, ok := e.(Spread)
				if !ok {
					return fmt.Errorf("%s[%d]: expected ...⟨%s⟩, got %s", path, i, sp.Name, m.st.Render(e))
				}
				if err := m.match(s.V, pLeaf{sp.Name}, fmt.Sprintf("%s[%d]...", path, i)); err != nil {
					return err
				}
				continue
			}
			if err := m.match(e, pt.Elems[i], fmt.Sprintf("%s[%d]", path, i)); err != nil {
				return err
			}
		}
		return nil
	case pNode:
		o := m.st.Obj(unwrap(v))
		if o == nil || o.Kind != 's' {
			return fmt.Errorf("%s: expected a constructed ast.%s, got %s", path, pt.Kind, m.st.Render(v))
		}
		if tn := typeName(o.T); tn != pt.Kind {
			return fmt.Errorf("%s: expected ast.%s, got ast.%s", path, pt.Kind, tn)
		}
		// fields that bind a label first, so that later fields can refer to it
		var order []string
		for f, fp := range pt.Fields {
			if hasBind(fp) {
				order = append(order, f)
			}
		}
		sort.Strings(order)
		var rest []string
		for f, fp := range pt.Fields {
			if !hasBind(fp) {
				rest = append(rest, f)
			}
		}
		sort.Strings(rest)
		for _, f := range append(order, rest...) {
			fp := pt.Fields[f]
			fv, ok := o.Fields[f]
			if !ok {
				fv = Nil{}
			}
			if err := m.match(fv, fp, path+"."+f); err != nil {
				return err
			}
		}
		if !pt.Open {
			for f, fv := range o.Fields {
				if _, listed := pt.Fields[f]; !listed && !isNilLike(fv) && !isPosField(f) {
					return fmt.Errorf("%s.%s: unexpected content %s", path, f, m.st.Render(fv))
				}
			}
		}
		return nil
	}
	return fmt.Errorf("%s: unknown pattern %T", path, p)
}

func hasBind(p Pat) bool {
	switch pt := p.(type) {
	case pBind:
		return true
	case pNode:
		for _, f := range pt.Fields {
			if hasBind(f) {
				return true
			}
		}
	case pList:
		for _, e := range pt.Elems {
			if hasBind(e) {
				return true
			}
		}
	case pOr:
		for _, a := range pt.Alts {
			if hasBind(a) {
				return true
			}
		}
	}
	return false
}

func isPosField(f string) bool {
	switch f {
	case "Lparen", "Rparen", "Lbrace", "Rbrace", "Lbrack", "Rbrack", "For", "Switch", "Return", "TokPos", "NamePos", "If", "Case", "Colon", "Ellipsis", "Opening", "Closing", "Func", "Slash":
		return true
	}
	return false
}

func matchTmpl(st *State, v AV, p Pat) error {
	m := &matcher{st: st, binds: map[string]AV{}}
	return m.match(v, p, "result")
}

// countLeaf counts occurrences of an original hole in a constructed tree.
func countLeaf(st *State, v AV, name string) int {
	n := 0
	var walk func(v AV, seen map[int]bool)
	walk = func(v AV, seen map[int]bool) {
		switch x := v.(type) {
		case Sym:
			if epochRe.ReplaceAllString(x.Name, "") == name {
				n++
			}
		case Dyn:
			walk(x.V, seen)
		case Ref:
			if seen[x.ID] {
				return
			}
			seen[x.ID] = true
			if o := st.heap[x.ID]; o != nil {
				for _, f := range o.Fields {
					walk(f, seen)
				}
				for _, e := range o.Elems {
					walk(e, seen)
				}
				if o.Val != nil {
					walk(o.Val, seen)
				}
			}
			delete(seen, x.ID)
		case SliceV:
			for _, e := range x.Elems {
				walk(e, seen)
			}
		case Spread:
			walk(x.V, seen)
		case StructV:
			for _, f := range x.Fields {
				walk(f, seen)
			}
		case Tuple:
			for _, e := range x.Vs {
				walk(e, seen)
			}
		case Expr:
			for _, e := range x.Args {
				walk(e, seen)
			}
		}
	}
	walk(v, map[int]bool{})
	return n
}

// convenience constructors
func nd(kind string, fields map[string]Pat) pNode { return pNode{Kind: kind, Fields: fields} }
func ndOpen(kind string, fields map[string]Pat) pNode {
	return pNode{Kind: kind, Fields: fields, Open: true}
}
func lst(ps ...Pat) pList { return pList{Elems: ps} }

// call of method sel on x: CallExpr{Fun: SelectorExpr{X: x, Sel: Ident{sel}}}
func pMethodCall(x Pat, sel string) Pat {
	return nd("CallExpr", map[string]Pat{"Fun": nd("SelectorExpr", map[string]Pat{"X": x, "Sel": nd("Ident", map[string]Pat{"Name": pStr{sel}})})})
}
func pSelect(x Pat, sel string) Pat {
	return nd("SelectorExpr", map[string]Pat{"X": x, "Sel": nd("Ident", map[string]Pat{"Name": pStr{sel}})})
}
