package main

import (
	"encoding/json"
	"fmt"
	"os"
	"path/filepath"
	"regexp"
	"sort"
	"strings"
	"time"
)

// Status of one obligation.
type Status string

const (
	OK        Status = "ok"
	Violated  Status = "violated"
	Undecided Status = "undecided"
)

// Obligation is one rule instance: a rule applied to one construct (and, for
// table rules, one abstract input). Keyed by Rule+Construct, never by line.
type Obligation struct {
	Rule      string   `json:"rule"`
	Construct string   `json:"construct"`
	Pos       string   `json:"pos,omitempty"`
	Status    Status   `json:"status"`
	Detail    string   `json:"detail,omitempty"`
	Known     string   `json:"known_finding,omitempty"`
	Trace     []string `json:"trace,omitempty"`
}

func (o Obligation) Key() string { return o.Rule + " | " + o.Construct }

// Ctx collects what one check run did.
type Ctx struct {
	Prop        string
	Tier        string
	Seed        int64
	W           *World
	Obls        []Obligation
	seen        map[string]int
	States      int // abstract states explored (K1 instructions-level steps / paths)
	Paths       int
	FuncsSeen   map[string]bool
	CallSites   int
	Controls    []ControlResult
	Notes       []string
	MinCounts   map[string]int // rule -> minimum number of instances
	Assumptions []string
}

type ControlResult struct {
	Name   string `json:"name"`
	Rule   string `json:"rule"`
	Result string `json:"result"` // fired | skipped | MISSED
	Detail string `json:"detail,omitempty"`
}

func newCtx(prop, tier string, seed int64, w *World) *Ctx {
	return &Ctx{Prop: prop, Tier: tier, Seed: seed, W: w, seen: map[string]int{}, FuncsSeen: map[string]bool{}, MinCounts: map[string]int{}}
}

func (c *Ctx) add(o Obligation) {
	if i, ok := c.seen[o.Key()]; ok {
		// same obligation reported twice: keep the worst
		old := c.Obls[i]
		if rank(o.Status) > rank(old.Status) {
			c.Obls[i] = o
		}
		return
	}
	c.seen[o.Key()] = len(c.Obls)
	c.Obls = append(c.Obls, o)
}

// trial runs f and keeps the obligations it adds only if all of them hold; otherwise they are withdrawn
// (the caller then decides the same question by another method). It reports whether they were kept.
func (c *Ctx) trial(f func()) bool {
	n := len(c.Obls)
	f()
	ok := true
	for _, o := range c.Obls[n:] {
		if o.Status != OK {
			ok = false
		}
	}
	if ok {
		return true
	}
	for _, o := range c.Obls[n:] {
		delete(c.seen, o.Key())
	}
	c.Obls = c.Obls[:n]
	return false
}

// trialForm is trial for a rule with a weaker fallback: the attempt's obligations are withdrawn — and the
// fallback may run — only if every obligation that failed says "the code is not written in a form this rule
// recognises" (isForm). A failure that is a verdict about a recognised form stays: the fallback must never hide it.
func (c *Ctx) trialForm(f func(), isForm func(Obligation) bool) (ok, onlyForm bool) {
	n := len(c.Obls)
	f()
	ok, onlyForm = true, true
	for _, o := range c.Obls[n:] {
		if o.Status != OK {
			ok = false
			if !isForm(o) {
				onlyForm = false
			}
		}
	}
	if ok || !onlyForm {
		return ok, false
	}
	for _, o := range c.Obls[n:] {
		delete(c.seen, o.Key())
	}
	c.Obls = c.Obls[:n]
	return false, true
}

func rank(s Status) int {
	switch s {
	case OK:
		return 0
	case Undecided:
		return 1
	}
	return 2
}

func (c *Ctx) ok(rule, construct, pos, detail string) {
	c.add(Obligation{Rule: rule, Construct: construct, Pos: pos, Status: OK, Detail: detail})
}
func (c *Ctx) bad(rule, construct, pos, detail string, trace ...string) {
	c.add(Obligation{Rule: rule, Construct: construct, Pos: pos, Status: Violated, Detail: detail, Trace: trace})
}
func (c *Ctx) und(rule, construct, pos, detail string) {
	c.add(Obligation{Rule: rule, Construct: construct, Pos: pos, Status: Undecided, Detail: detail})
}

// check records ok/bad depending on cond.
func (c *Ctx) check(cond bool, rule, construct, pos, okDetail, badDetail string, trace ...string) bool {
	if cond {
		c.ok(rule, construct, pos, okDetail)
	} else {
		c.bad(rule, construct, pos, badDetail, trace...)
	}
	return cond
}

// keep restricts the obligations of this check to those relevant for its
// property: rules are shared between properties, but a property only answers
// for the rows that are necessary conditions of *it* (so that a change which
// breaks another property does not raise an alarm here).
func (c *Ctx) keep(pred func(o Obligation) bool) {
	var out []Obligation
	c.seen = map[string]int{}
	for _, o := range c.Obls {
		// undecided / internal failures are never dropped
		if o.Status == Undecided || strings.HasPrefix(o.Rule, "META.") || pred(o) {
			c.seen[o.Key()] = len(out)
			out = append(out, o)
		}
	}
	c.Obls = out
	// vacuity guards are re-declared by the caller for the kept subset
	c.MinCounts = map[string]int{}
}

// min declares the vacuity guard of a rule.
func (c *Ctx) min(rule string, n int) { c.MinCounts[rule] = n }

func (c *Ctx) fn(name string) { c.FuncsSeen[name] = true }

// guard runs a rule body; an UndecidedError raised inside becomes an undecided
// obligation of that rule, any other panic too (a checker crash is never a pass).
func (c *Ctx) guard(rule string, body func()) {
	defer func() {
		if r := recover(); r != nil {
			switch e := r.(type) {
			case UndecidedError:
				c.und(rule, "rule could not be evaluated", "", e.Msg)
			default:
				c.und(rule, "analysis failure", "", fmt.Sprintf("internal error: %v", r))
			}
		}
	}()
	body()
}

// ---------------------------------------------------------------- known findings

type Finding struct {
	Property  string `json:"property"`
	Status    string `json:"status"` // known | fixed
	Rule      string `json:"rule"`
	Construct string `json:"construct"` // exact obligation construct, or regexp when prefixed with "re:"
	Commit    string `json:"commit,omitempty"`
	What      string `json:"what"`
	Input     string `json:"input,omitempty"`
}

type FindingsFile struct {
	Comment  string    `json:"_comment"`
	Findings []Finding `json:"findings"`
}

func loadFindings(verifDir string) ([]Finding, error) {
	b, err := os.ReadFile(filepath.Join(verifDir, "known_findings.json"))
	if err != nil {
		if os.IsNotExist(err) {
			return nil, nil
		}
		return nil, err
	}
	var ff FindingsFile
	if err := json.Unmarshal(b, &ff); err != nil {
		return nil, fmt.Errorf("known_findings.json: %w", err)
	}
	return ff.Findings, nil
}

func matchFinding(f Finding, prop string, o Obligation) bool {
	if f.Status != "known" || f.Property != prop || f.Rule != o.Rule {
		return false
	}
	if strings.HasPrefix(f.Construct, "re:") {
		re, err := regexp.Compile("^(?:" + f.Construct[3:] + ")$")
		return err == nil && re.MatchString(o.Construct)
	}
	return f.Construct == o.Construct
}

// ---------------------------------------------------------------- evidence

type coverage struct {
	Explanation        string          `json:"explanation"`
	Rule               string          `json:"rule"`
	Obligations        int             `json:"obligations"`
	Discharged         int             `json:"discharged"`
	Evaluations        int             `json:"evaluations"`
	DistinctNontrivial int             `json:"distinct_nontrivial"`
	States             int             `json:"states"`
	Exhaustive         bool            `json:"exhaustive"`
	Samples            []any           `json:"samples"`
	Rules              map[string]int  `json:"rule_instances"`
	Functions          []string        `json:"functions_analysed"`
	FunctionsTotal     int             `json:"functions_loaded"`
	CallSites          int             `json:"call_sites_scanned"`
	Controls           []ControlResult `json:"controls,omitempty"`
	KnownFindings      []string        `json:"known_findings,omitempty"`
	Violations         []Obligation    `json:"violated_or_undecided,omitempty"`
	CheckerCmd         string          `json:"checker_cmd"`
	TrustedBase        []string        `json:"trusted_base"`
	Notes              []string        `json:"notes,omitempty"`
}

type evidence struct {
	PropertyID  string   `json:"property_id"`
	Tier        string   `json:"tier"`
	Seed        int64    `json:"seed"`
	Level       string   `json:"level"`
	Coverage    coverage `json:"coverage"`
	Assumptions []string `json:"assumptions"`
	WallS       float64  `json:"wall_s"`
	Violations  int      `json:"violations"`
}

// finish applies vacuity guards and known findings, writes evidence and replay
// files, prints the verdict lines and returns the exit code.
func (c *Ctx) finish(verifDir string, spec propSpec, start time.Time, loadErr error) int {
	findings, ferr := loadFindings(verifDir)
	if ferr != nil {
		c.und("META.FINDINGS", "known_findings.json", "", ferr.Error())
	}
	if loadErr != nil {
		c.und("META.LOAD", "load and type-check /repo", "", loadErr.Error())
	}
	// vacuity guards
	counts := map[string]int{}
	for _, o := range c.Obls {
		counts[o.Rule]++
	}
	var rules []string
	for r := range c.MinCounts {
		rules = append(rules, r)
	}
	sort.Strings(rules)
	failing := map[string]bool{}
	for _, o := range c.Obls {
		if o.Status != OK {
			failing[o.Rule] = true
		}
	}
	for _, r := range rules {
		// a rule that already reports a violation explains its own low count
		if counts[r] < c.MinCounts[r] && !failing[r] {
			c.und(r, "vacuity guard", "", fmt.Sprintf("rule matched %d instance(s), expected at least %d: the anchors it is built on are gone", counts[r], c.MinCounts[r]))
		}
	}
	// A control is a *text* mutation: after a refactoring its anchor can still be present while the mutated
	// statement has become redundant (e.g. exhaustion recorded in a state field as well), so a control that is
	// applied but not detected is reported as a warning and recorded in the evidence — it does not fail the
	// check (that would be an alarm on a tree where the property holds). Vacuity of the rules themselves is
	// guarded by the minimum instance counts above.
	for _, cr := range c.Controls {
		if cr.Result == "MISSED" {
			fmt.Printf("CONTROL-WARNING: property=%s control %s applied but rule %s did not report it (the mutated construct may have become redundant after a refactoring; re-confirm the control): %s\n", c.Prop, cr.Name, cr.Rule, cr.Detail)
		}
	}
	if len(c.Obls) == 0 {
		c.und("META.EMPTY", "no obligations", "", "check produced no obligations")
	}

	// classify
	var viol []Obligation
	var known []string
	discharged := 0
	for i := range c.Obls {
		o := &c.Obls[i]
		if o.Status == OK {
			discharged++
			continue
		}
		matched := false
		if o.Status == Violated {
			for _, f := range findings {
				if matchFinding(f, c.Prop, *o) {
					o.Known = f.What
					known = append(known, fmt.Sprintf("KNOWN-FINDING: property=%s %s [%s | %s] input: %s", c.Prop, f.What, o.Rule, o.Construct, f.Input))
					matched = true
					break
				}
			}
		}
		if !matched {
			viol = append(viol, *o)
		}
	}

	// distinct non-trivial: distinct obligations whose rule had >=1 site, i.e. all
	// recorded obligations are distinct by key (dedup in add); trivial = META.*
	distinct := 0
	for _, o := range c.Obls {
		if !strings.HasPrefix(o.Rule, "META.") {
			distinct++
		}
	}
	var samples []any
	step := 1
	if len(c.Obls) > 12 {
		step = len(c.Obls) / 12
	}
	for i := 0; i < len(c.Obls); i += step {
		o := c.Obls[i]
		samples = append(samples, map[string]string{"rule": o.Rule, "construct": o.Construct, "pos": o.Pos, "status": string(o.Status), "detail": o.Detail})
	}
	var fns []string
	for f := range c.FuncsSeen {
		fns = append(fns, f)
	}
	sort.Strings(fns)
	total := 0
	if c.W != nil {
		total = len(c.W.Funcs)
	}
	ev := evidence{
		PropertyID: c.Prop, Tier: c.Tier, Seed: c.Seed, Level: "other",
		Coverage: coverage{
			Explanation:        spec.Explanation,
			Rule:               "one obligation per (rule, construct, abstract input); enumerated exhaustively over the finite abstract domains named in the rule; an obligation is non-trivial when it is attached to a construct found in /repo's current source (META.* bookkeeping obligations are not counted)",
			Obligations:        len(c.Obls),
			Discharged:         discharged,
			Evaluations:        c.Paths + len(c.Obls),
			DistinctNontrivial: distinct,
			States:             c.States,
			Exhaustive:         true,
			Samples:            samples,
			Rules:              counts,
			Functions:          fns,
			FunctionsTotal:     total,
			CallSites:          c.CallSites,
			Controls:           c.Controls,
			KnownFindings:      known,
			Violations:         viol,
			CheckerCmd:         strings.Join(os.Args, " "),
			TrustedBase:        spec.Trusted,
			Notes:              c.Notes,
		},
		Assumptions: append(append([]string{}, spec.Trusted...), c.Assumptions...),
		WallS:       time.Since(start).Seconds(),
		Violations:  len(viol),
	}
	if ev.Coverage.Evaluations < 1 {
		ev.Coverage.Evaluations = 1
	}
	os.MkdirAll(filepath.Join(verifDir, "evidence", "replay"), 0o755)
	b, _ := json.MarshalIndent(ev, "", " ")
	if err := os.WriteFile(filepath.Join(verifDir, "evidence", c.Prop+".json"), append(b, '\n'), 0o644); err != nil {
		fmt.Fprintln(os.Stderr, "cannot write evidence:", err)
		return 2
	}

	fmt.Printf("property %s tier=%s: %d obligations, %d discharged, %d known finding(s), %d open; %d paths / %d abstract states; %d functions analysed\n",
		c.Prop, c.Tier, len(c.Obls), discharged, len(known), len(viol), c.Paths, c.States, len(fns))
	for _, cr := range c.Controls {
		fmt.Printf("  control %-28s %-8s %s\n", cr.Name, cr.Result, cr.Detail)
	}
	for _, k := range known {
		fmt.Println(k)
	}
	if len(viol) == 0 {
		fmt.Printf("OK property=%s\n", c.Prop)
		return 0
	}
	const maxPrinted = 12
	for i, o := range viol {
		if i == maxPrinted {
			fmt.Printf("... and %d more open obligation(s); all of them are listed in %s\n", len(viol)-maxPrinted, filepath.Join(verifDir, "evidence", c.Prop+".json"))
			break
		}
		kind := "violation"
		if o.Status == Undecided {
			kind = "undecided (reported as a violation: the check cannot establish the property)"
		}
		fmt.Printf("%s: %s: %s: %s: %s\n", o.Pos, kind, o.Rule, o.Construct, o.Detail)
		for _, t := range o.Trace {
			fmt.Printf("      %s\n", t)
		}
		name := fmt.Sprintf("%s-%s.json", c.Prop, sanitize(o.Key()))
		if len(name) > 150 {
			name = fmt.Sprintf("%s-%d-%s.json", c.Prop, i, sanitize(o.Rule))
		}
		path := filepath.Join(verifDir, "evidence", "replay", name)
		rb, _ := json.MarshalIndent(map[string]any{"property": c.Prop, "obligation": o, "repo": c.repo(), "how_to_replay": "gocoverif check " + c.Prop + " --tier " + c.Tier + " (deterministic: re-running on the same tree reproduces this obligation)"}, "", " ")
		os.WriteFile(path, append(rb, '\n'), 0o644)
		fmt.Printf("VIOLATION property=%s replay=%s\n", c.Prop, path)
	}
	return 1
}

func (c *Ctx) repo() string {
	if c.W != nil {
		return c.W.Repo
	}
	return ""
}

var sanRe = regexp.MustCompile(`[^A-Za-z0-9_.-]+`)

func sanitize(s string) string { return strings.Trim(sanRe.ReplaceAllString(s, "_"), "_") }
