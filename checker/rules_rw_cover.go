package main

// RW.DISPATCH / RW.FIELDCOV / RW.DEEPVISIT (property C12, shared with C11).
//
// The statement rewriter is abstractly evaluated on a *symbolic AST* of every
// statement kind of go/ast (heap objects for the node and its structural
// children, holes for user syntax: statement lists, simple statements, call
// operands, expressions). rewriteIfStmt / rewriteSwitchStmt / rewriteForStmt /
// rewriteYieldCall / combineIfNecessary are inlined; the recursion into nested
// statement lists (rewriteBlockStmt, rewriteStmt, rewriteStmts) is a boundary
// event, the yield-freeness predicates are oracles answered both ways. For
// every path that does not reject the input, every *original* hole that is
// still reachable from what the path emits into the output block must be
//   covered   – a yield-freeness oracle answered "true" for it (directly, or
//               for the block obtained by rewriting a list that contains it);
//               otherwise a Yield inside it survives as a no-op stub call;
//   visited   – (holes that can contain nested statements) passed through the
//               rewriter's recursion on this path, so unsupported constructs
//               nested in it were seen and rejected.
// Kinds the README lists as unsupported must be rejected on every path.

import (
	"fmt"
	"go/constant"
	"go/types"
	"os"
	"sort"
	"strings"

	"golang.org/x/tools/go/ssa"
)

type leafInfo struct {
	yieldCapable bool // may contain (or be) a yield call of the enclosing function
	nested       bool // may contain nested statements
	what         string
}

type astInput struct {
	st     *State
	root   AV // Dyn{*ast.Kind, Ref}
	leaves map[string]leafInfo
	desc   string
}

type astBuilder struct {
	r       *rwRT
	st      *State
	leaves  map[string]leafInfo
	alt     bool // holes get the alternative syntactic kind
	altUsed bool
}

// shapeAltKinds: also enumerate every shape with the alternative kinds in its holes
var shapeAltKinds = true

func (b *astBuilder) obj(kind string, fields map[string]AV) AV {
	t := b.r.astPtr(kind)
	ref := b.st.alloc(&Obj{T: t.(*types.Pointer).Elem(), Kind: 's', Fields: fields, Site: "input " + kind})
	return Dyn{T: t, V: ref}
}

func (b *astBuilder) ptr(kind string, fields map[string]AV) AV {
	d := b.obj(kind, fields).(Dyn)
	return d.V
}

func (b *astBuilder) leaf(name string, li leafInfo) AV {
	b.leaves[name] = li
	return Sym{Name: name, NN: true}
}

func (b *astBuilder) stmtList(name string) AV {
	return b.leaf(name, leafInfo{yieldCapable: true, nested: true, what: "statement list"})
}
func (b *astBuilder) simple(name string) AV {
	// a simple statement (init/post/assign/comm): may be a yield call, cannot nest statements
	if b.alt {
		b.altUsed = true
		return Dyn{T: b.r.astPtr("AssignStmt"), V: b.leaf(name, leafInfo{yieldCapable: true, what: "simple statement (assignment)"})}
	}
	return Dyn{T: b.r.astPtr("ExprStmt"), V: b.leaf(name, leafInfo{yieldCapable: true, what: "simple statement"})}
}
func (b *astBuilder) callLeaf(name string) AV {
	return b.leaf(name, leafInfo{yieldCapable: true, what: "call operand"})
}
func (b *astBuilder) expr(name string) AV {
	if b.alt {
		b.altUsed = true
		return Dyn{T: b.r.astPtr("CallExpr"), V: b.leaf(name, leafInfo{what: "expression (call)"})}
	}
	return Dyn{T: b.r.astPtr("Ident"), V: b.leaf(name, leafInfo{what: "expression"})}
}
func (b *astBuilder) block(name string) AV {
	return b.ptr("BlockStmt", map[string]AV{"List": b.stmtList(name + ".List")})
}

// shapes enumerates the symbolic inputs for one statement kind.
func (r *rwRT) shapes(kind string) []*astInput {
	var out []*astInput
	mk := func(desc string, build func(b *astBuilder) AV) {
		b := &astBuilder{r: r, st: newState(), leaves: map[string]leafInfo{}}
		root := build(b)
		out = append(out, &astInput{st: b.st, root: root, leaves: b.leaves, desc: desc})
		if !shapeAltKinds {
			return
		}
		// the same shape with the other syntactic kinds in its holes (simple statements as
		// assignments, expressions as calls): code that discriminates on the kind of a part
		// of the statement takes its other branch
		b2 := &astBuilder{r: r, st: newState(), leaves: map[string]leafInfo{}, alt: true}
		root2 := build(b2)
		if b2.altUsed {
			out = append(out, &astInput{st: b2.st, root: root2, leaves: b2.leaves, desc: desc + " (parts of the other syntactic kinds)"})
		}
	}
	opt := func(present bool, v func() AV) AV {
		if present {
			return v()
		}
		return Nil{}
	}
	switch kind {
	case "BlockStmt":
		mk("block", func(b *astBuilder) AV { return b.obj("BlockStmt", map[string]AV{"List": b.stmtList("stmt.List")}) })
	case "IfStmt":
		for _, init := range []bool{false, true} {
			for _, els := range []string{"none", "block", "elseif"} {
				init, els := init, els
				mk(fmt.Sprintf("if[init=%v,else=%s]", init, els), func(b *astBuilder) AV {
					f := map[string]AV{"Init": opt(init, func() AV { return b.simple("stmt.Init") }), "Cond": b.expr("stmt.Cond"), "Body": b.block("stmt.Body")}
					switch els {
					case "none":
						f["Else"] = Nil{}
					case "block":
						f["Else"] = Dyn{T: r.astPtr("BlockStmt"), V: b.block("stmt.Else")}
					case "elseif":
						f["Else"] = b.obj("IfStmt", map[string]AV{"Init": b.simple("stmt.Else.Init"), "Cond": b.expr("stmt.Else.Cond"), "Body": b.block("stmt.Else.Body"), "Else": Nil{}})
					}
					return b.obj("IfStmt", f)
				})
			}
		}
	case "SwitchStmt", "TypeSwitchStmt":
		for _, init := range []bool{false, true} {
			for _, tag := range []bool{false, true} {
				if kind == "TypeSwitchStmt" && !tag {
					continue
				}
				for _, bind := range []bool{false, true} {
					// the alternative form of the header: `switch v := x.(type)` / a tag that is a call
					if bind && kind != "TypeSwitchStmt" && !tag {
						continue
					}
					init, tag, bind := init, tag, bind
					desc := fmt.Sprintf("%s[init=%v,tag=%v,2 clauses]", kind, init, tag)
					if bind && kind == "TypeSwitchStmt" {
						desc = fmt.Sprintf("%s[init=%v,bind=true,2 clauses]", kind, init)
					} else if bind {
						desc = fmt.Sprintf("%s[init=%v,tag=call,2 clauses]", kind, init)
					}
					mk(desc, func(b *astBuilder) AV {
						c0 := b.obj("CaseClause", map[string]AV{"List": b.leaf("case0.List", leafInfo{what: "expression list"}), "Body": b.stmtList("case0.Body")})
						c1 := b.obj("CaseClause", map[string]AV{"List": Nil{}, "Body": b.stmtList("case1.Body")})
						body := b.ptr("BlockStmt", map[string]AV{"List": SliceV{Elems: []AV{c0, c1}}})
						f := map[string]AV{"Init": opt(init, func() AV { return b.simple("stmt.Init") }), "Body": body}
						if kind == "SwitchStmt" {
							f["Tag"] = opt(tag, func() AV {
								if bind {
									return Dyn{T: b.r.astPtr("CallExpr"), V: b.leaf("stmt.Tag", leafInfo{what: "expression"})}
								}
								return b.expr("stmt.Tag")
							})
						} else if bind {
							f["Assign"] = Dyn{T: b.r.astPtr("AssignStmt"), V: b.leaf("stmt.Assign", leafInfo{yieldCapable: true, what: "type switch guard with binding"})}
						} else {
							f["Assign"] = b.simple("stmt.Assign")
						}
						return b.obj(kind, f)
					})
				}
			}
		}
	case "ForStmt":
		for _, init := range []bool{false, true} {
			for _, cond := range []bool{false, true} {
				for _, post := range []bool{false, true} {
					init, cond, post := init, cond, post
					mk(fmt.Sprintf("for[init=%v,cond=%v,post=%v]", init, cond, post), func(b *astBuilder) AV {
						return b.obj("ForStmt", map[string]AV{
							"Init": opt(init, func() AV { return b.simple("stmt.Init") }),
							"Cond": opt(cond, func() AV { return b.expr("stmt.Cond") }),
							"Post": opt(post, func() AV { return b.simple("stmt.Post") }),
							"Body": b.block("stmt.Body")})
					})
				}
			}
		}
	case "RangeStmt":
		mk("range", func(b *astBuilder) AV {
			return b.obj("RangeStmt", map[string]AV{"Key": b.expr("stmt.Key"), "Value": b.expr("stmt.Value"), "X": b.expr("stmt.X"), "Body": b.block("stmt.Body")})
		})
	case "LabeledStmt":
		mk("labeled", func(b *astBuilder) AV {
			return b.obj("LabeledStmt", map[string]AV{"Label": b.expr("stmt.Label"), "Stmt": Dyn{T: r.astPtr("ExprStmt"), V: b.leaf("stmt.Stmt", leafInfo{yieldCapable: true, nested: true, what: "labelled statement"})}})
		})
	case "SelectStmt":
		mk("select", func(b *astBuilder) AV {
			cc := b.obj("CommClause", map[string]AV{"Comm": b.simple("comm0.Comm"), "Body": b.stmtList("comm0.Body")})
			return b.obj("SelectStmt", map[string]AV{"Body": b.ptr("BlockStmt", map[string]AV{"List": SliceV{Elems: []AV{cc}}})})
		})
	case "CaseClause":
		mk("case clause", func(b *astBuilder) AV {
			return b.obj("CaseClause", map[string]AV{"List": Nil{}, "Body": b.stmtList("stmt.Body")})
		})
	case "CommClause":
		mk("comm clause", func(b *astBuilder) AV {
			return b.obj("CommClause", map[string]AV{"Comm": b.simple("stmt.Comm"), "Body": b.stmtList("stmt.Body")})
		})
	case "GoStmt", "DeferStmt":
		mk(kind, func(b *astBuilder) AV { return b.obj(kind, map[string]AV{"Call": b.callLeaf("stmt.Call")}) })
	case "ExprStmt":
		mk("expression statement", func(b *astBuilder) AV { return b.obj(kind, map[string]AV{"X": b.callLeaf("stmt.X")}) })
	case "BranchStmt":
		for _, tok := range []string{"BREAK", "CONTINUE", "GOTO", "FALLTHROUGH"} {
			for _, lab := range []bool{false, true} {
				tok, lab := tok, lab
				mk(fmt.Sprintf("branch[%s,label=%v]", strings.ToLower(tok), lab), func(b *astBuilder) AV {
					return b.obj(kind, map[string]AV{"Tok": r.tokConst(tok), "Label": opt(lab, func() AV { return b.ptr("Ident", map[string]AV{"Name": mkString("L")}) })})
				})
			}
		}
	default:
		// statements without nested statements or call operands of their own
		mk(kind, func(b *astBuilder) AV { return b.obj(kind, map[string]AV{}) })
	}
	return out
}

// reach collects the names of original leaves reachable from v.
func reach(st *State, v AV, leaves map[string]leafInfo, out map[string]bool, seen map[int]bool) {
	switch x := v.(type) {
	case nil:
	case Sym:
		name := epochRe.ReplaceAllString(x.Name, "")
		if _, ok := leaves[name]; ok {
			out[name] = true
		}
	case Dyn:
		reach(st, x.V, leaves, out, seen)
	case Ref:
		if seen[x.ID] {
			return
		}
		seen[x.ID] = true
		o := st.heap[x.ID]
		if o == nil {
			return
		}
		for _, f := range o.Fields {
			reach(st, f, leaves, out, seen)
		}
		for _, e := range o.Elems {
			reach(st, e, leaves, out, seen)
		}
		if o.Val != nil {
			reach(st, o.Val, leaves, out, seen)
		}
	case FieldRef:
		reach(st, x.Base, leaves, out, seen)
	case ElemRef:
		reach(st, x.Base, leaves, out, seen)
	case StructV:
		for _, f := range x.Fields {
			reach(st, f, leaves, out, seen)
		}
	case SliceV:
		for _, e := range x.Elems {
			reach(st, e, leaves, out, seen)
		}
	case Spread:
		reach(st, x.V, leaves, out, seen)
	case Tuple:
		for _, e := range x.Vs {
			reach(st, e, leaves, out, seen)
		}
	case Expr:
		for _, e := range x.Args {
			reach(st, e, leaves, out, seen)
		}
	}
}

// symNames collects the (epoch-free) names of all symbols reachable from v.
func symNames(st *State, v AV, out map[string]bool, seen map[int]bool) {
	switch x := v.(type) {
	case nil:
	case Sym:
		out[epochRe.ReplaceAllString(x.Name, "")] = true
	case Dyn:
		symNames(st, x.V, out, seen)
	case Ref:
		if seen[x.ID] {
			return
		}
		seen[x.ID] = true
		o := st.heap[x.ID]
		if o == nil {
			return
		}
		for _, f := range o.Fields {
			symNames(st, f, out, seen)
		}
		for _, e := range o.Elems {
			symNames(st, e, out, seen)
		}
		if o.Val != nil {
			symNames(st, o.Val, out, seen)
		}
	case FieldRef:
		symNames(st, x.Base, out, seen)
	case ElemRef:
		symNames(st, x.Base, out, seen)
	case StructV:
		for _, f := range x.Fields {
			symNames(st, f, out, seen)
		}
	case SliceV:
		for _, e := range x.Elems {
			symNames(st, e, out, seen)
		}
	case Spread:
		symNames(st, x.V, out, seen)
	case Tuple:
		for _, e := range x.Vs {
			symNames(st, e, out, seen)
		}
	case Expr:
		for _, e := range x.Args {
			symNames(st, e, out, seen)
		}
	case Closure:
		for _, e := range x.Bind {
			symNames(st, e, out, seen)
		}
	}
}

// derivedFrom reports whether name denotes base or something loaded from it (base.f, base[i]).
func derivedFrom(name, base string) bool {
	return name == base || strings.HasPrefix(name, base+".") || strings.HasPrefix(name, base+"[")
}

func reachSet(st *State, v AV, leaves map[string]leafInfo) map[string]bool {
	out := map[string]bool{}
	reach(st, v, leaves, out, map[int]bool{})
	return out
}

var rwVisitFns = map[string]int{ // boundary recursion -> index of the statement argument
	"rewriteBlockStmt": 1, "rewriteStmt": 1, "rewriteStmts": 1,
}

// kinds that must be rejected: emitting them unchanged inside a thunk changes their meaning
// (a defer would run when the thunk returns, a label loses its targets). A select is
// documented as unsupported too, but a yield-free select that is emitted unchanged behaves
// like the source, so for it "rejected or preserved" is decided by FIELDCOV/DEEPVISIT alone.
var unsupportedKinds = map[string]string{
	"LabeledStmt": "labels", "DeferStmt": "defer", "BadStmt": "syntax error",
	"CaseClause": "stray case clause", "CommClause": "stray comm clause",
}

var eitherWayKinds = map[string]bool{"SelectStmt": true}

func (r *rwRT) ruleCover() { r.ruleCoverKinds(nil) }

func (r *rwRT) ruleCoverKinds(only map[string]bool) {
	c := r.c
	c.min("RW.DISPATCH", 21)
	c.min("RW.FIELDCOV", 8)
	c.min("RW.DEEPVISIT", 6)
	fn := r.method("yieldRewriter", "rewriteStmt")
	c.fn(relName(fn))
	pos := r.w.FnPos(fn)
	kinds := r.stmtKinds()
	if len(kinds) < 21 {
		undecided("go/ast has only %d statement kinds?", len(kinds))
	}
	for _, kind := range kinds {
		if only != nil && !only[kind] {
			continue
		}
		for _, shape := range r.shapes(kind) {
			r.coverShape(fn, pos, kind, shape)
		}
	}
}

func (r *rwRT) coverShape(fn *ssa.Function, pos, kind string, in0 *astInput) {
	c := r.c
	cfg := rwConfig{root: fn, blockOracles: true, boundaries: map[string]bool{
		"rewriteIfStmt": false, "rewriteSwitchStmt": false, "rewriteForStmt": false,
		"rewriteYieldCall": false, "combineIfNecessary": false, "generateLastNormalIfNecessary": false,
	}}
	in := r.interp(cfg)
	in.MaxRecur = 3
	in.MaxVisits = 4
	in.MaxDepth = 16
	children := Sym{Name: "children", NN: true}
	outs := in.Run(in0.st.clone(), fn, []AV{Sym{Name: "r", NN: true}, in0.root, Sym{Name: "isLast"}, children}, nil)
	r.account(in)
	construct := in0.desc
	accepted := 0
	var fieldBad, deepBad, lossBad, stateBad, dupBad, kindBad, freeBad []string
	var sampleAccept string
	for _, o := range outs {
		if o.Panicked {
			if yieldFreeScenario(o.St.Labels) && !r.noSuchBlockKind(fn, o) {
				note, where := "", ""
				for i := len(o.St.Events) - 1; i >= 0; i-- {
					if o.St.Events[i].Kind == "panic" {
						note, where = o.St.Events[i].Note, r.w.Pos(o.St.Events[i].Pos)
						break
					}
				}
				freeBad = append(freeBad, fmt.Sprintf("with every yield-freeness question answered \"no yield in it\" the statement is still rejected (panic %s at %s): %s", note, where, pathSummary(o)))
			}
			if os.Getenv("VERIF_DEBUG_PANICS") != "" {
				for i := len(o.St.Events) - 1; i >= 0; i-- {
					if o.St.Events[i].Kind == "panic" {
						fmt.Fprintf(os.Stderr, "PANIC %s | %s | %s | %s\n", in0.desc, o.St.Events[i].Note, o.St.Events[i].Stack, r.w.Pos(o.St.Events[i].Pos))
						break
					}
				}
			}
			continue
		}
		if o.St.Truncated {
			c.und("RW.DISPATCH", construct, pos, "exploration bound hit: "+pathSummary(o))
			continue
		}
		accepted++
		if sampleAccept == "" {
			sampleAccept = pathSummary(o)
		}
		// facts of the path
		retArg := map[string]AV{} // name of a boundary result -> its statement argument
		visited := map[string]bool{}
		covered := map[string]bool{}
		trueLabels := map[string]bool{}
		for _, l := range o.St.Labels {
			if strings.HasSuffix(l, "=true") {
				trueLabels[strings.TrimSuffix(l, "=true")] = true
			}
		}
		for _, e := range o.St.Events {
			if e.Kind != "call" || e.Fn == nil {
				continue
			}
			if idx, ok := rwVisitFns[e.Fn.Name()]; ok && inRw(e.Fn) && idx < len(e.Args) {
				for l := range reachSet(o.St, e.Args[idx], in0.leaves) {
					visited[l] = true
				}
				if e.Ret != nil {
					retArg[argLabel(e.Ret)] = e.Args[idx]
				}
				if e.Fn.Name() != "rewriteBlockStmt" {
					// rewriteStmt/rewriteStmts emit the rewritten form themselves
					for l := range reachSet(o.St, e.Args[idx], in0.leaves) {
						covered[l] = true
					}
				}
			}
			// stmt-level oracle answered true
			if e.Fn.Name() == "mustNoYield" && len(e.Args) == 2 && e.Note == "mustNoYield("+argLabel(e.Args[1])+")=true" {
				for l := range reachSet(o.St, e.Args[1], in0.leaves) {
					covered[l] = true
				}
			}
			if e.Fn.Name() == "isYieldCall" && strings.HasSuffix(e.Note, "=true") {
				// the statement is the yield itself: handled by rewriteYieldCall
				for l := range reachSet(o.St, e.Args[len(e.Args)-1], in0.leaves) {
					covered[l] = true
				}
			}
		}
		// block-level oracle on the result of rewriting a list
		for name, arg := range retArg {
			if trueLabels["mustNoYield("+name+")"] {
				for l := range reachSet(o.St, arg, in0.leaves) {
					covered[l] = true
				}
			}
		}
		// what is emitted into the output block
		emitted := map[string]bool{}
		for _, e := range o.St.Events {
			if e.Kind == "call" && e.Fn != nil && inRw(e.Fn) && (e.Fn.Name() == "push" || e.Fn.Name() == "pushReturn") && len(e.Args) >= 2 {
				for l := range reachSet(o.St, e.Args[1], in0.leaves) {
					emitted[l] = true
				}
			}
		}
		// RW.BLOCKSTATE (typestate of the output blocks): block.push asserts that the combine check has run
		// since the previous push. A block handed back by the recursion (rewriteStmt / rewriteStmts may have
		// pushed into it, or return another block) is unchecked until combineIfNecessary / markCombined.
		if markName := r.blockMarkMethod(); markName != "" {
			unchecked := map[string]bool{}
			for _, e := range o.St.Events {
				if e.Kind != "call" || e.Fn == nil || !inRw(e.Fn) || len(e.Args) == 0 {
					continue
				}
				switch e.Fn.Name() {
				case "rewriteStmt", "rewriteStmts":
					last := e.Args[len(e.Args)-1]
					if _, isSym := unwrapDyn(last).(Sym); isSym {
						unchecked[argLabel(last)] = true
					}
					if e.Ret != nil {
						if _, isSym := unwrapDyn(e.Ret).(Sym); isSym {
							unchecked[argLabel(e.Ret)] = true
						}
					}
				case markName:
					delete(unchecked, argLabel(e.Args[0]))
				case "push", "pushReturn":
					if _, isSym := unwrapDyn(e.Args[0]).(Sym); !isSym {
						continue
					}
					l := argLabel(e.Args[0])
					if unchecked[l] {
						stateBad = append(stateBad, fmt.Sprintf("a statement is pushed into the block %s right after the recursion handed it back, without combineIfNecessary in between: block.push asserts combineChecked and panics with \"illegal state\" (e.g. a switch whose initialiser is a delegation and whose cases do not yield): %s", l, pathSummary(o)))
					}
					unchecked[l] = true
				}
			}
		}
		// RW.NOLOSS: every original part is emitted, handed to a self-emitting recursion, or handed
		// to rewriteBlockStmt whose result is emitted
		{
			emittedNames := map[string]bool{}
			seen := map[int]bool{}
			accounted := map[string]bool{}
			for _, e := range o.St.Events {
				if e.Kind != "call" || e.Fn == nil || !inRw(e.Fn) {
					continue
				}
				if (e.Fn.Name() == "push" || e.Fn.Name() == "pushReturn") && len(e.Args) >= 2 {
					symNames(o.St, e.Args[1], emittedNames, seen)
				}
			}
			for _, e := range o.St.Events {
				if e.Kind != "call" || e.Fn == nil || !inRw(e.Fn) {
					continue
				}
				idx, ok := rwVisitFns[e.Fn.Name()]
				extractor := e.Fn.Name() == "checkYieldCall" || e.Fn.Name() == "isYieldCall" || e.Fn.Name() == "isYieldFromCall"
				if extractor && len(e.Args) > 0 {
					// the yield call extracted from a statement stands for the statement's operand
					idx, ok = len(e.Args)-1, true
				}
				if !ok || idx >= len(e.Args) {
					continue
				}
				used := e.Fn.Name() != "rewriteBlockStmt" && !extractor
				if extractor {
					start := 0
					if e.Fn.Signature.Recv() != nil {
						start = 1
					}
					var as []string
					for _, a := range e.Args[start:] {
						as = append(as, argLabel(a))
					}
					for _, rl := range []string{"call:" + strings.Join(as, ","), argLabel(e.Args[len(e.Args)-1])} {
						for n := range emittedNames {
							if derivedFrom(n, rl) {
								used = true
							}
						}
					}
				}
				if !used && e.Ret != nil {
					rets := []AV{e.Ret}
					if t, isT := e.Ret.(Tuple); isT {
						rets = t.Vs
					}
					for _, rv := range rets {
						if _, isSym := unwrapDyn(rv).(Sym); !isSym {
							continue
						}
						rl := argLabel(rv)
						for n := range emittedNames {
							if derivedFrom(n, rl) {
								used = true
							}
						}
					}
				}
				if used {
					names := map[string]bool{}
					symNames(o.St, e.Args[idx], names, map[int]bool{})
					for n := range names {
						for l := range in0.leaves {
							if derivedFrom(n, l) {
								accounted[l] = true
							}
						}
					}
				}
			}
			for n := range emittedNames {
				for l := range in0.leaves {
					if derivedFrom(n, l) {
						accounted[l] = true
					}
				}
			}
			if os.Getenv("VERIF_DEBUG_NOLOSS") != "" {
				var ns []string
				for n := range emittedNames {
					ns = append(ns, n)
				}
				sort.Strings(ns)
				fmt.Fprintf(os.Stderr, "NOLOSS %s emitted=%v\n", construct, ns)
			}
			var all []string
			for l := range in0.leaves {
				all = append(all, l)
			}
			sort.Strings(all)
			for _, l := range all {
				if !accounted[l] {
					lossBad = append(lossBad, fmt.Sprintf("%s (%s) of the source statement does not reach the output on this path: it is neither emitted nor handed to the recursion whose result is emitted: %s", l, in0.leaves[l].what, pathSummary(o)))
				}
			}
		}
		// ... and at most once: a part that is handed to the self-emitting recursion must not also stay reachable
		// from a statement that is emitted (an extracted initialiser left in place runs twice). The output is
		// printed from the final state of the nodes, so reachability is taken there.
		{
			count := map[string]int{}
			for _, e := range o.St.Events {
				if e.Kind != "call" || e.Fn == nil || !inRw(e.Fn) {
					continue
				}
				switch e.Fn.Name() {
				case "push", "pushReturn":
					if len(e.Args) >= 2 {
						for l := range reachSet(o.St, e.Args[1], in0.leaves) {
							count[l]++
						}
					}
				case "rewriteStmt", "rewriteStmts":
					if idx, ok := rwVisitFns[e.Fn.Name()]; ok && idx < len(e.Args) {
						for l := range reachSet(o.St, e.Args[idx], in0.leaves) {
							count[l]++
						}
					}
				}
			}
			// kind tags: push adds a statement that is not a return, so its tag must be one of the kinds after
			// which an implicit Normal is considered (trivial / if / switch); and a statement tagged trivial
			// must not be built from a rewritten list that may yield (the enclosing construct would stay native)
			for _, e := range o.St.Events {
				if e.Kind != "call" || e.Fn == nil || !inRw(e.Fn) || e.Fn.Name() != "push" || len(e.Args) != 3 {
					continue
				}
				if _, isConst := e.Args[2].(Const); !isConst {
					continue
				}
				tag := ""
				for _, k := range []string{"kindTrival", "kindIf", "kindSwitch"} {
					if sameAV(e.Args[2], r.kindConst(k)) {
						tag = k
					}
				}
				if tag == "" {
					kindBad = append(kindBad, fmt.Sprintf("a statement that is not a return is pushed with kind %s: the implicit `return Normal()` decision (and the yield-freeness test) of the block no longer sees it as an ordinary / if / switch statement (a thunk ending in it lacks its return): %s", e.Args[2], pathSummary(o)))
					continue
				}
				if tag == "kindTrival" {
					names := map[string]bool{}
					symNames(o.St, e.Args[1], names, map[int]bool{})
					for rn := range retArg {
						if !strings.HasPrefix(rn, "rewriteBlockStmt(") || trueLabels["mustNoYield("+rn+")"] {
							continue
						}
						for n := range names {
							if derivedFrom(n, rn) {
								kindBad = append(kindBad, fmt.Sprintf("a statement built from the rewritten list %s, which may yield on this path, is pushed as trivial: the enclosing construct would be kept native and the yields in it would call the stub: %s", rn, pathSummary(o)))
							}
						}
					}
				}
			}
			// where the statement goes: the statement itself (or the if / switch / loop rebuilt from its parts) is
			// pushed into the block that was handed in or into a block the combine decision / the recursion /
			// the yield lowering handed back — never into one of the finished sub-blocks of its own bodies
			// (it would be lost), and the block handed back to the list is not such a sub-block either
			subBlocks := map[string]bool{} // blocks made for a nested body right here (not by the combine decision / the yield lowering)
			for _, e := range o.St.Events {
				if e.Kind == "call" && e.Fn != nil && inRw(e.Fn) && e.Fn.Name() == "mkBlock" && e.Ret != nil &&
					!strings.Contains(e.Stack, "combineIfNecessary") && !strings.Contains(e.Stack, "rewriteYieldCall") && !strings.Contains(e.Stack, "rewriteBlockStmt") {
					subBlocks[argLabel(e.Ret)] = true
				}
			}
			isSubBlock := func(v AV) bool {
				l := argLabel(v)
				return strings.Contains(l, "rewriteBlockStmt") || subBlocks[l]
			}
			for _, e := range o.St.Events {
				if e.Kind != "call" || e.Fn == nil || !inRw(e.Fn) || e.Fn.Name() != "push" || len(e.Args) != 3 {
					continue
				}
				arg := unwrap(e.Args[1])
				own := sameAV(arg, unwrap(in0.root))
				if po := o.St.Obj(arg); po != nil && !own {
					switch typeName(po.T) {
					case "IfStmt", "SwitchStmt", "TypeSwitchStmt", "ForStmt":
						own = true
					}
				}
				if own && isSubBlock(e.Args[0]) {
					lossBad = append(lossBad, fmt.Sprintf("the statement is pushed into %s, the finished block of one of its own bodies, instead of the output block: it never reaches the output: %s", argLabel(e.Args[0]), pathSummary(o)))
				}
			}
			if len(o.Ret) == 1 && isSubBlock(o.Ret[0]) {
				lossBad = append(lossBad, fmt.Sprintf("the block handed back to the statement list is %s, the finished block of a nested body, not the open output block: the statements that follow are written into a block nobody emits: %s", argLabel(o.Ret[0]), pathSummary(o)))
			}
			var twice []string
			for l, n := range count {
				if n > 1 {
					twice = append(twice, l)
				}
			}
			sort.Strings(twice)
			for _, l := range twice {
				dupBad = append(dupBad, fmt.Sprintf("%s (%s) of the source statement reaches the output %d times on this path (it is handed to the recursion and is still part of an emitted statement: it would run twice): %s", l, in0.leaves[l].what, count[l], pathSummary(o)))
			}
		}
		var ls []string
		for l := range emitted {
			ls = append(ls, l)
		}
		sort.Strings(ls)
		for _, l := range ls {
			li := in0.leaves[l]
			if li.yieldCapable && !covered[l] {
				fieldBad = append(fieldBad, fmt.Sprintf("%s (%s) is emitted unchanged although no yield-freeness test answered true for it on this path: %s", l, li.what, pathSummary(o)))
			}
			if li.nested && !visited[l] {
				deepBad = append(deepBad, fmt.Sprintf("%s (%s) is emitted without having been passed through the rewriter's recursion on this path: %s", l, li.what, pathSummary(o)))
			}
		}
	}
	// dispatch verdict
	if why, unsup := unsupportedKinds[kind]; unsup {
		c.check(accepted == 0, "RW.DISPATCH", construct, pos, "rejected on every path ("+why+" is unsupported in generators)", fmt.Sprintf("%s is documented as unsupported but %d path(s) accept it, e.g.: %s", why, accepted, sampleAccept))
	} else if kind == "BranchStmt" && strings.Contains(construct, "goto") {
		c.check(accepted == 0, "RW.DISPATCH", construct, pos, "goto rejected on every path", "goto is unsupported but accepted: "+sampleAccept)
	} else if eitherWayKinds[kind] {
		c.ok("RW.DISPATCH", construct, pos, fmt.Sprintf("%d accepting path(s) of %d: rejected, or preserved under the coverage rules", accepted, len(outs)))
	} else {
		c.check(accepted > 0, "RW.DISPATCH", construct, pos, fmt.Sprintf("%d accepting path(s), %d path(s) in total", accepted, len(outs)), "a statement of the supported subset is rejected on every path")
	}
	if _, unsup := unsupportedKinds[kind]; !unsup && !eitherWayKinds[kind] && !(kind == "BranchStmt" && strings.Contains(construct, "goto")) {
		if len(freeBad) == 0 {
			c.ok("RW.DISPATCH", construct+" (yield-free)", pos, "no path on which every yield-freeness question is answered \"no yield\" ends in a rejection: a statement of the supported subset that contains no yield is accepted wherever it stands in a generator")
		} else {
			c.bad("RW.DISPATCH", construct+" (yield-free)", pos, freeBad[0], freeBad...)
		}
	}
	hasYieldLeaf, hasNested := false, false
	for _, li := range in0.leaves {
		hasYieldLeaf = hasYieldLeaf || li.yieldCapable
		hasNested = hasNested || li.nested
	}
	if hasYieldLeaf {
		if len(fieldBad) == 0 {
			c.ok("RW.FIELDCOV", construct, pos, "every yield-capable part that reaches the output unchanged is covered by a yield-freeness test on its path")
		} else {
			c.bad("RW.FIELDCOV", construct, pos, fieldBad[0], fieldBad...)
		}
	}
	if len(in0.leaves) > 0 && accepted > 0 {
		if len(lossBad) == 0 {
			c.ok("RW.NOLOSS", construct, pos, "on every accepting path each part of the source statement (initialiser, condition, post statement, tag, clause lists, bodies, operands) reaches the output: emitted, or rewritten by the recursion whose result is emitted")
		} else {
			c.bad("RW.NOLOSS", construct, pos, lossBad[0], lossBad...)
		}
	}
	if len(in0.leaves) > 0 && accepted > 0 {
		if len(dupBad) == 0 {
			c.ok("RW.NOLOSS", construct+" (no part twice)", pos, "on every accepting path no part of the source statement reaches the output twice")
		} else {
			c.bad("RW.NOLOSS", construct+" (no part twice)", pos, dupBad[0], dupBad...)
		}
	}
	if accepted > 0 {
		if len(kindBad) == 0 {
			c.ok("RW.BLOCKSTATE", construct+" (kind tags)", pos, "every statement pushed without a return carries one of the tags trivial / if / switch, and none tagged trivial is built from a rewritten list that may yield")
		} else {
			c.bad("RW.BLOCKSTATE", construct+" (kind tags)", pos, kindBad[0], kindBad...)
		}
	}
	if accepted > 0 {
		if len(stateBad) == 0 {
			c.ok("RW.BLOCKSTATE", construct, pos, "every push into an output block is preceded by the combine check since the previous push / since the recursion handed the block back")
		} else {
			c.bad("RW.BLOCKSTATE", construct, pos, stateBad[0], stateBad...)
		}
	}
	if hasNested {
		if len(deepBad) == 0 {
			c.ok("RW.DEEPVISIT", construct, pos, "every nested statement list that reaches the output went through the rewriter's recursion on its path")
		} else {
			c.bad("RW.DEEPVISIT", construct, pos, deepBad[0], deepBad...)
		}
	}
}

func unwrapDyn(a AV) AV {
	if d, ok := a.(Dyn); ok {
		return d.V
	}
	return a
}

// noSuchBlockKind: the path assumes that the block the statement is lowered into (the accumulator parameter, a
// symbolic input here) has a kind that no block is ever created with: every constant that some call of the
// package hands to a constructor of that block type is excluded by a comparison on the path. An assertion about
// the accumulator's kind fails only on such a path; it says nothing about the statement.
func (r *rwRT) noSuchBlockKind(fn *ssa.Function, o Outcome) bool {
	if len(fn.Params) == 0 {
		return false
	}
	blockT := fn.Params[len(fn.Params)-1].Type()
	created := map[int64]bool{}
	for _, f := range r.w.FuncsOf(pathRw) {
		for _, b := range f.Blocks {
			for _, ins := range b.Instrs {
				call, ok := ins.(ssa.CallInstruction)
				if !ok {
					continue
				}
				callee := call.Common().StaticCallee()
				if callee == nil || !inRw(callee) || callee.Signature.Results().Len() != 1 || !types.Identical(callee.Signature.Results().At(0).Type(), blockT) {
					continue
				}
				for _, a := range call.Common().Args {
					if cst, ok := a.(*ssa.Const); ok && cst.Value != nil {
						if _, named := cst.Type().(*types.Named); named {
							if v, exact := constant.Int64Val(constant.ToInt(cst.Value)); exact {
								created[v] = true
							}
						}
					}
				}
			}
		}
	}
	if len(created) == 0 {
		return false
	}
	excluded := map[int64]bool{}
	for _, cd := range o.St.Conds {
		e, ok := cd.V.(Expr)
		if !ok || e.Op != "==" || len(e.Args) != 2 || cd.Truth {
			continue
		}
		for i := 0; i < 2; i++ {
			sy, isSym := e.Args[i].(Sym)
			v, isInt := asInt(e.Args[1-i])
			if isSym && isInt && strings.HasPrefix(epochRe.ReplaceAllString(sy.Name, ""), "children.kind") {
				excluded[v] = true
			}
		}
	}
	for v := range created {
		if !excluded[v] {
			return false
		}
	}
	return true
}

// yieldFreeScenario: the path's oracle answers are those of a statement without any yield in it: every
// yield-freeness test answered true, every "is this a yield / a delegation / does it contain one" test false.
func yieldFreeScenario(labels []string) bool {
	for _, l := range labels {
		i := strings.LastIndex(l, "=")
		if i < 0 {
			continue
		}
		q, a := l[:i], l[i+1:]
		switch {
		case strings.HasPrefix(q, "mustNoYield("):
			if a != "true" {
				return false
			}
		case strings.HasPrefix(q, "isYieldCall("), strings.HasPrefix(q, "isYieldFromCall("), strings.HasPrefix(q, "containsYield("), strings.HasPrefix(q, "isCallStmtOf("):
			if a != "false" {
				return false
			}
		}
	}
	return true
}
