package main

// RW.MUTGUARD — bystander code is only touched under an API-membership
// predicate (property C13). Every call of an astutil.Cursor mutator in package
// rewriter is enumerated (resolved callees). The file-level cursor callbacks are
// abstractly evaluated on every node kind they dispatch on: an edit may only
// happen on paths on which a membership predicate (generator function, iterator
// type, Yield/YieldFrom call) answered true. Mutators in any other function must
// be reachable only through rewriteYieldFunc (whose call sites are so guarded)
// or belong to the optimiser's two callbacks (decided by OPT.WHITELIST / OPT.ETA).

import (
	"go/types"
	"fmt"
	"sort"
	"strings"

	"golang.org/x/tools/go/ssa"
)

var cursorMutators = map[string]bool{"Replace": true, "InsertBefore": true, "InsertAfter": true, "Delete": true}

func isCursorMutator(call ssa.CallInstruction) bool {
	callee := call.Common().StaticCallee()
	if callee == nil || !cursorMutators[callee.Name()] || callee.Signature.Recv() == nil {
		return false
	}
	return strings.Contains(callee.Signature.Recv().Type().String(), "astutil.Cursor")
}

func (r *rwRT) ruleMutGuard() {
	c := r.c
	c.min("RW.MUTGUARD", 10)
	fns := r.w.FuncsOf(pathRw)
	// static callers (incl. "created in" for closures)
	callers := map[*ssa.Function][]*ssa.Function{}
	for _, f := range fns {
		if p := f.Parent(); p != nil {
			callers[f] = append(callers[f], p)
		}
		for _, b := range f.Blocks {
			for _, ins := range b.Instrs {
				if call, ok := ins.(ssa.CallInstruction); ok {
					if callee := call.Common().StaticCallee(); callee != nil && inRw(callee) {
						callee = bodyOf(callee)
						callers[callee] = append(callers[callee], f)
					}
				}
				// method values / function values passed around: bound method closures
				if mc, ok := ins.(*ssa.MakeClosure); ok {
					if target, ok := mc.Fn.(*ssa.Function); ok && strings.HasSuffix(target.Name(), "$bound") {
						// the bound method itself
						for _, tb := range target.Blocks {
							for _, ti := range tb.Instrs {
								if tc, ok := ti.(ssa.CallInstruction); ok {
									if callee := tc.Common().StaticCallee(); callee != nil && inRw(callee) {
										callers[bodyOf(callee)] = append(callers[bodyOf(callee)], f)
									}
								}
							}
						}
					}
				}
			}
		}
	}
	// The file-level cursor callbacks are *discovered*: rewriteFile is evaluated abstractly (the pass
	// constructors inlined, the traversal astutil.Apply an event) and every function value the traversal is
	// given — directly, or captured by the forwarding closure — is a callback. Each is then driven over the node
	// kinds by K1: it may only edit the tree on a path where an API-membership predicate answered true.
	guarded := map[*ssa.Function]bool{}
	nodeKinds := []string{"FuncDecl", "FuncLit", "RangeStmt", "IndexExpr", "ExprStmt", "CallExpr", "Ident", "AssignStmt", "ReturnStmt", "ForStmt", "BlockStmt", "GenDecl", "ImportSpec", "CompositeLit", "SelectorExpr"}
	apiPredicates := []string{"isYieldFuncDecl", "isYieldFuncLit", "isIterator", "isYieldFromCall", "isYieldCall"}
	rf := r.method("rewriter", "rewriteFile")
	c.fn(relName(rf))
	din := r.interp(rwConfig{root: rf, boundaries: map[string]bool{"rewriteFile": false, "mkYieldFromRewriter": false, "mkYieldRewriter": false, "collectYieldFunc": true, "rewriteYieldFunc": true, "rewriteForRange": true, "rewriteYieldFrom": true}})
	din.MaxDepth, din.MaxVisits, din.SnapClosures = 10, 12, true
	din.Inline = func(f *ssa.Function) bool {
		// (a function that hands back a function value is a constructor of a pass, whatever it is called)
		makesCallback := false
		if res := f.Signature.Results(); res.Len() == 1 {
			_, makesCallback = res.At(0).Type().Underlying().(*types.Signature)
		}
		return inRw(f) && f.Name() != "collectYieldFunc" && (f == rf || f.Parent() == rf || strings.HasPrefix(f.Name(), "mk") || makesCallback || outermost(f) == rf || !reachesCursorMutator(f, 3))
	}
	r.setTestMode(din, false)
	douts := din.Run(nil, rf, []AV{Sym{Name: "r", NN: true}, Sym{Name: "f", NN: true}, Sym{Name: "printer", NN: true}}, nil)
	r.account(din)
	type cbVal struct {
		val Closure
		st  *State
	}
	var cbs []cbVal
	seenCb := map[*ssa.Function]bool{}
	for _, o := range douts {
		if o.Panicked || o.St.Truncated {
			continue
		}
		for _, e := range o.St.Events {
			if e.Kind != "call" || e.Fn == nil || e.Fn.Name() != "Apply" || !strings.Contains(fnPkgPath(e.Fn), "astutil") {
				continue
			}
			var vals []AV
			direct := map[*ssa.Function]bool{}
			for _, a := range e.Args {
				if cl, ok := a.(Closure); ok {
					vals = append(vals, cl)
					direct[cl.Fn] = true
				}
			}
			vals = append(vals, e.BoundVals...)
			for _, v := range vals {
				cl := v.(Closure)
				if cl.Fn == nil || !inRw(cl.Fn) || (outermost(cl.Fn) == rf && direct[cl.Fn]) || seenCb[cl.Fn] {
					continue // the forwarding closure of rewriteFile itself is not a pass (a literal it forwards to is)
				}
				seenCb[cl.Fn] = true
				cbs = append(cbs, cbVal{cl, o.St})
			}
		}
	}
	if len(cbs) < 3 {
		c.und("RW.MUTGUARD", "file-level callbacks", r.w.FnPos(rf), fmt.Sprintf("only %d traversal callbacks discovered in rewriteFile", len(cbs)))
	}
	for _, cb := range cbs {
		fn := cb.val.Fn
		c.fn(relName(fn))
		guarded[fn] = true
		// a bound method value: the method it forwards to is the guarded function
		if strings.HasSuffix(fn.Name(), "$bound") {
			for _, tb := range fn.Blocks {
				for _, ti := range tb.Instrs {
					if tc, ok := ti.(ssa.CallInstruction); ok {
						if callee := tc.Common().StaticCallee(); callee != nil && inRw(callee) {
							guarded[bodyOf(callee)] = true
						}
					}
				}
			}
		}
		bad := ""
		edits := 0
		for _, kind := range nodeKinds {
			firstBad := ""
			// a helper that asks the predicate itself (and answers nil for "not one of mine") is seen only when
			// it is evaluated with the callback: an unguarded edit behind a helper call is judged again, inlined
			for _, inlineHelpers := range []bool{false, true} {
				kindBad, kindEdits, viaHelper := "", 0, false
				in := r.interp(rwConfig{root: fn, boundaries: map[string]bool{"rewriteYieldFunc": !inlineHelpers, "rewriteForRange": !inlineHelpers, "rewriteYieldFrom": !inlineHelpers}})
				if inlineHelpers {
					in.MaxDepth = 12
				}
				r.setImportNames(in, "co", "")
				node := r.node(kind, "n")
				in.OnCall = wrapOnCall(in.OnCall, func(cc *CallCtx) []Answer {
					if cc.Fn != nil && cc.Fn.Name() == "Node" && cc.Fn.Signature.Recv() != nil && strings.Contains(cc.Fn.Signature.Recv().Type().String(), "astutil.Cursor") {
						return []Answer{{Ret: []AV{node}, NoEvent: true}}
					}
					return nil
				})
				r.setTestMode(in, false)
				base := cb.st.clone()
				mark := len(base.Events)
				nl := len(base.Labels)
				outs := in.Apply(base, cb.val, []AV{Sym{Name: "cursor", NN: true}, Sym{Name: "pkg", NN: true}})
				r.account(in)
				for _, o := range outs {
					if o.Panicked {
						continue
					}
					es := cursorEdits(o.St, mark)
					if len(es) == 0 {
						continue
					}
					kindEdits++
					ok := false
					for _, l := range o.St.Labels[nl:] {
						for _, p := range apiPredicates {
							if strings.HasPrefix(l, p+"(") && strings.HasSuffix(l, "=true") {
								ok = true
							}
						}
					}
					if !ok {
						kindBad = fmt.Sprintf("on a %s node the callback edits the tree (%s) on a path where no API-membership predicate answered true: %s", kind, es[0].Fn.Name(), pathSummary(o))
						for _, e := range o.St.Events[mark:] {
							if e.Kind == "call" && e.Fn != nil && inRw(e.Fn) && (e.Fn.Name() == "rewriteYieldFunc" || e.Fn.Name() == "rewriteForRange" || e.Fn.Name() == "rewriteYieldFrom") {
								viaHelper = true
							}
						}
					}
				}
				if kindBad != "" && viaHelper && !inlineHelpers {
					firstBad = kindBad
					continue // judged again with the helpers inlined
				}
				if inlineHelpers && kindEdits == 0 {
					kindBad, kindEdits = firstBad, 1 // the inlined evaluation reached no edit at all: the first verdict stands
				}
				edits += kindEdits
				if kindBad != "" {
					bad = kindBad
				}
				break
			}
		}
		name := strings.TrimSuffix(relName(fn), "$bound")
		if edits == 0 {
			// a pass that only collects (comments) edits nothing: fine, it is still a guarded entry point
			c.ok("RW.MUTGUARD", "callback "+name, r.w.FnPos(fn), "traversal callback discovered in rewriteFile; it does not edit the tree on any of the node kinds")
			continue
		}
		c.check(bad == "", "RW.MUTGUARD", "callback "+name, r.w.FnPos(fn),
			fmt.Sprintf("%d editing paths over %d node kinds: every edit happens under a generator / iterator-type / Yield-call predicate", edits, len(nodeKinds)), bad)
	}
	// optimiser callbacks: anchored by their own rules
	optOK := map[string]bool{"optimizeDelayCall": true, "etaReduction": true, "optimizeBindCall": true}
	gate := r.w.MethodOpt(pathRw, "yieldRewriter", "rewriteYieldFunc")
	// enumerate mutator call sites
	type site struct {
		fn  *ssa.Function
		pos string
		op  string
	}
	var sites []site
	for _, f := range fns {
		for _, b := range f.Blocks {
			for _, ins := range b.Instrs {
				if call, ok := ins.(ssa.CallInstruction); ok && isCursorMutator(call) {
					sites = append(sites, site{f, r.w.Pos(call.Pos()), call.Common().StaticCallee().Name()})
					c.CallSites++
				}
			}
		}
	}
	sort.Slice(sites, func(i, j int) bool { return sites[i].pos < sites[j].pos })
	seen := map[string]int{}
	for _, s := range sites {
		// walk up callers until a guarded callback, the gate, or an optimiser pass
		ok := false
		why := ""
		visited := map[*ssa.Function]bool{}
		var up func(f *ssa.Function) bool
		up = func(f *ssa.Function) bool {
			if visited[f] {
				return true
			}
			visited[f] = true
			if guarded[f] || f == gate || optOK[outermost(f).Name()] {
				return true
			}
			cs := callers[f]
			if len(cs) == 0 {
				why = "reachable from " + relName(f) + ", which is neither a guarded file-level callback nor behind rewriteYieldFunc"
				return false
			}
			for _, cf := range cs {
				if !up(cf) {
					return false
				}
			}
			return true
		}
		ok = up(s.fn)
		key := "Cursor." + s.op + " in " + relName(s.fn)
		seen[key]++
		if seen[key] > 1 {
			key = fmt.Sprintf("%s #%d", key, seen[key])
		}
		c.check(ok, "RW.MUTGUARD", key, s.pos, "only reachable through a guarded callback / rewriteYieldFunc / an optimiser pass with its own rule", "tree mutation outside the guarded entry points: "+why)
	}
	if len(sites) < 8 {
		c.und("RW.MUTGUARD", "mutator call sites", "", fmt.Sprintf("only %d Cursor mutator call sites found", len(sites)))
	}
}

// reachesCursorMutator: does fn (statically, within depth) call a mutator of astutil.Cursor?
func reachesCursorMutator(fn *ssa.Function, depth int) bool {
	fn = bodyOf(fn)
	if fn == nil || depth < 0 {
		return false
	}
	for _, b := range fn.Blocks {
		for _, ins := range b.Instrs {
			if call, ok := ins.(ssa.CallInstruction); ok {
				if isCursorMutator(call) {
					return true
				}
				if callee := call.Common().StaticCallee(); callee != nil && inRw(callee) && reachesCursorMutator(callee, depth-1) {
					return true
				}
			}
		}
	}
	for _, a := range fn.AnonFuncs {
		if reachesCursorMutator(a, depth-1) {
			return true
		}
	}
	return false
}
