package main

// RW.TMPL.COMBINESPLIT, RW.TMPL.IF, RW.TMPL.SWITCH, RW.BRANCHCTX.RMRET —
// templates of the statement lowerings themselves (property C01, C03).

import (
	"fmt"
	"strings"
)

// ruleTmplCombineSplit: combineIfNecessary on a concrete block [s0 (trivial), s1 (kind K)].
func (r *rwRT) ruleTmplCombineSplit() {
	c := r.c
	c.min("RW.TMPL.COMBINESPLIT", 4)
	fn := r.method("yieldRewriter", "combineIfNecessary")
	c.fn(relName(fn))
	pos := r.w.FnPos(fn)
	kinds := []string{"kindTrival", "kindIf", "kindSwitch", "kindYield", "kindCombine", "kindFor", "kindNormal"}
	for _, k := range kinds {
		for _, term := range []bool{false, true} {
			s0 := Dyn{T: r.astPtr("ExprStmt"), V: leafSym("s0")}
			s1 := Dyn{T: r.astPtr("ExprStmt"), V: leafSym("s1")}
			construct := fmt.Sprintf("last statement %s, terminating=%v", k, term)
			children, st, berr := r.buildBlock(newState(), r.kindConst("kindDelay"), []AV{s0, s1}, []AV{r.kindConst("kindTrival"), r.kindConst(k)})
			if berr != nil {
				c.und("RW.TMPL.COMBINESPLIT", construct, pos, berr.Error())
				continue
			}
			blk, _ := r.astBlockOf(st, children)
			if blk == nil {
				c.und("RW.TMPL.COMBINESPLIT", construct, pos, "the block built by mkBlock/push carries no go/ast block")
				continue
			}
			in := r.interp(rwConfig{root: fn, boundaries: map[string]bool{"combineIfNecessary": false, "generateLastNormalIfNecessary": false}})
			in.Fields["r.yieldAst.funRetParamTy"] = exprLeaf(r, "T")
			callNormal := Sym{Name: "callNormal", NN: true}
			in.Fields["r.yieldAst.callNormal"] = callNormal
			term := term
			in.OnCall = wrapOnCall(in.OnCall, func(cc *CallCtx) []Answer {
				if cc.Fn != nil && inRw(cc.Fn) && cc.Fn.Name() == "isTerminating" {
					return []Answer{{Ret: []AV{mkBool(term)}, NoEvent: true}}
				}
				return nil
			})
			outs := in.Run(st, fn, []AV{Sym{Name: "r", NN: true}, children}, nil)
			r.account(in)
			if len(outs) != 1 || outs[0].Panicked || len(outs[0].Ret) != 1 {
				c.bad("RW.TMPL.COMBINESPLIT", construct, pos, fmt.Sprintf("%d paths / panic", len(outs)))
				continue
			}
			o := outs[0]
			list := o.St.Obj(blk).Fields["List"]
			var err error
			if k == "kindTrival" {
				if !sameAV(o.Ret[0], children) {
					err = fmt.Errorf("a new block is opened although the last statement is trivial (a declaration could be separated from its uses)")
				} else {
					err = matchTmpl(o.St, list, lst(pVal{s0}, pVal{s1}))
				}
			} else {
				follow := o.St.Obj(o.Ret[0])
				followBlk, _ := r.astBlockOf(o.St, o.Ret[0])
				if follow == nil || followBlk == nil || sameAV(o.Ret[0], children) {
					err = fmt.Errorf("no fresh continuation block is returned")
				} else {
					first := []Pat{pVal{s1}}
					needsNormal := (k == "kindIf" || k == "kindSwitch") && !term
					if needsNormal {
						first = append(first, nd("ReturnStmt", map[string]Pat{"Results": lst(pVal{callNormal})}))
					}
					want := lst(pVal{s0}, nd("ReturnStmt", map[string]Pat{"Results": lst(seqCallPat("Combine",
						seqCallPat("Delay", thunkPat(nd("BlockStmt", map[string]Pat{"List": lst(first...)}))),
						seqCallPat("Delay", thunkPat(pVal{followBlk}))))}))
					err = matchTmpl(o.St, list, want)
					if err == nil && !blockHasConst(o.St, o.Ret[0], r.kindConst("kindDelay")) {
						err = fmt.Errorf("the continuation block is not a thunk-body block")
					}
				}
			}
			c.check(err == nil, "RW.TMPL.COMBINESPLIT", construct, pos,
				"trivial last statement: nothing moves; otherwise the last statement alone becomes the first half (closed with Normal iff it can fall through) and the statements that follow go to the second half, both as thunks, in order",
				fmt.Sprint("combine split: ", err), o.St.Render(list))
		}
	}
}

// ruleTmplStmts: shape of the lowered if / switch statements on yielding paths.
func (r *rwRT) ruleTmplStmts() {
	c := r.c
	c.min("RW.TMPL.IF", 4)
	c.min("RW.TMPL.SWITCH", 4)
	fn := r.method("yieldRewriter", "rewriteStmt")
	pos := r.w.FnPos(fn)
	run := func(shp *astInput) []Outcome {
		cfg := rwConfig{root: fn, blockOracles: true, boundaries: map[string]bool{
			"rewriteIfStmt": false, "rewriteSwitchStmt": false, "rewriteForStmt": false,
			"rewriteYieldCall": false, "combineIfNecessary": false, "generateLastNormalIfNecessary": false,
		}}
		in := r.interp(cfg)
		in.MaxRecur, in.MaxVisits, in.MaxDepth = 3, 4, 16
		outs := in.Run(shp.st.clone(), fn, []AV{Sym{Name: "r", NN: true}, shp.root, Sym{Name: "isLast"}, Sym{Name: "children", NN: true}}, nil)
		r.account(in)
		return outs
	}
	// emitted node of a given ast type on a path (pushed anywhere)
	emitted := func(o Outcome, typ string) []AV {
		var out []AV
		for _, e := range o.St.Events {
			if e.Kind == "call" && e.Fn != nil && inRw(e.Fn) && e.Fn.Name() == "push" && len(e.Args) >= 2 {
				if ob := o.St.Obj(unwrap(e.Args[1])); ob != nil && typeName(ob.T) == typ && !strings.HasPrefix(ob.Site, "input") {
					out = append(out, e.Args[1])
				}
			}
		}
		return out
	}
	retOf := func(o Outcome, argLeaf string, leaves map[string]leafInfo) string {
		for _, e := range o.St.Events {
			if e.Kind == "call" && e.Fn != nil && e.Fn.Name() == "rewriteBlockStmt" && len(e.Args) == 3 && e.Ret != nil {
				if reachSet(o.St, e.Args[1], leaves)[argLeaf] {
					return argLabel(e.Ret)
				}
			}
		}
		return ""
	}
	for _, shp := range r.shapes("IfStmt") {
		checked := 0
		var err error
		for _, o := range run(shp) {
			if o.Panicked || o.St.Truncated {
				continue
			}
			for _, n := range emitted(o, "IfStmt") {
				checked++
				body := retOf(o, "stmt.Body.List", shp.leaves)
				f := map[string]Pat{"Cond": pLeaf{"stmt.Cond"}, "Body": pLeaf{body + ".block"}}
				if _, has := shp.leaves["stmt.Init"]; has {
					f["Init"] = pLeaf{"stmt.Init"}
				}
				switch {
				case strings.Contains(shp.desc, "else=none"):
				case strings.Contains(shp.desc, "else=block"):
					els := retOf(o, "stmt.Else.List", shp.leaves)
					// a rewritten else block holding a single if is merged into an else-if
					f["Else"] = pAny{}
					if e2 := matchTmpl(o.St, n, ndOpen("IfStmt", f)); e2 == nil {
						ob := o.St.Obj(unwrap(n))
						elseR := epochRe.ReplaceAllString(o.St.Render(ob.Fields["Else"]), "")
						whole := "⟨" + els + ".block⟩"
						if elseR != whole {
							// merged into an else-if: only admissible when the rewritten else block consists of exactly that one statement
							single := false
							for _, l := range o.St.Labels {
								ll := epochRe.ReplaceAllString(l, "")
								if strings.HasPrefix(ll, "==(len(⟨"+els+".block.List⟩), 1)") && strings.HasSuffix(ll, "=true") {
									single = true
								}
							}
							if !strings.Contains(elseR, els+".block") || !single {
								err = fmt.Errorf("%s: the else branch of the lowered if is neither the rewritten else block nor its single statement (statements of the else block are dropped): %s", shp.desc, elseR)
							}
						}
					}
				case strings.Contains(shp.desc, "else=elseif"):
					f["Else"] = pAny{}
				}
				if e2 := matchTmpl(o.St, n, ndOpen("IfStmt", f)); e2 != nil && err == nil {
					err = fmt.Errorf("%s: %v", shp.desc, e2)
				}
				if strings.Contains(shp.desc, "else=elseif") && err == nil {
					// the else-if link keeps its own condition and init
					ob := o.St.Obj(unwrap(n))
					rendered := o.St.Render(ob.Fields["Else"])
					if strings.Contains(rendered, "IfStmt") && !(strings.Contains(rendered, "⟨stmt.Else.Cond⟩") && strings.Contains(rendered, "⟨stmt.Else.Init⟩")) {
						err = fmt.Errorf("%s: the else-if link lost its own condition/initialiser: %s", shp.desc, rendered)
					}
				}
			}
		}
		if checked == 0 {
			continue
		}
		c.check(err == nil, "RW.TMPL.IF", shp.desc, pos, fmt.Sprintf("%d lowered if statements: own init and condition in place, then-branch = the rewritten body, else-branch = the rewritten else / else-if link", checked), fmt.Sprint(err))
	}
	for _, kind := range []string{"SwitchStmt", "TypeSwitchStmt"} {
		for _, shp := range r.shapes(kind) {
			checked := 0
			var err, errGuard error
			for _, o := range run(shp) {
				if o.Panicked || o.St.Truncated {
					continue
				}
				for _, n := range emitted(o, kind) {
					ob := o.St.Obj(unwrap(n))
					bodyObj := o.St.Obj(unwrap(ob.Fields["Body"]))
					if bodyObj == nil {
						continue
					}
					lv, _ := bodyObj.Fields["List"].(SliceV)
					if strings.HasPrefix(bodyObj.Site, "input") {
						continue // the original body re-used (all cases trivial)
					}
					if len(lv.Elems) != 2 {
						checked++
						if err == nil {
							err = fmt.Errorf("%s: the rebuilt switch has %d clause(s), the source has 2 (a clause is dropped: its values fall through to default or to a later clause)", shp.desc, len(lv.Elems))
						}
						continue
					}
					c0o, c1o := o.St.Obj(unwrap(lv.Elems[0])), o.St.Obj(unwrap(lv.Elems[1]))
					if c0o == nil {
						continue
					}
					checked++
					r0 := retOf(o, "case0.Body", shp.leaves)
					r1 := retOf(o, "case1.Body", shp.leaves)
					want := lst(
						nd("CaseClause", map[string]Pat{"List": pLeaf{"case0.List"}, "Body": pLeaf{r0 + ".block.List"}}),
						nd("CaseClause", map[string]Pat{"Body": pLeaf{r1 + ".block.List"}}),
					)
					if e2 := matchTmpl(o.St, bodyObj.Fields["List"], want); e2 != nil && err == nil {
						err = fmt.Errorf("%s: clauses: %v", shp.desc, e2)
					}
					_ = c1o
					// tag / assign in place
					if kind == "SwitchStmt" {
						if _, has := shp.leaves["stmt.Tag"]; has {
							if e2 := matchTmpl(o.St, ob.Fields["Tag"], pLeaf{"stmt.Tag"}); e2 != nil && errGuard == nil {
								errGuard = fmt.Errorf("%s: %v", shp.desc, e2)
							}
						} else if !isNilLike(ob.Fields["Tag"]) && errGuard == nil {
							errGuard = fmt.Errorf("%s: a tag appears on a tag-less switch", shp.desc)
						}
					} else if e2 := matchTmpl(o.St, ob.Fields["Assign"], pLeaf{"stmt.Assign"}); e2 != nil && errGuard == nil {
						errGuard = fmt.Errorf("%s: the guard of the type switch is not the source's (a dropped `v :=` binding lets v in the clauses resolve to an outer variable): %v", shp.desc, e2)
					}
				}
			}
			if checked == 0 {
				continue
			}
			c.check(err == nil, "RW.TMPL.SWITCH", shp.desc, pos, fmt.Sprintf("%d lowered switches: clauses in source order with their own expression lists (default stays default) and their rewritten bodies", checked), fmt.Sprint(err))
			c.check(errGuard == nil, "RW.TMPL.SWITCH.GUARD", shp.desc, pos, fmt.Sprintf("%d lowered switches keep the source's tag / type-switch guard (with its binding) in place", checked), fmt.Sprint(errGuard))
		}
	}
}
