package main

// RW.TERM / RW.EXH / RW.KINDTAB
//
// RW.TERM: the rewriter's termination checker (a cropped copy of
// go/types/return.go) decides whether an implicit `return Normal()` is needed.
// It is evaluated by K1 — fully inlined, on concrete small ASTs in the abstract
// heap, so every answer is a constant — for an enumerated family of statement
// shapes (all leaves × all composites, two levels deep) and compared with an
// independent reference written from the Go specification ("Terminating
// statements"). An over-approximation makes generated thunks lack a return
// ("missing return"); RW.EXH: the checker must not panic on any statement of
// the supported subset (e.g. on an ordinary unlabelled break).
//
// RW.KINDTAB: the decision tables of block.combineRequired /
// returnNormalRequired / mayContainsYield over (last kind × length × answer of
// the termination oracle), against the wording of property C01.

import (
	"fmt"
	"go/types"
	"strings"

	"golang.org/x/tools/go/ssa"
)

type shape struct {
	K       string // return panic expr break continue fallthrough empty | block if for switch labeled select
	Kids    []*shape
	Cond    bool // for: has condition
	Default bool // switch: second clause is default
}

func (s *shape) String() string {
	switch s.K {
	case "block":
		var xs []string
		for _, k := range s.Kids {
			xs = append(xs, k.String())
		}
		return "{" + strings.Join(xs, "; ") + "}"
	case "if":
		if len(s.Kids) == 2 {
			return "if c {" + s.Kids[0].String() + "} else {" + s.Kids[1].String() + "}"
		}
		return "if c {" + s.Kids[0].String() + "}"
	case "for":
		c := ""
		if s.Cond {
			c = " c"
		}
		return "for" + c + " {" + s.Kids[0].String() + "}"
	case "switch", "typeswitch":
		d := "case 2"
		if s.Default {
			d = "default"
		}
		if s.K == "typeswitch" {
			return "switch x.(type) {case A: " + s.Kids[0].String() + "; " + d + ": " + s.Kids[1].String() + "}"
		}
		return "switch x {case 1: " + s.Kids[0].String() + "; " + d + ": " + s.Kids[1].String() + "}"
	case "labeled":
		return "L: " + s.Kids[0].String()
	case "select":
		return "select {case <-c: " + s.Kids[0].String() + "}"
	}
	return s.K
}

// ---- reference: Go spec, "Terminating statements" (labels cropped as in the implementation)

func refHasBreak(s *shape) bool {
	switch s.K {
	case "break":
		return true
	case "block", "if", "labeled":
		for _, k := range s.Kids {
			if refHasBreak(k) {
				return true
			}
		}
	}
	// for / switch / select: a break inside refers to them, not to the outer statement
	return false
}

func refListTerminating(list []*shape) bool {
	for i := len(list) - 1; i >= 0; i-- {
		if list[i].K != "empty" {
			return refTerminating(list[i])
		}
	}
	return false
}

func flatten(s *shape) []*shape {
	if s.K == "block" {
		return s.Kids
	}
	return []*shape{s}
}

func refTerminating(s *shape) bool {
	switch s.K {
	case "return", "panic", "fallthrough":
		return true
	case "block":
		return refListTerminating(s.Kids)
	case "if":
		return len(s.Kids) == 2 && refListTerminating(flatten(s.Kids[0])) && refTerminating(s.Kids[1])
	case "for":
		return !s.Cond && !refHasBreak(s.Kids[0])
	case "switch", "typeswitch":
		if !s.Default {
			return false
		}
		for _, k := range s.Kids {
			if !refListTerminating(flatten(k)) || refHasBreak(k) {
				return false
			}
		}
		return true
	case "select":
		for _, k := range s.Kids {
			if !refListTerminating(flatten(k)) || refHasBreak(k) {
				return false
			}
		}
		return true
	case "labeled":
		return refTerminating(s.Kids[0])
	}
	return false
}

// ---- abstract AST construction

type shapeBuilder struct {
	r          *rwRT
	st         *State
	panics     map[string]AV
	panicCalls []AV // the call nodes themselves, in source order
}

func (b *shapeBuilder) node(kind string, f map[string]AV) AV {
	t := b.r.astPtr(kind)
	ref := b.st.alloc(&Obj{T: t.(*types.Pointer).Elem(), Kind: 's', Fields: f})
	return Dyn{T: t, V: ref}
}

func (b *shapeBuilder) list(s *shape) AV {
	var el []AV
	for _, k := range flatten(s) {
		el = append(el, b.build(k))
	}
	return SliceV{Elems: el}
}

func (b *shapeBuilder) blockPtr(s *shape) AV {
	return b.node("BlockStmt", map[string]AV{"List": b.list(s)}).(Dyn).V
}

func (b *shapeBuilder) build(s *shape) AV {
	r := b.r
	switch s.K {
	case "return":
		return b.node("ReturnStmt", map[string]AV{})
	case "panic", "expr":
		call := b.node("CallExpr", map[string]AV{"Fun": b.node("Ident", map[string]AV{"Name": mkString(s.K)})})
		if s.K == "panic" {
			b.panics[call.(Dyn).V.String()] = mkBool(true)
			b.panicCalls = append(b.panicCalls, call)
		}
		return b.node("ExprStmt", map[string]AV{"X": call})
	case "break":
		return b.node("BranchStmt", map[string]AV{"Tok": r.tokConst("BREAK"), "Label": Nil{}})
	case "continue":
		return b.node("BranchStmt", map[string]AV{"Tok": r.tokConst("CONTINUE"), "Label": Nil{}})
	case "fallthrough":
		return b.node("BranchStmt", map[string]AV{"Tok": r.tokConst("FALLTHROUGH"), "Label": Nil{}})
	case "empty":
		return b.node("EmptyStmt", map[string]AV{})
	case "block":
		return b.node("BlockStmt", map[string]AV{"List": b.list(s)})
	case "if":
		f := map[string]AV{"Init": Nil{}, "Cond": b.node("Ident", map[string]AV{"Name": mkString("c")}), "Body": b.blockPtr(s.Kids[0]), "Else": Nil{}}
		if len(s.Kids) == 2 {
			e := s.Kids[1]
			if e.K != "block" && e.K != "if" {
				e = &shape{K: "block", Kids: []*shape{e}}
			}
			f["Else"] = b.build(e)
		}
		return b.node("IfStmt", f)
	case "for":
		var cond AV = Nil{}
		if s.Cond {
			cond = b.node("Ident", map[string]AV{"Name": mkString("c")})
		}
		return b.node("ForStmt", map[string]AV{"Init": Nil{}, "Cond": cond, "Post": Nil{}, "Body": b.blockPtr(s.Kids[0])})
	case "switch", "typeswitch":
		c0 := b.node("CaseClause", map[string]AV{"List": SliceV{Elems: []AV{b.node("Ident", map[string]AV{"Name": mkString("one")})}}, "Body": b.list(s.Kids[0])})
		var l1 AV = SliceV{Elems: []AV{b.node("Ident", map[string]AV{"Name": mkString("two")})}}
		if s.Default {
			l1 = Nil{}
		}
		c1 := b.node("CaseClause", map[string]AV{"List": l1, "Body": b.list(s.Kids[1])})
		body := b.node("BlockStmt", map[string]AV{"List": SliceV{Elems: []AV{c0, c1}}}).(Dyn).V
		if s.K == "typeswitch" {
			return b.node("TypeSwitchStmt", map[string]AV{"Init": Nil{}, "Assign": b.node("ExprStmt", map[string]AV{"X": b.node("Ident", map[string]AV{"Name": mkString("x")})}), "Body": body})
		}
		return b.node("SwitchStmt", map[string]AV{"Init": Nil{}, "Tag": b.node("Ident", map[string]AV{"Name": mkString("x")}), "Body": body})
	case "select":
		cc := b.node("CommClause", map[string]AV{"Comm": Nil{}, "Body": b.list(s.Kids[0])})
		body := b.node("BlockStmt", map[string]AV{"List": SliceV{Elems: []AV{cc}}}).(Dyn).V
		return b.node("SelectStmt", map[string]AV{"Body": body})
	case "labeled":
		return b.node("LabeledStmt", map[string]AV{"Label": b.node("Ident", map[string]AV{"Name": mkString("L")}).(Dyn).V, "Stmt": b.build(s.Kids[0])})
	}
	if strings.HasPrefix(s.K, "simple:") {
		// statements without control flow of their own (a declaration, a send, i++, an assignment, go f(), a
		// native range loop): never terminating, never a break — but the checker must have an answer for them
		kind := strings.TrimPrefix(s.K, "simple:")
		id := func(n string) AV { return b.node("Ident", map[string]AV{"Name": mkString(n)}) }
		f := map[string]AV{} // well-formed nodes: the children the parser always provides are there
		switch kind {
		case "RangeStmt":
			f["Body"] = b.blockPtr(&shape{K: "block", Kids: []*shape{{K: "expr"}}})
			f["Key"], f["Value"], f["X"] = Nil{}, Nil{}, id("xs")
		case "DeclStmt":
			f["Decl"] = b.node("GenDecl", map[string]AV{"Tok": r.tokConst("VAR"), "Specs": SliceV{}})
		case "SendStmt":
			f["Chan"], f["Value"] = id("ch"), id("v")
		case "IncDecStmt":
			f["X"], f["Tok"] = id("i"), r.tokConst("INC")
		case "AssignStmt":
			f["Lhs"], f["Rhs"], f["Tok"] = SliceV{Elems: []AV{id("a")}}, SliceV{Elems: []AV{id("b")}}, r.tokConst("ASSIGN")
		case "GoStmt":
			f["Call"] = b.node("CallExpr", map[string]AV{"Fun": id("f")}).(Dyn).V
		}
		return b.node(kind, f)
	}
	panic("unknown shape " + s.K)
}

var termDeep = false

func termShapes() []*shape {
	leaves := []*shape{{K: "return"}, {K: "panic"}, {K: "expr"}, {K: "break"}, {K: "continue"}, {K: "fallthrough"}, {K: "empty"}}
	var l1 []*shape
	comp := func(kids []*shape) []*shape {
		var out []*shape
		for _, a := range kids {
			out = append(out, &shape{K: "block", Kids: []*shape{a}})
			out = append(out, &shape{K: "if", Kids: []*shape{a}})
			out = append(out, &shape{K: "for", Kids: []*shape{a}})
			out = append(out, &shape{K: "for", Cond: true, Kids: []*shape{a}})
			out = append(out, &shape{K: "labeled", Kids: []*shape{a}})
			out = append(out, &shape{K: "select", Kids: []*shape{a}})
		}
		return out
	}
	l1 = append(l1, comp(leaves)...)
	for _, a := range leaves {
		for _, b := range leaves {
			l1 = append(l1, &shape{K: "block", Kids: []*shape{a, b}})
			l1 = append(l1, &shape{K: "if", Kids: []*shape{a, b}})
			l1 = append(l1, &shape{K: "switch", Default: true, Kids: []*shape{a, b}})
			l1 = append(l1, &shape{K: "switch", Default: false, Kids: []*shape{a, b}})
		}
	}
	all := append([]*shape{}, leaves...)
	all = append(all, l1...)
	// level 2: one composite child
	ret := &shape{K: "return"}
	for _, x := range l1 {
		all = append(all,
			&shape{K: "block", Kids: []*shape{x}},
			&shape{K: "block", Kids: []*shape{{K: "expr"}, x}},
			&shape{K: "if", Kids: []*shape{x, ret}},
			&shape{K: "if", Kids: []*shape{ret, x}},
			&shape{K: "for", Kids: []*shape{x}},
			&shape{K: "switch", Default: true, Kids: []*shape{x, ret}},
			&shape{K: "labeled", Kids: []*shape{x}},
			&shape{K: "select", Kids: []*shape{x}},
		)
	}
	// else-if chains (their tails are statements, not blocks) inside the constructs whose verdict depends on a break
	ex := &shape{K: "expr"}
	for _, a := range leaves {
		chain2 := &shape{K: "if", Kids: []*shape{ex, {K: "if", Kids: []*shape{a}}}}
		chain3 := &shape{K: "if", Kids: []*shape{ex, {K: "if", Kids: []*shape{ex, a}}}}
		chain4 := &shape{K: "if", Kids: []*shape{ret, {K: "if", Kids: []*shape{ret, {K: "if", Kids: []*shape{a, ret}}}}}}
		for _, ch := range []*shape{chain2, chain3, chain4} {
			all = append(all,
				ch,
				&shape{K: "for", Kids: []*shape{ch}},
				&shape{K: "for", Kids: []*shape{{K: "block", Kids: []*shape{ch, ex}}}},
				&shape{K: "switch", Default: true, Kids: []*shape{ch, ret}},
				&shape{K: "switch", Default: true, Kids: []*shape{{K: "block", Kids: []*shape{ch, ret}}, ret}},
				&shape{K: "select", Kids: []*shape{{K: "block", Kids: []*shape{ch, ret}}}},
			)
		}
	}
	// type switches are switches for this purpose (a break inside refers to them)
	for _, a := range []*shape{{K: "return"}, {K: "expr"}, {K: "break"}, {K: "panic"}} {
		for _, d := range []bool{true, false} {
			ts := &shape{K: "typeswitch", Default: d, Kids: []*shape{a, ret}}
			all = append(all, ts, &shape{K: "for", Kids: []*shape{ts}}, &shape{K: "block", Kids: []*shape{ex, ts}}, &shape{K: "if", Kids: []*shape{ts, ret}})
		}
	}
	// every other statement kind a generator body may contain, in the positions the checker looks at
	for _, kind := range []string{"DeclStmt", "SendStmt", "IncDecStmt", "AssignStmt", "GoStmt", "RangeStmt"} {
		x := &shape{K: "simple:" + kind}
		all = append(all,
			x,
			&shape{K: "block", Kids: []*shape{ex, x}},
			&shape{K: "if", Kids: []*shape{x, ret}},
			&shape{K: "for", Kids: []*shape{x}},
			&shape{K: "for", Kids: []*shape{{K: "block", Kids: []*shape{x, ex}}}},
			&shape{K: "switch", Default: true, Kids: []*shape{x, ret}},
			&shape{K: "select", Kids: []*shape{x}},
		)
	}
	if termDeep {
		// level 3: wrap every level-2 shape once more in each composite that affects termination
		n := len(all)
		for _, x := range all[len(leaves)+len(l1) : n] {
			all = append(all,
				&shape{K: "block", Kids: []*shape{x}},
				&shape{K: "if", Kids: []*shape{x, ret}},
				&shape{K: "for", Kids: []*shape{x}},
				&shape{K: "switch", Default: true, Kids: []*shape{x, ret}},
			)
		}
	}
	return all
}

func (r *rwRT) ruleTerm() {
	c := r.c
	c.min("RW.TERM", 2)
	c.min("RW.EXH", 1)
	fn := r.w.MethodOpt(pathRw, "terminationChecker", "isTerminating")
	// the checker as an object of its own with a constructor — or, when it is organised otherwise (plain functions
	// taking the set of panic call sites, …), whatever the rewriter's own entry point isTerminating(stmt) does: it is
	// then evaluated from there, with the matcher's search for calls of the predeclared panic answered by the
	// shape's panic call sites
	viaEntry := fn == nil || r.w.FuncOpt(pathRw, "mkTerminationChecker") == nil
	if viaEntry {
		fn = r.w.MethodOpt(pathRw, "yieldRewriter", "isTerminating")
		if fn == nil {
			undecided("neither terminationChecker.isTerminating nor yieldRewriter.isTerminating found")
		}
	}
	c.fn(relName(fn))
	pos := r.w.FnPos(fn)
	shapes := termShapes()
	over, panicsOnSupported, under := 0, 0, 0
	var overEx, panicEx, underEx []string
	evaluated := 0
	for _, sh := range shapes {
		b := &shapeBuilder{r: r, st: newState(), panics: map[string]AV{}}
		root := b.build(sh)
		// The checker is built by its own constructor from "which calls are calls of the predeclared panic":
		// a set of call sites, or a predicate over call sites — whichever the constructor takes.
		if viaEntry {
			calls := b.panicCalls
			in := r.interp(rwConfig{root: fn, inlineAll: true, astWalk: true, noOracles: true})
			in.MaxDepth, in.MaxRecur, in.MaxVisits = 40, 12, 64
			prev := in.OnCall
			in.OnCall = func(cc *CallCtx) []Answer {
				if cc.Fn != nil && cc.Fn.Name() == "Unparen" && len(cc.Args) == 1 {
					return []Answer{{Ret: []AV{cc.Args[0]}, NoEvent: true}}
				}
				// m.Match(pkg, <calls of the predeclared panic>, stmt, callback): the callback sees every panic call site
				if (cc.Method == "Match" || cc.Fn != nil && cc.Fn.Name() == "Match") && len(cc.Args) >= 1 {
					if cl, ok := cc.Args[len(cc.Args)-1].(Closure); ok {
						var inv []Invocation
						for i := range calls {
							inv = append(inv, Invocation{Fn: cl, Args: []AV{Sym{Name: fmt.Sprintf("matchcursor:%d", i), NN: true}, Sym{Name: "matchctx", NN: true}}})
						}
						return []Answer{{Invoke: inv, NoEvent: true}}
					}
				}
				if cc.Fn != nil && cc.Fn.Name() == "Node" && len(cc.Args) == 1 {
					if sy, ok := cc.Args[0].(Sym); ok && strings.HasPrefix(sy.Name, "matchcursor:") {
						var i int
						fmt.Sscanf(strings.TrimPrefix(sy.Name, "matchcursor:"), "%d", &i)
						if i < len(calls) {
							return []Answer{{Ret: []AV{calls[i]}, NoEvent: true}}
						}
					}
				}
				if prev != nil {
					return prev(cc)
				}
				return nil
			}
			outs := in.Run(b.st, fn, []AV{Sym{Name: "r", NN: true}, root}, nil)
			r.account(in)
			evaluated++
			r.judgeTerm(sh, outs, pos, &over, &under, &panicsOnSupported, &overEx, &underEx, &panicEx)
			continue
		}
		mkChk := r.w.FuncOpt(pathRw, "mkTerminationChecker")
		if mkChk == nil || mkChk.Signature.Params().Len() != 1 {
			undecided("constructor mkTerminationChecker(<panic call sites>) not found")
		}
		var sitesArg AV
		switch mkChk.Signature.Params().At(0).Type().Underlying().(type) {
		case *types.Map:
			sitesArg = MapV{M: b.panics}
		case *types.Signature:
			sitesArg = Sym{Name: "isPanicCall", NN: true}
		default:
			undecided("mkTerminationChecker takes neither a set of call sites nor a predicate over them")
		}
		panics := b.panics
		oracle := func(prev func(cc *CallCtx) []Answer) func(cc *CallCtx) []Answer {
			return func(cc *CallCtx) []Answer {
				if cc.Fn != nil && cc.Fn.Name() == "Unparen" && len(cc.Args) == 1 {
					return []Answer{{Ret: []AV{cc.Args[0]}, NoEvent: true}}
				}
				if isSymNamed(cc.Callee, "isPanicCall") && len(cc.Args) == 1 {
					_, is := panics[unwrap(cc.Args[0]).String()]
					return []Answer{{Ret: []AV{mkBool(is)}, NoEvent: true}}
				}
				return prev(cc)
			}
		}
		inC := r.interp(rwConfig{root: mkChk, inlineAll: true})
		inC.OnCall = oracle(inC.OnCall)
		co := inC.Run(b.st, mkChk, []AV{sitesArg}, nil)
		r.account(inC)
		if len(co) != 1 || co[0].Panicked || len(co[0].Ret) != 1 {
			undecided("mkTerminationChecker is not a single straight-line construction")
		}
		chk := co[0].Ret[0]
		in := r.interp(rwConfig{root: fn, inlineAll: true, astWalk: true})
		in.MaxDepth = 40
		in.MaxRecur = 12
		in.MaxVisits = 64 // a work-list loop over the statements of a shape
		in.OnCall = oracle(in.OnCall)
		outs := in.Run(co[0].St, fn, []AV{chk, root}, nil)
		r.account(in)
		evaluated++
		r.judgeTerm(sh, outs, pos, &over, &under, &panicsOnSupported, &overEx, &underEx, &panicEx)
	}
	c.check(over == 0, "RW.TERM", "no over-approximation of 'terminating'", pos,
		fmt.Sprintf("%d statement shapes: whenever the checker says terminating, the Go spec agrees (so no thunk loses its final return)", evaluated),
		fmt.Sprintf("%d shape(s) are judged terminating although the Go spec says they are not (the generated thunk would lack its final return: 'missing return'), e.g.: %s", over, strings.Join(overEx, " | ")), overEx...)
	c.check(panicsOnSupported == 0, "RW.EXH", "termination checker total on the supported subset", pos,
		fmt.Sprintf("%d shapes built from return/panic/expr/unlabelled break/continue/fallthrough/empty, block/if/for/switch/select/labeled: none makes the checker panic", evaluated),
		fmt.Sprintf("the termination checker panics on %d shape(s) of ordinary statements, e.g.: %s", panicsOnSupported, strings.Join(panicEx, " | ")), panicEx...)
	// under-approximation only costs a redundant return; a wholesale loss of precision is still reported
	c.check(under*4 < evaluated, "RW.TERM", "precision", pos,
		fmt.Sprintf("%d of %d shapes judged non-terminating although the spec says terminating (harmless: a redundant return)", under, evaluated),
		fmt.Sprintf("%d of %d terminating shapes are no longer recognised, e.g. %s", under, evaluated, strings.Join(underEx, " | ")))
}


// judgeTerm compares the checker's answer for one concrete shape with the Go specification's.
func (r *rwRT) judgeTerm(sh *shape, outs []Outcome, pos string, over, under, panicsOnSupported *int, overEx, underEx, panicEx *[]string) {
	c := r.c
	want := refTerminating(sh)
	if len(outs) != 1 {
		why := fmt.Sprintf("%d abstract paths for a concrete shape", len(outs))
		if len(outs) >= 2 {
			why += ": " + pathSummary(outs[0]) + " || " + pathSummary(outs[1])
		}
		c.und("RW.TERM", "shape "+sh.String(), pos, why)
		return
	}
	o := outs[0]
	if o.Panicked {
		*panicsOnSupported++
		if len(*panicEx) < 4 {
			note := ""
			for _, e := range o.St.Events {
				if e.Kind == "panic" {
					note = e.Note
				}
			}
			*panicEx = append(*panicEx, sh.String()+"  -> panic "+note)
		}
		return
	}
	got, known := asBool(o.Ret[0])
	if !known {
		c.und("RW.TERM", "shape "+sh.String(), pos, "result is not a constant: "+o.Ret[0].String())
		return
	}
	if got && !want {
		*over++
		if len(*overEx) < 4 {
			*overEx = append(*overEx, sh.String())
		}
	}
	if !got && want {
		*under++
		if len(*underEx) < 4 {
			*underEx = append(*underEx, sh.String())
		}
	}
}

// ------------------------------------------------------------------ RW.KINDTAB

func (r *rwRT) kindConst(name string) AV {
	obj, ok := r.w.Pkgs[pathRw].Types.Scope().Lookup(name).(*types.Const)
	if !ok {
		undecided("constant rewriter.%s not found", name)
	}
	return Const{obj.Val()}
}

// ruleBlockInvariant backs the assumption K1 uses for package rewriter: a
// *block is only allocated by one constructor, which always gives it an AST block.
func (r *rwRT) ruleBlockInvariant() {
	c := r.c
	var sites []string
	okCtor := true
	for _, f := range r.w.FuncsOf(pathRw) {
		for _, b := range f.Blocks {
			for _, ins := range b.Instrs {
				al, ok := ins.(*ssa.Alloc)
				if !ok {
					continue
				}
				if nt, ok := al.Type().Underlying().(*types.Pointer).Elem().(*types.Named); ok && nt.Obj().Name() == "block" && nt.Obj().Pkg().Path() == pathRw {
					sites = append(sites, relName(f))
					// the field named block must be stored with a fresh value in the same function
					stored := false
					for _, ref := range *al.Referrers() {
						if fa, ok := ref.(*ssa.FieldAddr); ok && fieldName(fa.X.Type(), fa.Field) == "block" {
							for _, r2 := range *fa.Referrers() {
								if st, ok := r2.(*ssa.Store); ok {
									if call, ok := st.Val.(*ssa.Call); ok && call.Call.StaticCallee() != nil && neverNil(call.Call.StaticCallee(), 0) {
										stored = true
									}
									if _, ok := st.Val.(*ssa.Alloc); ok {
										stored = true
									}
								}
							}
						}
					}
					if !stored {
						okCtor = false
					}
				}
			}
		}
	}
	c.check(len(sites) >= 1 && okCtor, "RW.INV.BLOCK", "every block carries an AST block", "", "block objects are allocated in "+strings.Join(sites, ", ")+" with a freshly built AST block (the analysis relies on block.block != nil)", "a block object is allocated without an AST block: the non-nil assumption of the analysis does not hold ("+strings.Join(sites, ", ")+")")
}

func (r *rwRT) ruleKindTab() {
	c := r.c
	r.ruleBlockInvariant()
	c.min("RW.KINDTAB", 3)
	names := []string{"kindTrival", "kindDelay", "kindIf", "kindSwitch", "kindNormal", "kindYield", "kindCombine", "kindFor"}
	kinds := map[string]AV{}
	for _, n := range names {
		kinds[n] = r.kindConst(n)
	}
	inList := []string{"kindTrival", "kindIf", "kindSwitch", "kindNormal", "kindYield", "kindCombine", "kindFor"} // kindDelay never appears in a list
	returning := map[string]bool{"kindNormal": true, "kindYield": true, "kindCombine": true, "kindFor": true}
	yielding := map[string]bool{"kindIf": true, "kindSwitch": true, "kindYield": true, "kindCombine": true, "kindFor": true}
	// blocks are built through the package's own API (mkBlock, markCombined, push)
	mkBlockObj := func(bk string, ks []string) (AV, *State) {
		var stmts, kk []AV
		for i, k := range ks {
			stmts = append(stmts, Dyn{T: r.astPtr("ExprStmt"), V: Sym{Name: fmt.Sprintf("s%d", i), NN: true}})
			kk = append(kk, kinds[k])
		}
		b, st, err := r.buildBlock(newState(), kinds[bk], stmts, kk)
		if err != nil {
			undecided("cannot build a block of kinds %v: %v", ks, err)
		}
		return b, st
	}
	run := func(method string, bk string, ks []string) (AV, bool) {
		fn := r.method("block", method)
		c.fn(relName(fn))
		recv, st := mkBlockObj(bk, ks)
		in := r.interp(rwConfig{root: fn, inlineAll: true})
		in.MaxVisits = 64 // a work-list loop over the statements of a shape
		outs := in.Run(st, fn, []AV{recv}, nil)
		r.account(in)
		if len(outs) != 1 {
			return nil, false
		}
		if outs[0].Panicked {
			return Sym{Name: "PANIC"}, true
		}
		if len(outs[0].Ret) != 1 || outs[0].St.Truncated {
			return nil, false
		}
		return outs[0].Ret[0], true
	}
	var lists [][]string
	lists = append(lists, nil)
	for _, a := range inList {
		lists = append(lists, []string{a})
		for _, b := range inList {
			// a return-built statement freezes the block: it can only be the last one
			if !returning[b] {
				lists = append(lists, []string{b, a})
				for _, d := range inList {
					if !returning[d] {
						lists = append(lists, []string{d, b, a})
					}
				}
			}
		}
	}
	// combineRequired: iff non-empty and last statement non-trivial
	bad := 0
	var ex []string
	for _, ks := range lists {
		got, ok := run("combineRequired", "kindDelay", ks)
		want := len(ks) > 0 && ks[len(ks)-1] != "kindTrival"
		if b, known := asBool(got); !ok || !known || b != want {
			bad++
			ex = append(ex, fmt.Sprintf("kinds=%v: got %v want %v", ks, got, want))
		}
	}
	c.check(bad == 0, "RW.KINDTAB", "combineRequired", r.w.FnPos(r.method("block", "combineRequired")),
		fmt.Sprintf("%d kind lists: statements after a block are moved to the second half of a Combine iff the block is non-empty and its last statement is non-trivial (a declaration is never separated from its uses)", len(lists)),
		"combine decision differs from 'last statement non-trivial': "+strings.Join(ex, " | "))
	// mayContainsYield: iff some statement is a yield-bearing kind
	bad, ex = 0, nil
	for _, ks := range lists {
		got, ok := run("mayContainsYield", "kindDelay", ks)
		want := false
		for _, k := range ks {
			if yielding[k] {
				want = true
			}
		}
		if b, known := asBool(got); !ok || !known || b != want {
			bad++
			if len(ex) < 5 {
				ex = append(ex, fmt.Sprintf("kinds=%v: got %v want %v", ks, got, want))
			}
		}
	}
	c.check(bad == 0, "RW.KINDTAB", "mayContainsYield", r.w.FnPos(r.method("block", "mayContainsYield")),
		fmt.Sprintf("%d kind lists: a block is treated as yield-free iff none of its statements is of a yield-bearing kind (if/switch/yield/combine/for)", len(lists)),
		"yield-freeness of blocks differs from 'no statement of a yield-bearing kind': "+strings.Join(ex, " | "))
	// returnNormalRequired: decided where it takes effect — does closing a thunk body (generateLastNormalIfNecessary)
	// append `return Normal()`? How the decision is split between the block and the rewriter (a callback, a
	// three-way verdict handed back, ...) is representation.
	gen := r.method("yieldRewriter", "generateLastNormalIfNecessary")
	c.fn(relName(gen))
	appended := func(bk string, ks []string, term bool) (AV, bool) {
		children, st := mkBlockObj(bk, ks)
		blk, _ := r.astBlockOf(st, children)
		if blk == nil {
			return nil, false
		}
		before, okB := st.Obj(blk).Fields["List"].(SliceV)
		if !okB && len(ks) > 0 {
			return nil, false
		}
		in := r.interp(rwConfig{root: gen, boundaries: map[string]bool{"generateLastNormalIfNecessary": false}})
		in.MaxVisits = 64 // a work-list loop over the statements of a shape
		callNormal := Sym{Name: "callNormal", NN: true}
		in.Fields["r.yieldAst.callNormal"] = callNormal
		in.OnCall = wrapOnCall(in.OnCall, func(cc *CallCtx) []Answer {
			if cc.Fn != nil && inRw(cc.Fn) && cc.Fn.Name() == "isTerminating" {
				return []Answer{{Ret: []AV{mkBool(term)}, NoEvent: true}}
			}
			return nil
		})
		outs := in.Run(st, gen, []AV{Sym{Name: "r", NN: true}, children}, nil)
		r.account(in)
		if len(outs) != 1 {
			return nil, false
		}
		if outs[0].Panicked {
			return Sym{Name: "PANIC"}, true
		}
		if outs[0].St.Truncated {
			return nil, false
		}
		after, okA := outs[0].St.Obj(blk).Fields["List"].(SliceV)
		if !okA {
			if len(ks) == 0 && outs[0].St.Obj(blk).Fields["List"] == nil {
				return mkBool(false), true
			}
			return nil, false
		}
		switch len(after.Elems) - len(before.Elems) {
		case 0:
			return mkBool(false), true
		case 1:
			if matchTmpl(outs[0].St, after.Elems[len(after.Elems)-1], nd("ReturnStmt", map[string]Pat{"Results": lst(pVal{callNormal})})) == nil {
				return mkBool(true), true
			}
		}
		return nil, false
	}
	bad, ex = 0, nil
	n := 0
	for _, bk := range []string{"kindDelay", "kindFor", "kindIf", "kindSwitch"} {
		for _, ks := range lists {
			for _, term := range []bool{false, true} {
				term := term
				n++
				got, ok := appended(bk, ks, term)
				var want bool
				switch {
				case len(ks) == 0:
					want = true
				case returning[ks[len(ks)-1]]:
					want = false
				default:
					want = !term
				}
				if b, known := asBool(got); !ok || !known || b != want {
					bad++
					if len(ex) < 5 {
						ex = append(ex, fmt.Sprintf("block kind=%s kinds=%v isTerminating(last)=%v: got %v want %v", bk, ks, term, got, want))
					}
				}
			}
		}
	}
	c.check(bad == 0, "RW.KINDTAB", "returnNormalRequired", r.w.FnPos(gen),
		fmt.Sprintf("%d rows (block kind x kind list x oracle): an implicit Normal is appended iff the block is empty, or its last statement is not a return-built kind and is not terminating — for every block kind that can become a thunk body (delay/for/if/switch), without tripping an internal assertion", n),
		fmt.Sprintf("%d rows differ from the reference: %s", bad, strings.Join(ex, " | ")))
}
