package main

// Package-level tables. A package-level variable of the analysed packages that is written only by the package
// initialiser (never stored to, never has its address taken elsewhere) holds what the initialiser put there for
// the whole run. The initialiser is evaluated once (calls are opaque events, nothing is inlined) and the
// constants it stores into such variables are remembered by location key: `kindTraits[2].mayYield`,
// `basicRangeIters[0].ctor`, `*flagX`. Only constants are kept: anything computed by a call stays unknown.

import (
	"fmt"
	"go/types"
	"os"
	"strings"

	"golang.org/x/tools/go/ssa"
)

func (w *World) globalFact(key string, t types.Type) (AV, bool) {
	if w.globalFacts == nil {
		w.globalFacts = map[string]AV{}
		w.globalUnknown = map[string]bool{}
		w.globalFinal = map[string]bool{}
		for _, path := range []string{pathRw, pathSeq} {
			w.collectGlobalFacts(path)
		}
	}
	if os.Getenv("VERIF_DEBUG_GLOBALS") != "" {
		fmt.Fprintf(os.Stderr, "GLOBALFACT ask %s (have %d)\n", key, len(w.globalFacts))
		if os.Getenv("VERIF_DEBUG_GLOBALS") == "2" {
			for k, v := range w.globalFacts {
				fmt.Fprintf(os.Stderr, "   %s = %s\n", k, v)
			}
		}
	}
	if v, ok := w.globalFacts[key]; ok {
		return v, true
	}
	if strings.Contains(key, "⟨") {
		return nil, false // a symbolic index
	}
	base := globalBase(key)
	if !w.globalFinal[base] {
		return nil, false
	}
	// something the initialiser computed (not a constant) overlaps this location: unknown
	for u := range w.globalUnknown {
		bu := strings.TrimPrefix(u, "*")
		bk := strings.TrimPrefix(key, "*")
		if bu == bk || strings.HasPrefix(bk, bu+".") || strings.HasPrefix(bk, bu+"[") || strings.HasPrefix(bu, bk+".") || strings.HasPrefix(bu, bk+"[") || u == "*global:"+base {
			return nil, false
		}
	}
	// a whole struct element: built from its fields (fields the initialiser left alone are zero)
	if t != nil {
		if stt, ok := t.Underlying().(*types.Struct); ok {
			fields := map[string]AV{}
			for i := 0; i < stt.NumFields(); i++ {
				f := stt.Field(i)
				// (a field's own key carries no dereference mark: "*global:g" is the variable, "global:g.f" its field)
				if v, ok := w.globalFact(strings.TrimPrefix(key, "*")+"."+f.Name(), f.Type()); ok {
					fields[f.Name()] = v
				} else {
					return nil, false
				}
			}
			return StructV{Fields: fields}, true
		}
		if at, ok := t.Underlying().(*types.Array); ok && at.Len() <= 64 {
			// the whole table (a range over it copies it): its elements in order
			var elems []AV
			ek := strings.TrimPrefix(key, "*")
			for i := int64(0); i < at.Len(); i++ {
				v, ok := w.globalFact(fmt.Sprintf("%s[%s]", ek, mkInt(i).String()), at.Elem())
				if !ok {
					return nil, false
				}
				elems = append(elems, v)
			}
			return SliceV{Elems: elems}, true
		}
		switch t.Underlying().(type) {
		case *types.Basic, *types.Pointer, *types.Slice, *types.Map, *types.Signature, *types.Interface, *types.Chan:
			// never written by anything but the initialiser, and the initialiser did not write it: the zero value
			return Zero{t}, true
		}
	}
	return nil, false
}

func globalBase(key string) string {
	base := strings.TrimPrefix(strings.TrimPrefix(key, "*"), "global:")
	if i := strings.IndexAny(base, ".["); i >= 0 {
		base = base[:i]
	}
	return base
}

func (w *World) collectGlobalFacts(path string) {
	pkg := w.SSA[path]
	if pkg == nil {
		return
	}
	initFn := pkg.Func("init")
	if initFn == nil || len(initFn.Blocks) == 0 {
		return
	}
	// variables written or escaping outside the initialiser are not tables
	mutable := map[string]bool{}
	var derived func(v ssa.Value, g *ssa.Global, seen map[ssa.Value]bool)
	derived = func(v ssa.Value, g *ssa.Global, seen map[ssa.Value]bool) {
		if seen[v] {
			return
		}
		seen[v] = true
		refs := v.Referrers()
		if refs == nil {
			return
		}
		for _, r := range *refs {
			switch x := r.(type) {
			case *ssa.UnOp: // load
			case *ssa.IndexAddr:
				if x.X == v {
					derived(x, g, seen)
				}
			case *ssa.FieldAddr:
				if x.X == v {
					derived(x, g, seen)
				}
			case *ssa.Store:
				if x.Addr == v {
					mutable[g.Name()] = true
				} else {
					mutable[g.Name()] = true // the address is stored somewhere
				}
			case *ssa.DebugRef:
			default:
				mutable[g.Name()] = true // escapes (call argument, interface, slice of the array, ...)
			}
		}
	}
	for _, f := range w.Funcs {
		if f.Pkg != pkg || f == initFn {
			continue
		}
		for _, b := range f.Blocks {
			for _, ins := range b.Instrs {
				for _, op := range ins.Operands(nil) {
					g, ok := (*op).(*ssa.Global)
					if !ok || g.Pkg != pkg {
						continue
					}
					switch x := ins.(type) {
					case *ssa.UnOp: // load of the variable
					case *ssa.IndexAddr:
						derived(x, g, map[ssa.Value]bool{})
					case *ssa.FieldAddr:
						derived(x, g, map[ssa.Value]bool{})
					default:
						mutable[g.Name()] = true
					}
				}
			}
		}
	}
	in := &Interp{W: w, MaxDepth: 1, MaxVisits: 64, MaxRecur: 1}
	in.Inline = func(fn *ssa.Function) bool { return false }
	in.HavocKeep = func(key string) bool { return true }
	in.MaxPaths = 64
	var paths []*State
	func() {
		defer func() { recover() }() // an initialiser this cannot evaluate simply yields no facts
		for _, o := range in.Run(nil, initFn, nil, nil) {
			if o.Panicked || o.St.Truncated {
				continue
			}
			// the path on which the package was already initialised stores nothing
			if len(o.St.symMem) > 0 {
				paths = append(paths, o.St)
			}
		}
	}()
	if len(paths) == 0 {
		return
	}
	keys := map[string]bool{}
	for _, st := range paths {
		for k := range st.symMem {
			if strings.HasPrefix(strings.TrimPrefix(k, "*"), "global:") {
				keys[k] = true
			}
		}
	}
	for k := range keys {
		base := globalBase(k)
		if strings.HasPrefix(base, "init$") {
			continue
		}
		// a fact only if every path of the initialiser stores the same constant there
		var val AV
		agreed := true
		for _, st := range paths {
			v, ok := st.symMem[k]
			if !ok {
				agreed = false
				break
			}
			switch v.(type) {
			case Const, Zero, Nil:
			default:
				agreed = false
			}
			if val != nil && !sameAV(val, v) {
				agreed = false
			}
			val = v
		}
		if agreed && !mutable[base] {
			w.globalFacts[k] = val
		} else {
			w.globalUnknown[k] = true
		}
	}
	for _, m := range pkg.Members {
		if g, ok := m.(*ssa.Global); ok && !mutable[g.Name()] && !strings.HasPrefix(g.Name(), "init$") {
			w.globalFinal[g.Name()] = true
		}
	}
}
