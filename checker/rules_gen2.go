package main

// SEQ.GEN (histories) — the iterator protocol of the value returned by
// seq.Start (property C09), decided observationally.
//
// Start(seq) is evaluated abstractly with an opaque generator body `seq`; the
// concrete iterator it returns is then driven through *every* history of
// MoveNext / Send(v) / Current / Result up to a depth bound. The generator
// body is an oracle: each time the runtime runs it (the first call seq(c, K),
// later the resumption stored in the delivered step) it either yields a fresh
// value — the pending step is stored into the coroutine state exactly as Bind
// does — or returns a result through the continuation it was started with.
// After every operation the returned values, and which piece of generator
// code ran with which received value, are compared with the reference protocol
// of the property:
//
//	advance(x): done -> false, no generator code runs
//	            run the pending code with x: yield y -> current = y, true
//	                                          return r -> done, current = zero, result = r, false
//	MoveNext()  = advance(zero)
//	Send(v)     : never advanced before -> advance(zero) first, false -> (zero,false)
//	              advance(v) -> (current,true) | (zero,false)
//	Current()   = current, no effect;  Result() = r once done, no effect
//
// Nothing here depends on how the generator represents its state (field names,
// a started flag, where exhaustion is recorded): only calls and results count.

import (
	"fmt"
	"go/types"
	"sort"
	"strings"

	"golang.org/x/tools/go/ssa"
)

var genHistDepth = 5

type genModel struct {
	advanced bool // at least one advance was performed
	done     bool
	nyield   int
	cur      string
	res      string
	pending  string // callee of the next piece of generator code: "seq" or "nx<k>"
}

func (m genModel) phase() string {
	switch {
	case m.done:
		return "exhausted"
	case !m.advanced:
		return "fresh"
	}
	return "suspended"
}

type genNode struct {
	st   *State
	m    genModel
	hist string
}

type genCallObs struct{ callee, arg string }

func (s *seqRT) ruleGenHist() { s.ruleGenHistOpt(false) }

// ruleGenHistPanics additionally lets the generator code panic at every step it is run (SEQ.CHAIN, C18):
// the panic must come out of the very call that ran the step, and the value delivered before is untouched.
func (s *seqRT) ruleGenHistPanics() { s.ruleGenHistOpt(true) }

func (s *seqRT) ruleGenHistOpt(withPanics bool) {
	c := s.c
	c.min("SEQ.GEN", 10)
	if withPanics {
		c.min("SEQ.CHAIN", 2)
	}
	chainN := map[string]int{}
	chainBad := map[string][]string{}
	in := s.interp()
	in.MaxDepth = 14
	// The generator body is modelled with the package's own public combinator: "the body yields y" is a run of
	// BindRecv(y, nx) on the coroutine state and continuation the body was given, "the rest of the body" is the
	// Seq the thunk nx returns when the runtime resumes it. How a pending step is represented (a pointer in the
	// coroutine state, a value and a flag, ...) is the package's business. The BindRecv values are built first,
	// in the state everything else starts from.
	bindFn := s.w.FuncOpt(pathSeq, "BindRecv")
	if bindFn == nil {
		undecided("seq.BindRecv not found (the combinator a yield is lowered to)")
	}
	c.fn("seq.BindRecv")
	stB := newState()
	var binds []AV
	for i := 1; i <= genHistDepth+2; i++ {
		outs := in.Run(stB, bindFn, []AV{Sym{Name: fmt.Sprintf("y%d", i), Uniq: true}, Sym{Name: fmt.Sprintf("nx%d", i), NN: true}}, nil)
		if len(outs) != 1 || outs[0].Panicked || len(outs[0].Ret) != 1 {
			undecided("seq.BindRecv is not a single straight-line construction")
		}
		stB = outs[0].St
		binds = append(binds, outs[0].Ret[0])
	}
	startFn := s.w.Func(pathSeq, "Start")
	c.fn("seq.Start")
	souts := in.Run(stB, startFn, []AV{Sym{Name: "seq", NN: true}}, nil)
	if len(souts) != 1 || souts[0].Panicked || len(souts[0].Ret) != 1 {
		c.bad("SEQ.GEN", "seq.Start constructor", s.w.FnPos(startFn), fmt.Sprintf("constructor has %d abstract paths / panics: expected a single straight-line construction", len(souts)))
		return
	}
	for _, e := range souts[0].St.Events[len(stB.Events):] {
		if e.Kind == "call" && e.Fn == nil {
			c.bad("SEQ.LAZY", "seq.Start", s.w.Pos(e.Pos), "constructor calls a caller-supplied function value while building the iterator ("+e.String()+"): code would run before the iterator is advanced", souts[0].St.TraceStrings()...)
		}
	}
	it, st0 := souts[0].Ret[0], souts[0].St
	d, isDyn := it.(Dyn)
	pt, _ := func() (*types.Pointer, bool) {
		if !isDyn {
			return nil, false
		}
		p, ok := d.T.(*types.Pointer)
		return p, ok
	}()
	if pt == nil {
		undecided("seq.Start does not return a pointer to a concrete iterator type")
	}
	nt, _ := pt.Elem().(*types.Named)
	if nt == nil {
		undecided("seq.Start returns an unnamed type")
	}
	nt = nt.Origin()
	methods := map[string]*ssa.Function{}
	for i := 0; i < nt.NumMethods(); i++ {
		m := nt.Method(i)
		methods[m.Name()] = s.w.Prog.FuncValue(m)
	}
	for _, need := range []string{"MoveNext", "Current", "Send", "Result"} {
		if methods[need] == nil {
			undecided("iterator method %s not found on %s", need, nt)
		}
		c.fn(relName(methods[need]))
	}
	pos := s.w.FnPos(methods["MoveNext"])

	// the generator body and its resumptions
	yields := func(st *State) int {
		n := 0
		for _, l := range st.Labels {
			if l == "yield" {
				n++
			}
		}
		return n
	}
	in.OnCall = func(cc *CallCtx) []Answer {
		sy, isSym := cc.Callee.(Sym)
		if !isSym {
			return nil
		}
		name := epochRe.ReplaceAllString(sy.Name, "")
		n := yields(cc.St) + 1
		switch {
		case (name == "seq" || strings.HasPrefix(name, "sq")) && len(cc.Args) == 2:
			// a piece of the generator body runs on (c, k): it yields (a run of BindRecv(y, nx) on the same c and
			// k) or returns through k
			if n > len(binds) {
				undecided("more yields on one history than prepared")
			}
			ans := []Answer{
				{Label: "yield", Invoke: []Invocation{{Fn: binds[n-1], Args: []AV{cc.Args[0], cc.Args[1]}}}},
				{Label: "return", Invoke: []Invocation{{Fn: cc.Args[1], Args: []AV{Sym{Name: "sig"}, Sym{Name: "res", Uniq: true}}}}},
			}
			if withPanics {
				ans = append(ans, Answer{Label: "panic", Panic: true})
			}
			return ans
		case strings.HasPrefix(name, "nx") && len(cc.Args) == 1:
			// the runtime resumes the body with a received value: the thunk hands back the rest of the body
			return []Answer{{Ret: []AV{Sym{Name: "sq" + strings.TrimPrefix(name, "nx"), NN: true}}}}
		}
		return nil
	}

	type bucket struct {
		n    int
		bad  []string
		what string
	}
	buckets := map[string]*bucket{}
	note := func(op string, m genModel, hist, diff string) {
		key := op + " on a " + m.phase() + " iterator"
		b := buckets[key]
		if b == nil {
			b = &bucket{}
			buckets[key] = b
		}
		b.n++
		if diff != "" && len(b.bad) < 4 {
			b.bad = append(b.bad, "history "+hist+": "+diff)
		}
	}
	render := func(v AV) string {
		switch x := v.(type) {
		case nil:
			return "<none>"
		case Zero:
			return "zero"
		case Const:
			return x.String()
		case Dyn:
			return epochRe.ReplaceAllString(x.V.String(), "")
		}
		return epochRe.ReplaceAllString(v.String(), "")
	}

	frontier := []genNode{{st: st0, m: genModel{cur: "zero", res: "", pending: "seq"}, hist: ""}}
	seenState := map[string]bool{}
	total := 0
	for depth := 1; depth <= genHistDepth && len(frontier) > 0; depth++ {
		var next []genNode
		for _, nd := range frontier {
			for _, op := range []string{"MoveNext", "Send", "Current", "Result"} {
				args := []AV{d.V}
				sendName := fmt.Sprintf("v%d", depth)
				if op == "Send" {
					args = append(args, Sym{Name: sendName, Uniq: true})
				}
				ne, nl := len(nd.st.Events), len(nd.st.Labels)
				outs := in.Run(nd.st.clone(), methods[op], args, nil)
				for _, o := range outs {
					total++
					choices := append([]string(nil), o.St.Labels[nl:]...)
					var calls []genCallObs
					stores := 0
					for _, e := range o.St.Events[ne:] {
						switch e.Kind {
						case "call":
							if sy, ok := e.Callee.(Sym); ok && e.Fn == nil {
								if strings.HasPrefix(epochRe.ReplaceAllString(sy.Name, ""), "sq") {
									continue // the rest of the body, run right after its thunk was resumed
								}
								a := ""
								if len(e.Args) == 1 {
									a = render(e.Args[0])
								}
								calls = append(calls, genCallObs{epochRe.ReplaceAllString(sy.Name, ""), a})
							}
						case "store":
							stores++
						}
					}
					tag := map[string]string{"MoveNext": "M", "Send": "S", "Current": "C", "Result": "R"}[op]
					if len(choices) > 0 {
						tag += ":" + strings.Join(choices, "/")
					}
					hist := strings.TrimSpace(nd.hist + " " + tag)
					// reference
					m := nd.m
					var wantCalls []genCallObs
					ci := 0
					stepPanicked := false
					advance := func(arg string) bool {
						m.advanced = true
						if m.done {
							return false
						}
						a := arg
						if m.pending == "seq" {
							a = ""
						}
						wantCalls = append(wantCalls, genCallObs{m.pending, a})
						ch := "return"
						if ci < len(choices) {
							ch = choices[ci]
						}
						ci++
						if ch == "panic" {
							stepPanicked = true
							return false
						}
						if ch == "yield" {
							m.nyield++
							m.cur = fmt.Sprintf("⟨y%d⟩", m.nyield)
							m.pending = fmt.Sprintf("nx%d", m.nyield)
							return true
						}
						m.done, m.cur, m.res = true, "zero", "⟨res⟩"
						return false
					}
					var want []string
					checkRet := true
					switch op {
					case "MoveNext":
						want = []string{fmt.Sprint(advance("zero"))}
					case "Send":
						primed := true
						if !m.advanced {
							primed = advance("zero")
						}
						if primed && advance("⟨"+sendName+"⟩") {
							want = []string{m.cur, "true"}
						} else {
							want = []string{"zero", "false"}
						}
					case "Current":
						want = []string{m.cur}
					case "Result":
						want = []string{m.res}
						checkRet = m.done // before completion the value is unspecified
					}
					if stepPanicked {
						// the step run by this call panicked; m.cur is the value delivered before that step
						key := op + " whose step panics"
						chainN[key]++
						switch {
						case !o.Panicked:
							chainBad[key] = append(chainBad[key], "history "+hist+": the panic of the step does not come out of the call that ran it")
						default:
							cur := in.Run(o.St.clone(), methods["Current"], []AV{d.V}, nil)
							if len(cur) != 1 || cur[0].Panicked || len(cur[0].Ret) != 1 {
								chainBad[key] = append(chainBad[key], "history "+hist+": Current after the panicking call is not a single normal path")
							} else if got := render(cur[0].Ret[0]); got != m.cur {
								chainBad[key] = append(chainBad[key], fmt.Sprintf("history %s: after the panicking call Current returns %s, the value delivered before the panicking step was %s (state is overwritten before the step has run)", hist, got, m.cur))
							}
						}
						continue
					}
					if o.Panicked {
						note(op, nd.m, hist, "the method panics")
						continue
					}
					var got []string
					for _, r := range o.Ret {
						got = append(got, render(r))
					}
					var diffs []string
					if checkRet && strings.Join(got, ",") != strings.Join(want, ",") {
						diffs = append(diffs, fmt.Sprintf("returns (%s), the protocol requires (%s)", strings.Join(got, ","), strings.Join(want, ",")))
					}
					if fmt.Sprint(calls) != fmt.Sprint(wantCalls) {
						diffs = append(diffs, fmt.Sprintf("generator code run: %v, the protocol requires %v (callee, received value)", calls, wantCalls))
					}
					if (op == "Current" || op == "Result") && stores > 0 {
						diffs = append(diffs, fmt.Sprintf("%s modifies the iterator (%d stores)", op, stores))
					}
					note(op, nd.m, hist, strings.Join(diffs, " | "))
					if len(diffs) > 0 {
						continue // do not explore beyond a divergence
					}
					key := fmt.Sprintf("%+v|%s", m, epochRe.ReplaceAllString(o.St.Render(it), ""))
					if seenState[key] {
						continue
					}
					seenState[key] = true
					next = append(next, genNode{st: o.St, m: m, hist: hist})
				}
			}
		}
		frontier = next
	}
	s.account(in)
	var keys []string
	for k := range buckets {
		keys = append(keys, k)
	}
	sort.Strings(keys)
	for _, k := range keys {
		b := buckets[k]
		if len(b.bad) == 0 {
			c.ok("SEQ.GEN", k, pos, fmt.Sprintf("%d abstract histories (all interleavings of MoveNext/Send/Current/Result up to length %d, the generator yielding or returning at every step) agree with the iterator protocol", b.n, genHistDepth))
		} else {
			c.bad("SEQ.GEN", k, pos, "differs from the iterator protocol: "+b.bad[0], b.bad...)
		}
	}
	if withPanics {
		var ks []string
		for k := range chainN {
			ks = append(ks, k)
		}
		sort.Strings(ks)
		for _, k := range ks {
			if len(chainBad[k]) == 0 {
				c.ok("SEQ.CHAIN", k, pos, fmt.Sprintf("%d abstract histories: the panic propagates out of the call that ran the step and Current still returns the value delivered before", chainN[k]))
			} else {
				c.bad("SEQ.CHAIN", k, pos, chainBad[k][0], chainBad[k]...)
			}
		}
	}
	if total < 50 {
		c.und("SEQ.GEN", "coverage", pos, fmt.Sprintf("only %d abstract histories explored", total))
	}
}
