package main

// helpers shared by the generator rules; the protocol rule itself (SEQ.GEN) is in
// rules_gen2.go (history based: it replaced a per-method table that compared the
// generator's internal fields with a reference and so depended on its representation).

import (
	"regexp"
)

var epochRe = regexp.MustCompile(`@\d+`)
