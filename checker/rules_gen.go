package main

// helpers shared by the generator rules; the protocol rule itself (SEQ.GEN) is in
// rules_gen2.go (history based: it replaced a per-method table that compared the
// generator's internal fields with a reference and so depended on its representation).

import (
	"go/types"
	"regexp"
)

var epochRe = regexp.MustCompile(`@\d+`)

func normName(v AV) string {
	if v == nil {
		return "<none>"
	}
	switch x := v.(type) {
	case Zero:
		return "zero"
	case Nil:
		return "nil"
	case Const:
		return x.String()
	}
	return epochRe.ReplaceAllString(v.String(), "")
}

// generatorType finds the concrete type returned by seq.Start.
func (s *seqRT) generatorType() (*types.Named, types.Type) {
	in := s.interp()
	fn := s.w.Func(pathSeq, "Start")
	outs := in.Run(nil, fn, []AV{Sym{Name: "seq", NN: true}}, nil)
	if len(outs) != 1 || len(outs[0].Ret) != 1 {
		undecided("cannot determine the concrete iterator type returned by seq.Start")
	}
	d, ok := outs[0].Ret[0].(Dyn)
	if !ok {
		undecided("seq.Start does not return a value of a known concrete type")
	}
	pt, ok := d.T.(*types.Pointer)
	if !ok {
		undecided("seq.Start returns a non-pointer concrete type %s", d.T)
	}
	nt, ok := pt.Elem().(*types.Named)
	if !ok {
		undecided("seq.Start returns an unnamed type")
	}
	return nt.Origin(), d.T
}
