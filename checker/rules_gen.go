package main

// SEQ.GEN — the iterator protocol of seq.generator (property C09), decided as
// tables: every exported method of the generator type is abstractly evaluated
// for every combination of {started, next nil/non-nil, result of each resumption
// nil/non-nil} and compared with the reference protocol of the property:
//
//	advance(x): next == nil -> false, nothing runs
//	            s := next(x); s == nil -> next = nil, current = zero, false
//	                          else     -> next = s.next, current = s.value, true
//	MoveNext(): started = true; advance(zero)
//	Send(v):    !started -> MoveNext() first (false -> (zero,false), no further advance)
//	            advance(v) -> (current,true) | (zero,false)
//	Current()/Result(): no call, no store; return the field.

import (
	"fmt"
	"go/types"
	"regexp"
	"strings"

	"golang.org/x/tools/go/ssa"
)

var epochRe = regexp.MustCompile(`@\d+`)

func normName(v AV) string {
	if v == nil {
		return "<none>"
	}
	switch x := v.(type) {
	case Zero:
		return "zero"
	case Nil:
		return "nil"
	case Const:
		return x.String()
	}
	return epochRe.ReplaceAllString(v.String(), "")
}

// generatorType finds the concrete type returned by seq.Start.
func (s *seqRT) generatorType() (*types.Named, types.Type) {
	in := s.interp()
	fn := s.w.Func(pathSeq, "Start")
	outs := in.Run(nil, fn, []AV{Sym{Name: "seq", NN: true}}, nil)
	if len(outs) != 1 || len(outs[0].Ret) != 1 {
		undecided("cannot determine the concrete iterator type returned by seq.Start")
	}
	d, ok := outs[0].Ret[0].(Dyn)
	if !ok {
		undecided("seq.Start does not return a value of a known concrete type")
	}
	pt, ok := d.T.(*types.Pointer)
	if !ok {
		undecided("seq.Start returns a non-pointer concrete type %s", d.T)
	}
	nt, ok := pt.Elem().(*types.Named)
	if !ok {
		undecided("seq.Start returns an unnamed type")
	}
	return nt.Origin(), d.T
}

type genCase struct {
	method  string
	started bool
	nextNil bool
}

type genRef struct {
	calls   []string // "callee(arg)"
	next    string   // final d.next ("" = untouched)
	current string
	started string
	ret     []string
}

// reference protocol; steps: answers of successive resumptions (true = non-nil step)
func genReference(gc genCase, steps []bool) genRef {
	r := genRef{}
	nextName := "⟨next⟩"
	if gc.nextNil {
		nextName = "nil"
	}
	started := gc.started
	stepIdx := 0
	curName := "⟨cur⟩"
	advance := func(arg string) bool {
		if nextName == "nil" {
			return false
		}
		r.calls = append(r.calls, nextName+"("+arg+")")
		nonNil := false
		if stepIdx < len(steps) {
			nonNil = steps[stepIdx]
		}
		stepIdx++
		if !nonNil {
			nextName = "nil"
			r.next = "nil"
			curName = "zero"
			r.current = "zero"
			return false
		}
		sn := fmt.Sprintf("⟨step%d", stepIdx)
		nextName = sn + ".next⟩"
		r.next = nextName
		curName = sn + ".value⟩"
		r.current = curName
		return true
	}
	moveNext := func() bool {
		if !started {
			started = true
		}
		r.started = "true"
		return advance("zero")
	}
	switch gc.method {
	case "MoveNext":
		ok := moveNext()
		r.ret = []string{fmt.Sprint(ok)}
	case "Send":
		if !started {
			if !moveNext() {
				r.ret = []string{"zero", "false"}
				return r
			}
		}
		if advance("⟨sendv⟩") {
			r.ret = []string{curName, "true"}
		} else {
			r.ret = []string{"zero", "false"}
		}
	case "Current":
		r.ret = []string{"⟨cur⟩"}
	case "Result":
		r.ret = []string{"⟨res⟩"}
	}
	return r
}

func (s *seqRT) ruleGen() {
	c := s.c
	c.min("SEQ.GEN", 10)
	nt, ptrT := s.generatorType()
	_ = ptrT
	methods := map[string]*ssa.Function{}
	for i := 0; i < nt.NumMethods(); i++ {
		m := nt.Method(i)
		methods[m.Name()] = s.w.Prog.FuncValue(m)
	}
	// field names by role: discovered from Start (next) and from the methods' behaviour is
	// overkill; the protocol is checked through observable stores/returns only, keyed by
	// the field *written*, whatever its name — except that we must seed abstract field
	// contents. Seed every field of the struct.
	st, ok := nt.Underlying().(*types.Struct)
	if !ok {
		undecided("generator type is not a struct")
	}
	// roles: the func-typed field is next; bool is started; the two V-typed fields are
	// current/result, told apart by which one Current()/Result() return.
	var nextF, startedF string
	var vFields []string
	for i := 0; i < st.NumFields(); i++ {
		f := st.Field(i)
		switch u := f.Type().Underlying().(type) {
		case *types.Signature:
			nextF = f.Name()
		case *types.Basic:
			if u.Info()&types.IsBoolean != 0 {
				startedF = f.Name()
			} else {
				vFields = append(vFields, f.Name())
			}
		default:
			vFields = append(vFields, f.Name())
		}
	}
	if nextF == "" || startedF == "" || len(vFields) != 2 {
		undecided("generator struct does not have the expected shape (one func field, one bool, two value fields): next=%q started=%q values=%v", nextF, startedF, vFields)
	}
	for _, need := range []string{"MoveNext", "Current", "Send", "Result"} {
		if methods[need] == nil {
			undecided("generator method %s not found", need)
		}
	}
	// which value field is current?
	curF, resF := "", ""
	{
		in := s.interp()
		fields := map[string]AV{}
		for _, f := range vFields {
			fields["d."+f] = Sym{Name: "F:" + f}
		}
		in.Fields = fields
		outs := in.Run(nil, methods["Current"], []AV{Sym{Name: "d", NN: true}}, nil)
		if len(outs) == 1 && len(outs[0].Ret) == 1 {
			if sv, ok := outs[0].Ret[0].(Sym); ok && strings.HasPrefix(sv.Name, "F:") {
				curF = strings.TrimPrefix(sv.Name, "F:")
			}
		}
		for _, f := range vFields {
			if f != curF {
				resF = f
			}
		}
		s.account(in)
	}
	if curF == "" {
		c.bad("SEQ.GEN", "Current()", s.w.FnPos(methods["Current"]), "Current() does not simply return a field of the generator (it must be a pure read of the value delivered by the latest advance)")
		return
	}

	cases := []genCase{}
	for _, m := range []string{"MoveNext", "Send"} {
		for _, started := range []bool{false, true} {
			for _, nextNil := range []bool{false, true} {
				cases = append(cases, genCase{m, started, nextNil})
			}
		}
	}
	cases = append(cases, genCase{"Current", true, false}, genCase{"Current", false, true}, genCase{"Result", true, true}, genCase{"Result", false, false})

	for _, gc := range cases {
		fn := methods[gc.method]
		pos := s.w.FnPos(fn)
		c.fn(relName(fn))
		in := s.interp()
		var next AV = Sym{Name: "next", NN: true}
		if gc.nextNil {
			next = Nil{}
		}
		in.Fields = map[string]AV{
			"d." + nextF:    next,
			"d." + startedF: mkBool(gc.started),
			"d." + curF:     Sym{Name: "cur"},
			"d." + resF:     Sym{Name: "res"},
		}
		for i := 1; i <= 4; i++ {
			// a non-nil step always carries a resumption (Bind/BindRecv build it with mkNext*)
			k := fmt.Sprintf("step%d.next", i)
			in.Fields[k] = Sym{Name: k, NN: true}
		}
		in.OnCall = func(cc *CallCtx) []Answer {
			if _, isSym := cc.Callee.(Sym); !isSym {
				return nil
			}
			n := 0
			for _, e := range cc.St.Events {
				if e.Kind == "call" && e.Fn == nil {
					n++
				}
			}
			name := fmt.Sprintf("step%d", n+1)
			return []Answer{
				{Ret: []AV{Nil{}}, Label: "step=nil"},
				{Ret: []AV{Sym{Name: name, NN: true}}, Label: "step=set"},
			}
		}
		var args []AV
		args = append(args, Sym{Name: "d", NN: true})
		if gc.method == "Send" {
			args = append(args, Sym{Name: "sendv"})
		}
		outs := in.Run(nil, fn, args, nil)
		s.account(in)
		for _, o := range outs {
			var steps []bool
			var labels []string
			for _, l := range o.St.Labels {
				if l == "step=nil" {
					steps = append(steps, false)
					labels = append(labels, "nil")
				} else if l == "step=set" {
					steps = append(steps, true)
					labels = append(labels, "set")
				}
			}
			construct := fmt.Sprintf("%s[started=%v,next=%s,steps=%s]", gc.method, gc.started, nilStr(gc.nextNil), strings.Join(labels, "/"))
			if o.Panicked {
				c.bad("SEQ.GEN", construct, pos, "method panics on this history", o.St.TraceStrings()...)
				continue
			}
			want := genReference(gc, steps)
			// implementation facts
			var calls []string
			last := map[string]string{}
			for _, e := range o.St.Events {
				switch e.Kind {
				case "call":
					var as []string
					for _, a := range e.Args {
						as = append(as, normName(a))
					}
					calls = append(calls, normName(e.Callee)+"("+strings.Join(as, ",")+")")
				case "store":
					last[e.Target] = normName(e.Args[0])
				case "load":
				default:
					calls = append(calls, e.String())
				}
			}
			var ret []string
			for _, r := range o.Ret {
				ret = append(ret, normName(r))
			}
			var diffs []string
			if strings.Join(calls, ";") != strings.Join(want.calls, ";") {
				diffs = append(diffs, fmt.Sprintf("calls: got [%s] want [%s]", strings.Join(calls, "; "), strings.Join(want.calls, "; ")))
			}
			cmpField := func(role, field, wantV string) {
				got, written := last["d."+field]
				if wantV == "" {
					if written {
						// a store of the value the field already holds is harmless
						orig := map[string]string{nextF: normName(next), startedF: fmt.Sprint(gc.started), curF: "⟨cur⟩", resF: "⟨res⟩"}[field]
						if got != orig {
							diffs = append(diffs, fmt.Sprintf("%s: unexpectedly set to %s", role, got))
						}
					}
					return
				}
				if !written {
					orig := map[string]string{nextF: normName(next), startedF: fmt.Sprint(gc.started), curF: "⟨cur⟩", resF: "⟨res⟩"}[field]
					if orig == wantV {
						return
					}
					diffs = append(diffs, fmt.Sprintf("%s: not updated, want %s", role, wantV))
					return
				}
				if got != wantV {
					diffs = append(diffs, fmt.Sprintf("%s: got %s want %s", role, got, wantV))
				}
			}
			cmpField("next", nextF, want.next)
			cmpField("current", curF, want.current)
			cmpField("started", startedF, want.started)
			cmpField("result", resF, "")
			if strings.Join(ret, ",") != strings.Join(want.ret, ",") {
				diffs = append(diffs, fmt.Sprintf("returns: got (%s) want (%s)", strings.Join(ret, ","), strings.Join(want.ret, ",")))
			}
			for k := range last {
				if !strings.HasPrefix(k, "d.") {
					diffs = append(diffs, "store outside the generator: "+k)
				}
			}
			if len(diffs) == 0 {
				c.ok("SEQ.GEN", construct, pos, "calls, field updates and results equal the reference protocol")
			} else {
				c.bad("SEQ.GEN", construct, pos, "differs from the iterator protocol: "+strings.Join(diffs, " | "), o.St.TraceStrings()...)
			}
		}
	}
}
