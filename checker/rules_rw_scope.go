package main

// RW.SCOPEAGREE — the lowering of break/continue targets must agree with the
// signal tables extracted from the runtime (property C01):
//   * a statement kind that is a break target and is lowered with thunks inside
//     (where the branch pass turns `break` into the Break signal) must be rooted
//     at a combinator that absorbs Break — per SEQ.FOR only For/While/Loop do;
//   * what runs "after the body" of a loop must run on Continue as well as on
//     Normal — per SEQ.FOR only the post argument of For does; per SEQ.COMBINE
//     the second half of a Combine is skipped on Continue.
// RW.TMPL.FOR — choice of Loop/While/For by nil-ness of cond/post, argument order.

import (
	"fmt"
	"go/types"
	"os"
	"strings"
)

// seqCallName extracts the seq constructor name of a generated call template.
func seqCallName(st *State, call AV) string {
	o := st.Obj(call)
	if d, ok := call.(Dyn); ok {
		o = st.Obj(d.V)
	}
	if o == nil {
		return ""
	}
	fun := o.Fields["Fun"]
	return lastStringConst(st, fun, 0)
}

// lastStringConst finds the selector / identifier name of a (possibly indexed) function expression.
func lastStringConst(st *State, v AV, depth int) string {
	if depth > 6 {
		return ""
	}
	if d, ok := v.(Dyn); ok {
		v = d.V
	}
	o := st.Obj(v)
	if o == nil {
		return ""
	}
	if x, ok := o.Fields["Sel"]; ok { // SelectorExpr
		return lastStringConst(st, x, depth+1)
	}
	if n, ok := o.Fields["Name"]; ok { // Ident
		s, _ := asString(n)
		return s
	}
	if x, ok := o.Fields["X"]; ok { // IndexExpr
		return lastStringConst(st, x, depth+1)
	}
	return ""
}

func (r *rwRT) ruleScopeAgree(seqForHolds bool, mode string) {
	c := r.c
	if mode == "agree" {
		c.min("RW.SCOPEAGREE", 3)
	}
	fn := r.method("yieldRewriter", "rewriteStmt")
	pos := r.w.FnPos(fn)
	if !seqForHolds {
		c.und("RW.SCOPEAGREE", "runtime tables", pos, "the runtime's loop tables (SEQ.FOR) do not hold in this run, so the reference for the lowering is undefined")
		return
	}
	absorbing := map[string]bool{"For": true, "While": true, "Loop": true}
	type shapeRun struct {
		o    Outcome
		in   *astInput
		intp *Interp
	}
	runShape := func(kind string, pick func(desc string) bool) []shapeRun {
		var res []shapeRun
		for _, shp := range r.shapes(kind) {
			if !pick(shp.desc) {
				continue
			}
			cfg := rwConfig{root: fn, blockOracles: true, boundaries: map[string]bool{
				"rewriteIfStmt": false, "rewriteSwitchStmt": false, "rewriteForStmt": false,
				"rewriteYieldCall": false, "combineIfNecessary": false, "generateLastNormalIfNecessary": false,
			}}
			in := r.interp(cfg)
			in.MaxRecur, in.MaxVisits, in.MaxDepth = 3, 4, 16
			outs := in.Run(shp.st.clone(), fn, []AV{Sym{Name: "r", NN: true}, shp.root, Sym{Name: "isLast"}, Sym{Name: "children", NN: true}}, nil)
			r.account(in)
			for _, o := range outs {
				if !o.Panicked && !o.St.Truncated {
					res = append(res, shapeRun{o, shp, in})
				}
			}
		}
		return res
	}
	// (a) break targets lowered with thunks inside
	for _, kind := range []string{"ForStmt", "SwitchStmt", "TypeSwitchStmt"} {
		if mode != "agree" {
			break
		}
		yielding, rootedOK, normalLowered := 0, 0, 0
		nativePaths, nativeRewritten := 0, ""
		r.switchBreakDepthBlind = false
		example := ""
		for _, p := range runShape(kind, func(string) bool { return true }) {
			// a path on which some nested list was rewritten into a yield-bearing block
			yieldPath := false
			for _, l := range p.o.St.Labels {
				if strings.HasPrefix(l, "mustNoYield(ret:") && strings.Contains(l, "rewriteBlockStmt") && strings.HasSuffix(l, "=false") {
					yieldPath = true
				}
			}
			if !yieldPath {
				// no clause yields: the statement is emitted as it is (possibly into the thunk of a yielding
				// initialiser, where the statements after it share its thunk). Its breaks must still be breaks: a
				// `return Normal()` there completes the whole thunk and skips what follows the switch.
				if kind != "ForStmt" {
					if rootObj := p.o.St.Obj(unwrap(p.in.root)); rootObj != nil {
						body := rootObj.Fields["Body"]
						bodyYields := false
						for _, l := range p.o.St.Labels {
							if l == "mustNoYield("+argLabel(body)+")=false" {
								bodyYields = true // ... and no clause does: not a combination a program produces
							}
						}
						if bo := p.o.St.Obj(unwrap(body)); bo != nil && !bodyYields {
							// ... the same answer given about one of the clauses
							if cl, ok := bo.Fields["List"].(SliceV); ok {
								for _, ce := range cl.Elems {
									for _, l := range p.o.St.Labels {
										if l == "mustNoYield("+argLabel(ce)+")=false" {
											bodyYields = true
										}
									}
								}
							}
						}
						if !bodyYields {
							nativePaths++
							for _, e := range p.o.St.Events {
								if e.Kind != "call" || e.Fn == nil {
									continue
								}
								walked := e.Fn.Name() == "Apply" && strings.Contains(fnPkgPath(e.Fn), "astutil") && len(e.Args) == 3 && sameAV(unwrap(e.Args[0]), unwrap(body))
								if !walked && e.Fn.Name() == "Apply" && strings.Contains(fnPkgPath(e.Fn), "astutil") && len(e.Args) == 3 {
									// ... or clause by clause: the root is a block this path hands to the block lowering
									for _, l := range p.o.St.Events {
										if l.Kind == "call" && l.Fn != nil && inRw(l.Fn) && l.Fn.Name() == "rewriteBlockStmt" && len(l.Args) >= 2 && sameAV(unwrap(l.Args[1]), unwrap(e.Args[0])) {
											walked = true
										}
									}
								}
								if inRw(e.Fn) && isRecursiveAstWalk(e.Fn) {
									for _, a := range e.Args {
										if sameAV(unwrap(a), unwrap(body)) {
											walked = true
										}
									}
								}
								if walked {
									nativeRewritten = pathSummary(p.o)
								}
							}
						}
					}
				}
				continue
			}
			yielding++
			// how is the statement itself emitted on this path?
			root := ""
			for _, e := range p.o.St.Events {
				if e.Kind == "call" && e.Fn != nil && inRw(e.Fn) && len(e.Args) >= 2 {
					switch e.Fn.Name() {
					case "pushReturn":
						if n := seqCallName(p.o.St, e.Args[1]); absorbing[n] {
							root = "seq." + n
						}
					case "push":
						var o *Obj
						if o = p.o.St.Obj(e.Args[1]); o == nil {
							if d, ok := e.Args[1].(Dyn); ok {
								o = p.o.St.Obj(d.V)
							}
						}
						if o != nil && root == "" {
							tn := typeName(o.T)
							if tn == "SwitchStmt" || tn == "TypeSwitchStmt" || tn == "SelectStmt" {
								root = "a native " + tn
							}
						}
					}
				}
			}
			if strings.HasPrefix(root, "seq.") {
				rootedOK++
			} else if err := r.switchBreaksRewritten(p.intp, p.o, p.in); root != "" && kind != "ForStmt" && err == errInfeasiblePath {
				yielding-- // the oracle said "the whole body is yield-free" and "a clause yields" on one path
			} else if root != "" && kind != "ForStmt" && err == nil {
				normalLowered++
				// the other sound lowering: before the clause bodies are lowered, every break that refers to the
				// switch itself is turned into `return Normal()` (leaving the switch = completing it normally;
				// the switch is the last statement of its thunk, the combine decision follows it)
				rootedOK++
			} else if os.Getenv("VERIF_DEBUG_SCOPE") != "" && root != "" && kind != "ForStmt" && func() bool { fmt.Fprintln(os.Stderr, "SCOPE", kind, err); return false }() {
			} else if root == "" {
				// body yields nothing on this path that needs a target (e.g. only the init yields): native loop kept
				yielding--
			} else if example == "" {
				example = root
			}
		}
		if yielding == 0 {
			c.und("RW.SCOPEAGREE", "yielding "+kind+" lowering", pos, "no yielding path found for "+kind)
			continue
		}
		if kind != "ForStmt" && nativePaths > 0 {
			c.check(nativeRewritten == "", "RW.SCOPEAGREE", "breaks of a "+strings.TrimSuffix(kind, "Stmt")+" without a yielding clause stay breaks", pos,
				fmt.Sprintf("%d paths on which no clause yields: the body is not traversed for breaks", nativePaths),
				"the body of a switch whose clauses do not yield (only its initialiser does) is traversed by the break rewriting: the switch is emitted as a native statement into the thunk of the initialiser's Bind, where `return Normal()` completes the whole thunk — `switch Yield(0); x { case 1: if c { break }; … }; after()` skips after(): "+nativeRewritten)
		}
		if normalLowered > 0 {
			// `return Normal()` completes the thunk it stands in. That thunk is the rest of the clause when the break
			// sits at the top level of the clause or inside statements that do not yield (they stay native inside
			// the thunk); inside a nested statement that itself yields (`case 1: if c { Yield(1); break }; Yield(2)`)
			// it is only the first half of a Combine, whose second half — the rest of the clause — still runs.
			// The traversal replaces breaks at any depth and asks nothing about the statements around them.
			c.check(!r.switchBreakDepthBlind, "RW.SCOPEAGREE", "break nested in a yielding statement of a "+strings.TrimSuffix(kind, "Stmt")+" clause leaves the "+strings.TrimSuffix(kind, "Stmt"), pos,
				"the replacement of a break distinguishes breaks inside nested statements that yield",
				"every unlabelled break of the statement is replaced by `return Normal()` whatever it is nested in: inside a nested if / block that yields and is followed by further statements of the clause, Normal only completes that nested statement and the rest of the clause still runs (`case 1: if c { Yield(1); break }; Yield(2)` delivers 1, 2)")
		}
		c.check(rootedOK == yielding, "RW.SCOPEAGREE", "break inside a yielding "+strings.TrimSuffix(kind, "Stmt")+" is absorbed by its lowering", pos,
			fmt.Sprintf("%d yielding lowering paths are all rooted at a Break-absorbing loop combinator, or turn the breaks of the statement into `return Normal()` before its bodies are lowered", yielding),
			fmt.Sprintf("%d of %d yielding lowering paths are rooted at %q, which does not absorb the Break signal: a `break` placed after a yield inside it (rewritten to seq.Break() by the branch pass, because it sits in a Bind thunk) leaves the enclosing loop instead of the %s", yielding-rootedOK, yielding, example, strings.TrimSuffix(kind, "Stmt")))
	}
	// (b) yielding for-post must run on Continue
	postBad, postPaths, postShared, postNested, postAfterYield := 0, 0, 0, 0, 0
	where := ""
	for _, p := range runShape("ForStmt", func(d string) bool { return strings.Contains(d, "post=true") }) {
		isYieldPost := false
		for _, l := range p.o.St.Labels {
			if l == "mustNoYield(stmt.Post)=false" {
				isYieldPost = true
			}
		}
		if !isYieldPost {
			continue
		}
		postPaths++
		// where is the lowered post statement emitted? (recursion event rewriteStmt(post, _, B))
		var postBlocks []string
		for _, e := range p.o.St.Events {
			if e.Kind == "call" && e.Fn != nil && inRw(e.Fn) && e.Fn.Name() == "rewriteStmt" && len(e.Args) == 4 {
				if reachSet(p.o.St, e.Args[1], p.in.leaves)["stmt.Post"] {
					if o := p.o.St.Obj(e.Args[3]); o != nil && o.Opaque != "" {
						postBlocks = append(postBlocks, o.Opaque)
					} else {
						postBlocks = append(postBlocks, argLabel(e.Args[3]))
					}
				}
			}
		}
		for _, e := range p.o.St.Events {
			if e.Kind == "call" && e.Fn != nil && inRw(e.Fn) && e.Fn.Name() == "pushReturn" && len(e.Args) >= 2 {
				name := seqCallName(p.o.St, e.Args[1])
				if !absorbing[name] {
					continue
				}
				call := p.o.St.Obj(e.Args[1])
				args, _ := call.Fields["Args"].(SliceV)
				if len(args.Elems) > 0 {
					body := epochRe.ReplaceAllString(p.o.St.Render(args.Elems[len(args.Elems)-1]), "")
					for _, pb := range postBlocks {
						if strings.Contains(body, pb+".block") {
							postBad++
							where = "seq." + name + "(cond, nil, body) with the lowered post statement inside the body argument"
						}
					}
				}
			}
		}
		if len(postBlocks) == 0 {
			postBad++
			where = "(post statement not lowered through the recursion)"
		}
		// S5: the lowered post must get a block of its own: not the body's block, and not a block nested inside it
		for _, pb := range postBlocks {
			if strings.HasPrefix(pb, "ret:") {
				postShared++
				// appended to the body's own block: only sound when the body's last statement cannot yield, i.e.
				// the combine table was consulted for that block and answered "not required" on this path
				justified := false
				for _, l := range p.o.St.Labels {
					if epochRe.ReplaceAllString(l, "") == "combineRequired("+pb+")=false" {
						justified = true
					}
				}
				if !justified {
					postAfterYield++
				}
			}
		}
		for _, e := range p.o.St.Events {
			if e.Kind != "call" || e.Fn == nil || !inRw(e.Fn) || e.Fn.Name() != "rewriteStmt" || len(e.Args) != 4 {
				continue
			}
			if !reachSet(p.o.St, e.Args[1], p.in.leaves)["stmt.Post"] {
				continue
			}
			pobj := p.o.St.Obj(e.Args[3])
			if pobj == nil || pobj.Before == nil {
				continue
			}
			postAST, ok := pobj.Before["block"].(Ref)
			if !ok {
				continue
			}
			// is that AST block reachable from something pushed into the body's own block?
			for _, e2 := range p.o.St.Events {
				if e2.Kind == "call" && e2.Fn != nil && inRw(e2.Fn) && (e2.Fn.Name() == "push" || e2.Fn.Name() == "pushReturn") && len(e2.Args) >= 2 {
					if bs, isSym := e2.Args[0].(Sym); isSym && strings.HasPrefix(bs.Name, "ret:") && strings.Contains(bs.Name, "rewriteBlockStmt") {
						if refReachable(p.o.St, e2.Args[1], postAST.ID) {
							postNested++
						}
					}
				}
			}
		}
	}
	if postPaths > 0 && mode == "forpost" {
		c.check(postNested == 0, "RW.TMPL.FORPOST", "yielding for-post is not nested inside the body's thunk", pos,
			fmt.Sprintf("%d yielding-post paths: the lowered post statement is never placed in a continuation of the body's statements", postPaths),
			fmt.Sprintf("%d yielding-post path(s) lower the post statement into a block nested inside the loop body's own thunk (as the continuation of the body's last statement): the post expression resolves names against variables declared in the loop body", postNested))
		c.check(postAfterYield == 0, "RW.TMPL.FORPOST", "yielding for-post is appended to the body only after a statement that cannot yield", pos,
			fmt.Sprintf("%d yielding-post paths: wherever the post statement is appended to the body's own block, the combine table had answered that the body's last statement cannot yield", postPaths),
			fmt.Sprintf("%d yielding-post path(s) append the lowered post statement to the body's block without the combine table having excluded a yielding last statement: after a body ending in a yielding switch the post statement sits behind the `return Bind(…)` of the cases and is skipped in every iteration that yields", postAfterYield))
		c.check(postShared == 0, "RW.TMPL.FORPOST", "yielding for-post is lowered into a scope of its own", pos,
			fmt.Sprintf("%d yielding-post paths lower the post statement into a fresh block", postPaths),
			fmt.Sprintf("%d of %d yielding-post paths append the lowered post statement to the body's own block: the post expression resolves names against variables declared in the loop body (`for ; c; Yield(a) { a := ...; n++ }` yields the body's a)", postShared, postPaths))
	}
	if mode != "agree" {
		return
	}
	if postPaths == 0 {
		c.und("RW.SCOPEAGREE", "yielding for-post lowering", pos, "no path with a yielding post statement found")
	} else {
		c.check(postBad == 0, "RW.SCOPEAGREE", "yielding for-post runs on continue", pos,
			fmt.Sprintf("%d yielding-post paths place the post statement where it also runs on Continue", postPaths),
			fmt.Sprintf("%d of %d yielding-post paths lower the loop as %s: per the runtime tables the rest of a body (second half of a Combine, or statements after the point of `continue`) is skipped on the Continue signal, so `continue` skips the post statement", postBad, postPaths, where))
	}
}

func typeName(t interface{ String() string }) string {
	s := t.String()
	if i := strings.LastIndex(s, "."); i >= 0 {
		s = s[i+1:]
	}
	return s
}

// ------------------------------------------------------------------ RW.TMPL.FOR

// ruleTmplForThunks: a loop condition / post statement is wrapped in a function
// literal for every form it can take (so it is evaluated by the loop, each time,
// not once when the loop value is built).
func (r *rwRT) ruleTmplForThunks() {
	c := r.c
	for _, which := range []string{"ForCondFun", "ForPostFun"} {
		fn := r.method("yieldAst", which)
		c.fn(relName(fn))
		pos := r.w.FnPos(fn)
		var inputs []AV
		if which == "ForCondFun" {
			for _, k := range []string{"Ident", "CallExpr", "BinaryExpr", "SelectorExpr"} {
				inputs = append(inputs, Dyn{T: r.astPtr(k), V: leafSym("x")})
			}
		} else {
			// a bare call f(), x.m(), an inc/dec, an assignment, a send
			st0 := newState()
			_ = st0
			for _, k := range []string{"ExprStmt", "IncDecStmt", "AssignStmt", "SendStmt", "BlockStmt"} {
				inputs = append(inputs, Dyn{T: r.astPtr(k), V: leafSym("x")})
			}
		}
		var err error
		paths := 0
		for _, inp := range inputs {
			st := newState()
			y := r.newYieldAst(st, "seq", exprLeaf(r, "T"))
			in := r.interp(rwConfig{root: fn, inlineAll: true})
			// the statement may be inspected: a bare call statement with a callee and no arguments
			if which == "ForPostFun" {
				_, callee := r.identNode(st, "f")
				_, call := r.heapNode(st, "CallExpr", map[string]AV{"Fun": callee, "Args": SliceV{}})
				in.Fields["x.X"] = call
			}
			for _, o := range in.Run(st, fn, []AV{y, inp}, nil) {
				paths++
				if o.Panicked {
					err = fmt.Errorf("%s panics on a %s", which, typeName(inp.(Dyn).T))
					continue
				}
				var want Pat
				if which == "ForCondFun" {
					want = ndOpen("FuncLit", map[string]Pat{"Body": nd("BlockStmt", map[string]Pat{"List": lst(nd("ReturnStmt", map[string]Pat{"Results": lst(pLeaf{"x"})}))})})
				} else {
					want = ndOpen("FuncLit", map[string]Pat{"Body": nd("BlockStmt", map[string]Pat{"List": lst(pLeaf{"x"})})})
				}
				if e2 := matchTmpl(o.St, o.Ret[0], want); e2 != nil && err == nil {
					err = fmt.Errorf("%s(%s): %v", which, typeName(inp.(Dyn).T), e2)
				}
			}
			r.account(in)
		}
		what := map[string]string{"ForCondFun": "loop condition", "ForPostFun": "loop post statement"}[which]
		c.check(err == nil && paths >= len(inputs), "RW.TMPL.FOR", what+" is wrapped in a thunk", pos,
			fmt.Sprintf("%d paths over %d forms: always `func() { <the original, once> }` — evaluated by the loop on every round, nothing of it when the loop value is built", paths, len(inputs)),
			fmt.Sprint("the ", what, " is not always passed as a function literal around the original (part of it is evaluated once, when the loop is constructed): ", err))
	}
}

func (r *rwRT) ruleTmplFor() {
	c := r.c
	r.ruleTmplForThunks()
	c.min("RW.TMPL.FOR", 6)
	fn := r.method("yieldAst", "CallFor")
	c.fn(relName(fn))
	pos := r.w.FnPos(fn)
	typedNil := Dyn{T: r.astPtr("FuncLit"), V: Nil{}}
	for _, condNil := range []bool{false, true} {
		for _, postNil := range []bool{false, true} {
			var cond, post AV = r.node("FuncLit", "cond"), r.node("FuncLit", "post")
			if condNil {
				cond = typedNil
			}
			if postNil {
				post = typedNil
			}
			st := newState()
			y := r.newYieldAst(st, "seq", r.node("Ident", "T"))
			in := r.interp(rwConfig{root: fn, inlineAll: true})
			outs := in.Run(st, fn, []AV{y, cond, post, r.node("CallExpr", "body")}, nil)
			r.account(in)
			construct := fmt.Sprintf("CallFor[cond=%s,post=%s]", nilStr(condNil), nilStr(postNil))
			if len(outs) != 1 || outs[0].Panicked {
				c.bad("RW.TMPL.FOR", construct, pos, "not a single non-panicking path")
				continue
			}
			o := outs[0]
			name := seqCallName(o.St, o.Ret[0])
			call := o.St.Obj(o.Ret[0])
			args, _ := call.Fields["Args"].(SliceV)
			var roles []string
			for _, a := range args.Elems {
				switch {
				case sameAV(a, cond) && !condNil:
					roles = append(roles, "cond")
				case sameAV(a, post) && !postNil:
					roles = append(roles, "post")
				case strings.Contains(a.String(), "body"):
					roles = append(roles, "body")
				default:
					// nil identifier or typed nil?
					if d, ok := a.(Dyn); ok {
						if n, known := nilness(d.V); known && n {
							roles = append(roles, "TYPED-NIL-NODE")
							continue
						}
						if ob := o.St.Obj(d.V); ob != nil {
							if s, _ := asString(ob.Fields["Name"]); s == "nil" {
								roles = append(roles, "nil")
								continue
							}
						}
					}
					roles = append(roles, "?"+o.St.Render(a))
				}
			}
			var wantName string
			var wantRoles []string
			switch {
			case condNil && postNil:
				wantName, wantRoles = "Loop", []string{"body"}
			case postNil:
				wantName, wantRoles = "While", []string{"cond", "body"}
			case condNil:
				wantName, wantRoles = "For", []string{"nil", "post", "body"}
			default:
				wantName, wantRoles = "For", []string{"cond", "post", "body"}
			}
			got := name + "(" + strings.Join(roles, ",") + ")"
			want := wantName + "(" + strings.Join(wantRoles, ",") + ")"
			c.check(got == want, "RW.TMPL.FOR", construct, pos, "emits seq."+want+" — no nil node ever reaches the argument list", "emits seq."+got+", expected seq."+want)
		}
	}
}

// refReachable: is heap object id reachable from v?
func refReachable(st *State, v AV, id int) bool {
	found := false
	var walk func(v AV, seen map[int]bool)
	walk = func(v AV, seen map[int]bool) {
		if found {
			return
		}
		switch x := v.(type) {
		case Dyn:
			walk(x.V, seen)
		case Ref:
			if x.ID == id {
				found = true
				return
			}
			if seen[x.ID] {
				return
			}
			seen[x.ID] = true
			if o := st.heap[x.ID]; o != nil {
				for _, f := range o.Fields {
					walk(f, seen)
				}
				for _, f := range o.Before {
					walk(f, seen)
				}
				for _, e := range o.Elems {
					walk(e, seen)
				}
				if o.Val != nil {
					walk(o.Val, seen)
				}
			}
		case SliceV:
			for _, e := range x.Elems {
				walk(e, seen)
			}
		case Spread:
			walk(x.V, seen)
		case StructV:
			for _, f := range x.Fields {
				walk(f, seen)
			}
		}
	}
	walk(v, map[int]bool{})
	return found
}

var errInfeasiblePath = fmt.Errorf("infeasible combination of oracle answers")

// switchBreaksRewritten: on this path the body of the switch was traversed, before any clause body was lowered,
// by a callback that (driven here on one node of each relevant kind) replaces an unlabelled break by
// `return seq.Normal()`, leaves continue / labelled branches alone, does not descend into nested loops,
// switches, selects and function literals (their breaks are theirs), and descends into everything else.
func (r *rwRT) switchBreaksRewritten(in *Interp, o Outcome, shp *astInput) error {
	rootObj := o.St.Obj(unwrap(shp.root))
	if rootObj == nil {
		return fmt.Errorf("no switch node")
	}
	body := rootObj.Fields["Body"]
	for _, l := range o.St.Labels {
		if l == "mustNoYield("+argLabel(body)+")=true" {
			return errInfeasiblePath
		}
	}
	// the same answer given clause by clause
	if bo := o.St.Obj(unwrap(body)); bo != nil {
		if l, ok := bo.Fields["List"].(SliceV); ok && len(l.Elems) > 0 {
			all := true
			for _, cl := range l.Elems {
				has := false
				for _, lb := range o.St.Labels {
					if lb == "mustNoYield("+argLabel(cl)+")=true" {
						has = true
					}
				}
				all = all && has
			}
			if all {
				return errInfeasiblePath
			}
		}
	}
	firstLower := len(o.St.Events)
	for i, e := range o.St.Events {
		if e.Kind == "call" && e.Fn != nil && inRw(e.Fn) && e.Fn.Name() == "rewriteBlockStmt" {
			firstLower = i
			break
		}
	}
	var cb AV
	for _, e := range o.St.Events[:firstLower] {
		if e.Kind == "call" && e.Fn != nil && e.Fn.Name() == "Apply" && strings.Contains(fnPkgPath(e.Fn), "astutil") && len(e.Args) == 3 && sameAV(unwrap(e.Args[0]), unwrap(body)) {
			if n, known := nilness(e.Args[2]); !known || !n {
				return fmt.Errorf("the traversal of the switch body uses a post-order callback (pruning needs the pre-order one)")
			}
			cb = e.Args[1]
		}
	}
	if cb == nil {
		// ... or clause by clause: every block handed to the block lowering on this path was traversed, right
		// before, by one and the same pre-order callback (the clauses do not refer to each other)
		lowered, traversed := 0, 0
		var cbFn *ssaFunction
		same := true
		for i, e := range o.St.Events {
			if e.Kind != "call" || e.Fn == nil || !inRw(e.Fn) || e.Fn.Name() != "rewriteBlockStmt" || len(e.Args) < 2 {
				continue
			}
			lowered++
			for _, t := range o.St.Events[:i] {
				if t.Kind == "call" && t.Fn != nil && t.Fn.Name() == "Apply" && strings.Contains(fnPkgPath(t.Fn), "astutil") && len(t.Args) == 3 && sameAV(unwrap(t.Args[0]), unwrap(e.Args[1])) {
					cl, isCl := t.Args[1].(Closure)
					if n, known := nilness(t.Args[2]); !isCl || !known || !n {
						continue
					}
					if cbFn != nil && cbFn != cl.Fn {
						same = false
					}
					cbFn = cl.Fn
					cb = t.Args[1]
					traversed++
					break
				}
			}
		}
		if cb != nil && (traversed != lowered || !same) {
			return fmt.Errorf("%d of the %d clause bodies lowered on this path are traversed for the breaks of the switch before they are lowered", traversed, lowered)
		}
	}
	if cb == nil {
		// ... or by a hand-written recursive walk of the package's own: judged on concrete trees
		var bodyList AV
		if bo := o.St.Obj(unwrap(body)); bo != nil {
			bodyList = bo.Fields["List"]
		}
		for _, e := range o.St.Events[:firstLower] {
			if e.Kind == "call" && e.Fn != nil && inRw(e.Fn) && isRecursiveAstWalk(e.Fn) {
				for _, a := range e.Args {
					// the walk is given the body, or its clause list
					if sameAV(unwrap(a), unwrap(body)) || bodyList != nil && sameAV(unwrap(a), unwrap(bodyList)) {
						return r.switchBreakWalk(bodyOf(e.Fn))
					}
				}
			}
		}
		return fmt.Errorf("the body of the switch is not traversed before its clause bodies are lowered")
	}
	type tc struct {
		kind    string
		fields  map[string]AV
		replace bool // expected: replaced by return Normal()
		descend bool // expected result of the callback when nothing is replaced
	}
	tcs := []tc{
		{"BranchStmt", map[string]AV{"Tok": r.tokConst("BREAK"), "Label": Nil{}}, true, true},
		{"BranchStmt", map[string]AV{"Tok": r.tokConst("CONTINUE"), "Label": Nil{}}, false, true},
		{"BranchStmt", map[string]AV{"Tok": r.tokConst("BREAK"), "Label": Sym{Name: "L", NN: true}}, false, true},
		{"ForStmt", map[string]AV{}, false, false}, {"RangeStmt", map[string]AV{}, false, false},
		{"SwitchStmt", map[string]AV{}, false, false}, {"TypeSwitchStmt", map[string]AV{}, false, false},
		{"SelectStmt", map[string]AV{}, false, false}, {"FuncLit", map[string]AV{}, false, false},
		{"IfStmt", map[string]AV{}, false, true}, {"BlockStmt", map[string]AV{}, false, true},
		{"CaseClause", map[string]AV{}, false, true}, {"LabeledStmt", map[string]AV{}, false, true},
	}
	prev := in.OnCall
	defer func() { in.OnCall = prev }()
	for _, t := range tcs {
		st := o.St.clone()
		_, node := r.heapNode(st, t.kind, t.fields)
		in.OnCall = wrapOnCall(prev, func(cc *CallCtx) []Answer {
			if cc.Fn != nil && cc.Fn.Name() == "Node" && cc.Fn.Signature.Recv() != nil && strings.Contains(cc.Fn.Signature.Recv().Type().String(), "astutil.Cursor") {
				return []Answer{{Ret: []AV{node}, NoEvent: true}}
			}
			return nil
		})
		mark := len(st.Events)
		outs := in.Apply(st, cb, []AV{Sym{Name: "cursor", NN: true}})
		if len(outs) == 0 {
			return fmt.Errorf("the callback has no path for ast.%s", t.kind)
		}
		for _, co := range outs {
			if co.Panicked || len(co.Ret) != 1 {
				return fmt.Errorf("the callback panics on ast.%s", t.kind)
			}
			edits := cursorEdits(co.St, mark)
			if t.replace {
				// does the decision look at anything but the node itself (the cursor's parent, a yield-freeness
				// question about an enclosing statement)?
				asked := len(co.St.Labels) > len(st.Labels)
				for _, e := range co.St.Events[mark:] {
					if e.Kind == "call" && e.Fn != nil && (e.Fn.Name() == "Parent" || inRw(e.Fn) && (e.Fn.Name() == "mustNoYield" || e.Fn.Name() == "containsYield")) {
						asked = true
					}
				}
				if !asked {
					r.switchBreakDepthBlind = true
				}
				want := nd("ReturnStmt", map[string]Pat{"Results": lst(seqCallPat("Normal"))})
				if len(edits) != 1 || edits[0].Fn.Name() != "Replace" || matchTmpl(co.St, edits[0].Args[1], want) != nil {
					return fmt.Errorf("an unlabelled break of the switch is not replaced by `return seq.Normal()`")
				}
				continue
			}
			if len(edits) != 0 {
				return fmt.Errorf("the callback edits ast.%s (%s)", t.kind, canon(t.fields["Tok"]))
			}
			if b, known := asBool(co.Ret[0]); !known || b != t.descend {
				if t.descend {
					return fmt.Errorf("the traversal does not descend into ast.%s: a break of the switch nested in it is missed", t.kind)
				}
				return fmt.Errorf("the traversal descends into ast.%s: the break of a nested loop / switch / closure would be turned into a completion of the outer switch", t.kind)
			}
		}
	}
	return nil
}

// switchBreakWalk: a hand-written walk that turns the breaks of a switch into `return Normal()` is run on concrete
// clause bodies: `break` at the top of a clause, inside a block, inside both arms of an if / else-if chain and
// under a label is replaced; `break` inside a nested for / range / switch / type switch / select is not (it is
// theirs), nor is `continue` or a labelled break.
func (r *rwRT) switchBreakWalk(fn *ssaFunction) error {
	type tc struct {
		desc    string
		build   func(st *State, br AV) AV // the statement around the branch statement
		replace bool
		tok     string
		label   AV
	}
	// statement lists are backing arrays here: the walk writes the replacements into the very slots
	arr := func(st *State, list ...AV) AV {
		return st.alloc(&Obj{Kind: 'a', Elems: append([]AV(nil), list...), Site: "makeslice"})
	}
	blk := func(st *State, list ...AV) AV {
		_, b := r.heapNode(st, "BlockStmt", map[string]AV{"List": arr(st, list...)})
		return b
	}
	cond := exprLeaf(r, "cond")
	cases := []tc{
		{"break at the top of a clause", func(st *State, br AV) AV { return br }, true, "BREAK", Nil{}},
		{"break in a block", func(st *State, br AV) AV { return blk(st, br) }, true, "BREAK", Nil{}},
		{"break in an if body", func(st *State, br AV) AV {
			_, n := r.heapNode(st, "IfStmt", map[string]AV{"Cond": cond, "Body": unwrap(blk(st, br)), "Else": Nil{}})
			return n
		}, true, "BREAK", Nil{}},
		{"break in an else block", func(st *State, br AV) AV {
			_, n := r.heapNode(st, "IfStmt", map[string]AV{"Cond": cond, "Body": unwrap(blk(st)), "Else": blk(st, br)})
			return n
		}, true, "BREAK", Nil{}},
		{"break in an else-if body", func(st *State, br AV) AV {
			_, inner := r.heapNode(st, "IfStmt", map[string]AV{"Cond": cond, "Body": unwrap(blk(st, br)), "Else": Nil{}})
			_, n := r.heapNode(st, "IfStmt", map[string]AV{"Cond": cond, "Body": unwrap(blk(st)), "Else": inner})
			return n
		}, true, "BREAK", Nil{}},
		{"break in a labelled block", func(st *State, br AV) AV {
			_, n := r.heapNode(st, "LabeledStmt", map[string]AV{"Label": Sym{Name: "L", NN: true}, "Stmt": blk(st, br)})
			return n
		}, true, "BREAK", Nil{}},
		{"continue", func(st *State, br AV) AV { return br }, false, "CONTINUE", Nil{}},
		{"labelled break", func(st *State, br AV) AV { return br }, false, "BREAK", Sym{Name: "L", NN: true}},
	}
	for _, k := range []string{"ForStmt", "RangeStmt"} {
		k := k
		cases = append(cases, tc{"break in a nested " + k, func(st *State, br AV) AV {
			_, n := r.heapNode(st, k, map[string]AV{"Body": unwrap(blk(st, br))})
			return n
		}, false, "BREAK", Nil{}})
	}
	for _, k := range []string{"SwitchStmt", "TypeSwitchStmt", "SelectStmt"} {
		k := k
		cases = append(cases, tc{"break in a nested " + k, func(st *State, br AV) AV {
			clause := "CaseClause"
			if k == "SelectStmt" {
				clause = "CommClause"
			}
			_, cl := r.heapNode(st, clause, map[string]AV{"Body": arr(st, br)})
			_, n := r.heapNode(st, k, map[string]AV{"Body": unwrap(blk(st, cl))})
			return n
		}, false, "BREAK", Nil{}})
	}
	for _, t := range cases {
		st := newState()
		brRef, br := r.heapNode(st, "BranchStmt", map[string]AV{"Tok": r.tokConst(t.tok), "Label": t.label})
		stmt := t.build(st, br)
		_, clause := r.heapNode(st, "CaseClause", map[string]AV{"Body": arr(st, stmt)})
		bodyRef, body := r.heapNode(st, "BlockStmt", map[string]AV{"List": arr(st, clause)})
		in := r.interp(rwConfig{root: fn, inlineAll: true})
		in.MaxRecur, in.MaxDepth, in.MaxVisits = 12, 30, 8
		var arg AV = body
		if p := fn.Signature.Params(); p.Len() == 1 {
			if _, isSlice := p.At(0).Type().Underlying().(*types.Slice); isSlice {
				arg = st.Obj(unwrap(body)).Fields["List"] // the walk takes a statement list
			}
		}
		args := []AV{arg}
		if fn.Signature.Recv() != nil {
			args = []AV{Sym{Name: "r", NN: true}, arg}
		}
		outs := in.Run(st, fn, args, nil)
		r.account(in)
		if len(outs) == 0 {
			return fmt.Errorf("the walk has no path for: %s", t.desc)
		}
		for _, o := range outs {
			if o.Panicked || o.St.Truncated {
				return fmt.Errorf("the walk panics or is cut short on: %s", t.desc)
			}
			for _, e := range o.St.Events {
				if e.Kind == "call" && e.Fn != nil && inRw(e.Fn) && (e.Fn.Name() == "mustNoYield" || e.Fn.Name() == "containsYield") {
					goto asked
				}
			}
			r.switchBreakDepthBlind = true
		asked:
			// is the branch statement still in the tree?
			still := strings.Contains(o.St.Render(bodyRef), o.St.Render(brRef))
			normal := strings.Contains(o.St.Render(bodyRef), "ast.ReturnStmt")
			if t.replace && (still || !normal) {
				return fmt.Errorf("%s is not replaced by `return seq.Normal()`: %s", t.desc, o.St.Render(bodyRef))
			}
			if !t.replace && (!still || normal) {
				return fmt.Errorf("%s is replaced although it does not refer to the switch: %s", t.desc, o.St.Render(bodyRef))
			}
		}
	}
	return nil
}
