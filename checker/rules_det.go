package main

// DET.* (property C15) and GEN.* (property C16).

import (
	"fmt"
	"go/build/constraint"
	"go/constant"
	"go/token"
	"go/types"
	"regexp"
	"strings"

	"golang.org/x/tools/go/ssa"
)

// ------------------------------------------------------------------ DET.MAPRANGE / DET.SOURCES

func ruleDetScan(c *Ctx) {
	w := c.W
	nRange, nCalls := 0, 0
	badRange, badSrc := false, false
	for _, path := range []string{pathRw, pathCogen} {
		for _, f := range w.FuncsOf(path) {
			c.fn(relName(f))
			for _, b := range f.Blocks {
				for _, ins := range b.Instrs {
					switch x := ins.(type) {
					case *ssa.Range:
						nRange++
						if _, isMap := x.X.Type().Underlying().(*types.Map); isMap {
							badRange = true
							c.bad("DET.MAPRANGE", "range over a map in "+relName(f), w.Pos(x.Pos()), "iteration order of a map is random: whatever is produced or numbered in this loop differs from run to run (generated names, order of rewriting)")
						}
					case ssa.CallInstruction:
						nCalls++
						callee := x.Common().StaticCallee()
						if callee == nil || callee.Object() == nil || callee.Object().Pkg() == nil {
							continue
						}
						p := callee.Object().Pkg().Path()
						n := callee.Name()
						nondet := p == "time" || p == "math/rand" || p == "math/rand/v2" || p == "crypto/rand" ||
							(p == "os" && (n == "Getpid" || n == "Hostname" || n == "Getppid" || n == "Environ" || n == "MkdirTemp" || n == "CreateTemp")) ||
							(p == "os" && n == "Getenv" && path == pathRw)
						if nondet {
							badSrc = true
							c.bad("DET.SOURCES", "call of "+p+"."+n+" in "+relName(f), w.Pos(x.Pos()), "the output must be a function of the sources only: time, randomness, process identity and environment must not reach it")
						}
					}
				}
			}
		}
	}
	c.CallSites += nCalls
	if !badRange {
		c.ok("DET.MAPRANGE", "package rewriter and cmd/cogen", "", fmt.Sprintf("%d range loops: none iterates over a map", nRange))
	}
	if !badSrc {
		c.ok("DET.SOURCES", "package rewriter and cmd/cogen", "", fmt.Sprintf("%d call sites: no call into time / math/rand / crypto/rand / os.Getpid, Hostname, MkdirTemp (cogen's GOFILE test is outside the output path)", nCalls))
	}
}

// ------------------------------------------------------------------ DET.GENSYM

// nameGenerator: the function that names the iterator temporaries — whatever it is called and whichever type it
// is a method of: the function rewriteRangeToForIter calls with the temporary's prefix (a string constant) and
// whose string result becomes the identifier.
func (r *rwRT) nameGenerator() *ssa.Function {
	from := r.method("yieldRewriter", "rewriteRangeToForIter")
	for _, b := range from.Blocks {
		for _, ins := range b.Instrs {
			call, ok := ins.(ssa.CallInstruction)
			if !ok {
				continue
			}
			callee := call.Common().StaticCallee()
			if callee == nil || !inRw(callee) || callee.Signature.Results().Len() != 1 {
				continue
			}
			if bt, ok := callee.Signature.Results().At(0).Type().Underlying().(*types.Basic); !ok || bt.Kind() != types.String {
				continue
			}
			for _, a := range call.Common().Args {
				if k, ok := a.(*ssa.Const); ok && k.Value != nil && k.Value.Kind() == constant.String {
					return bodyOf(callee)
				}
			}
		}
	}
	return nil
}

// nameGeneratorMust: as nameGenerator; its absence is reported as undecided.
func (r *rwRT) nameGeneratorMust() *ssa.Function {
	if fn := r.nameGenerator(); fn != nil {
		return fn
	}
	undecided("the function that names the iterator temporaries is not found (rewriteRangeToForIter calls no string-valued function of the package with a constant prefix)")
	return nil
}

func (r *rwRT) ruleGensym() {
	c := r.c
	c.min("DET.GENSYM", 2)
	fn := r.nameGeneratorMust()
	c.fn(relName(fn))
	pos := r.w.FnPos(fn)
	// (1) behaviour outside test mode: counter incremented, name built from the counter
	in := r.interp(rwConfig{root: fn, inlineAll: true})
	r.setTestMode(in, false)
	args := []AV{mkString("it")}
	if fn.Signature.Recv() != nil {
		args = []AV{Sym{Name: "r", NN: true}, mkString("it")}
	}
	all := in.Run(nil, fn, args, nil)
	r.account(in)
	// the mode may be kept in the generator's own state (a flag taken when it was made): the path that advances
	// a counter is the one outside test mode
	var outs []Outcome
	for _, o := range all {
		if o.Panicked {
			continue
		}
		for _, e := range o.St.Events {
			if e.Kind == "store" && strings.HasPrefix(e.Target, "r.") {
				outs = append(outs, o)
				break
			}
		}
	}
	if len(outs) == 0 && len(all) == 1 {
		outs = all
	}
	var counterKey string
	good := len(outs) == 1 && !outs[0].Panicked
	why := "not a single path outside test mode"
	if good {
		o := outs[0]
		var stored AV
		for _, e := range o.St.Events {
			if e.Kind == "store" && strings.HasPrefix(e.Target, "r.") {
				counterKey, stored = e.Target, e.Args[0]
			}
		}
		if stored == nil {
			good, why = false, "no counter is advanced: every iterator temporary of a file gets the same name"
		} else {
			base, off, lin := linear(stored)
			good = lin && off == 1 && strings.Contains(base.String(), strings.TrimPrefix(counterKey, "r."))
			why = "counter is not advanced by exactly one per call: " + stored.String()
			if good {
				ret := o.St.Render(o.Ret[0])
				// the name is the prefix followed by the decimal rendering of the new counter value, whichever
				// strconv / fmt function renders it (their calls are events when the result is opaque)
				text := ret
				for _, e := range o.St.Events {
					if e.Kind == "call" && e.Fn != nil && (fnPkgPath(e.Fn) == "strconv" || fnPkgPath(e.Fn) == "fmt") {
						text += " " + e.Fn.Name() + "("
						for _, a := range e.Args {
							text += o.St.Render(a) + ","
						}
						text += ")"
					}
				}
				rendered := false
				for _, f := range []string{"Itoa", "FormatInt", "AppendInt", "FormatUint", "AppendUint", "Sprint", "Sprintf"} {
					if strings.Contains(text, f) {
						rendered = true
					}
				}
				good = rendered && strings.Contains(text, `"it"`) && strings.Contains(text, strings.TrimPrefix(counterKey, "r."))
				why = "the generated name is not prefix+counter: " + ret
			}
		}
	}
	c.check(good, "DET.GENSYM", "gensym advances its counter", pos, "each call advances the counter by one and names the temporary prefix+<new value>: unique within the counter's lifetime", why)
	if counterKey == "" {
		return
	}
	// (2) lifetime of the counter: per file
	path := strings.Split(strings.TrimPrefix(counterKey, "r."), ".")
	ownerType := "yieldRewriter"
	if fn.Signature.Recv() != nil {
		rt := fn.Signature.Recv().Type()
		if pt, ok := rt.(*types.Pointer); ok {
			rt = pt.Elem()
		}
		if nt, ok := rt.(*types.Named); ok {
			ownerType = nt.Obj().Name()
			// a generator kept by value inside another struct of the package lives as long as that struct
			for lifted := true; lifted; {
				lifted = false
				for _, name := range r.w.Pkgs[pathRw].Types.Scope().Names() {
					tn, ok := r.w.Pkgs[pathRw].Types.Scope().Lookup(name).(*types.TypeName)
					if !ok {
						continue
					}
					stt, ok := tn.Type().Underlying().(*types.Struct)
					if !ok || tn.Name() == ownerType {
						continue
					}
					for i := 0; i < stt.NumFields(); i++ {
						if fnt, ok := stt.Field(i).Type().(*types.Named); ok && fnt.Obj().Name() == ownerType && fnt.Obj().Pkg() != nil && fnt.Obj().Pkg().Path() == pathRw {
							ownerType, lifted = tn.Name(), true
						}
					}
				}
			}
		}
	}
	if len(path) == 2 {
		// r.<field>.<counter>: owner is the type of field
		recv := fn.Signature.Recv().Type()
		if pt, ok := recv.(*types.Pointer); ok {
			recv = pt.Elem()
		}
		if st, ok := recv.Underlying().(*types.Struct); ok {
			for i := 0; i < st.NumFields(); i++ {
				if st.Field(i).Name() == path[0] {
					t := st.Field(i).Type()
					if pt, ok := t.(*types.Pointer); ok {
						t = pt.Elem()
					}
					if nt, ok := t.(*types.Named); ok {
						ownerType = nt.Obj().Name()
					}
				}
			}
		}
	}
	counterField := path[len(path)-1]
	rewriteFile := r.method("rewriter", "rewriteFile")
	// allocation sites of the owner
	perFile := false
	resetInFile := false
	var allocIn []string
	for _, f := range r.w.FuncsOf(pathRw) {
		for _, b := range f.Blocks {
			for _, ins := range b.Instrs {
				if al, ok := ins.(*ssa.Alloc); ok {
					if nt, ok := al.Type().Underlying().(*types.Pointer).Elem().(*types.Named); ok && nt.Obj().Name() == ownerType && nt.Obj().Pkg().Path() == pathRw {
						allocIn = append(allocIn, relName(f))
						// is f called from rewriteFile (directly or from its closures)?
						if calledFrom(rewriteFile, outermost(f)) {
							perFile = true
						}
					}
				}
				if st, ok := ins.(*ssa.Store); ok && outermost(f) == rewriteFile {
					if fa, ok := st.Addr.(*ssa.FieldAddr); ok && fieldName(fa.X.Type(), fa.Field) == counterField {
						resetInFile = true
					}
				}
			}
		}
	}
	c.check(perFile || resetInFile, "DET.GENSYM", "counter lifetime is one file", pos,
		fmt.Sprintf("the counter lives in %s, allocated in %s for every file (or is reset in rewriteFile): the names in a file do not depend on the files processed before it", ownerType, strings.Join(allocIn, ", ")),
		fmt.Sprintf("the counter %s lives in %s (allocated in %s), which outlives a file, and rewriteFile does not reset it: the iterator names of a file depend on how many range loops were rewritten in the files and packages visited before it", counterField, ownerType, strings.Join(allocIn, ", ")))
}

// calledFrom: does `from` (or one of its closures) statically call target?
func calledFrom(from, target *ssa.Function) bool {
	return calledFromDepth(from, target, 3)
}

func calledFromDepth(from, target *ssa.Function, depth int) bool {
	if depth < 0 {
		return false
	}
	found := false
	var walk func(f *ssa.Function)
	walk = func(f *ssa.Function) {
		for _, b := range f.Blocks {
			for _, ins := range b.Instrs {
				if call, ok := ins.(ssa.CallInstruction); ok {
					if callee := call.Common().StaticCallee(); callee != nil {
						if bodyOf(callee) == target {
							found = true
						} else if inRw(callee) && bodyOf(callee) != from && calledFromDepth(bodyOf(callee), target, depth-1) {
							found = true
						}
					}
				}
			}
		}
		for _, a := range f.AnonFuncs {
			walk(a)
		}
	}
	walk(from)
	return found
}

// ------------------------------------------------------------------ DET.TMP / GEN.*

type gogenRun struct {
	o      Outcome
	filter AV
	print1 AV // printer of the rewrite stage
	print2 AV // printer of the optimise stage
	in     *Interp
}

func (r *rwRT) pipelineInterp(root *ssa.Function, testMode bool) *Interp {
	in := r.interp(rwConfig{root: root, boundaries: map[string]bool{"mkRewriter": true, "mkOptimizer": true, "rewriteAllFiles": true, "optimizeAllFiles": true, "resetLog": true}})
	in.MaxVisits = 3
	r.setTestMode(in, testMode)
	in.OnCall = wrapOnCall(in.OnCall, func(cc *CallCtx) []Answer {
		if cc.Fn == nil || cc.Fn.Object() == nil || cc.Fn.Object().Pkg() == nil {
			return nil
		}
		p, n := cc.Fn.Object().Pkg().Path(), cc.Fn.Name()
		switch {
		case p == "path/filepath" && n == "Abs" && len(cc.Args) == 1:
			return []Answer{{Ret: []AV{cc.Args[0], Nil{}}, NoEvent: true}}
		case p == "os" && (n == "MkdirAll" || n == "RemoveAll"):
			return []Answer{{Ret: []AV{Nil{}}}}
		}
		return nil
	})
	return in
}

func (r *rwRT) runPipeline(name string, args []AV, testMode bool) (*gogenRun, error) {
	return r.runPipelineFrom(nil, name, args, testMode)
}

// runPipelineFrom starts from a state that already holds heap objects the arguments refer to
// (option closures capture their argument through a cell).
func (r *rwRT) runPipelineFrom(st0 *State, name string, args []AV, testMode bool) (*gogenRun, error) {
	fn := r.w.Func(pathRw, name)
	r.c.fn(relName(fn))
	in := r.pipelineInterp(fn, testMode)
	outs := in.Run(st0, fn, args, nil)
	r.account(in)
	var live []Outcome
	for _, o := range outs {
		if !o.Panicked && !o.St.Truncated {
			live = append(live, o)
		}
	}
	if len(live) != 1 {
		return nil, fmt.Errorf("%s has %d complete non-panicking paths (expected 1)", name, len(live))
	}
	g := &gogenRun{o: live[0], in: in}
	for _, e := range live[0].St.Events {
		if e.Kind != "call" || e.Fn == nil {
			continue
		}
		switch e.Fn.Name() {
		case "WithFileFilter":
			if len(e.Args) == 1 {
				g.filter = e.Args[0]
			}
		case "rewriteAllFiles":
			if len(e.Args) == 2 {
				g.print1 = e.Args[1]
			}
		case "optimizeAllFiles":
			if len(e.Args) == 2 {
				g.print2 = e.Args[1]
			}
		}
	}
	return g, nil
}

func (r *rwRT) ruleTmpDir() {
	c := r.c
	c.min("DET.TMP", 4)
	for _, entry := range []struct {
		name string
		args []AV
		tmp  string
	}{
		{"Compile", []AV{mkString("/src"), mkString("/out"), SliceV{}}, "/out_tmp"},
		{"GoGen", []AV{mkString("/p/pkg"), SliceV{}}, "/p/pkg_tmp"},
	} {
		for _, testMode := range []bool{false, true} {
			fn := r.w.Func(pathRw, entry.name)
			pos := r.w.FnPos(fn)
			g, err := r.runPipeline(entry.name, entry.args, testMode)
			construct := fmt.Sprintf("%s (test mode %v)", entry.name, testMode)
			if err != nil {
				c.und("DET.TMP", construct, pos, err.Error())
				continue
			}
			// event order: RemoveAll(tmp) < MkdirAll(tmp) < first loader ; defer RemoveAll(tmp) outside test mode
			idx := map[string]int{"rm": -1, "mk": -1, "load": -1, "defer": -1}
			for i, e := range g.o.St.Events {
				arg0 := ""
				if len(e.Args) > 0 {
					arg0, _ = asString(e.Args[0])
				}
				switch {
				case e.Kind == "call" && e.Fn != nil && e.Fn.Name() == "RemoveAll" && arg0 == entry.tmp && idx["rm"] < 0:
					idx["rm"] = i
				case e.Kind == "call" && e.Fn != nil && e.Fn.Name() == "MkdirAll" && arg0 == entry.tmp && idx["mk"] < 0:
					idx["mk"] = i
				case e.Kind == "call" && e.Fn != nil && e.Fn.Name() == "MustNew" && idx["load"] < 0:
					idx["load"] = i
				case e.Kind == "defer" && e.Fn != nil && e.Fn.Name() == "RemoveAll" && arg0 == entry.tmp:
					idx["defer"] = i
				case e.Kind == "defer":
					// a deferred clean-up function: evaluate it and look for the removal inside
					if _, isClo := e.Callee.(Closure); isClo {
						for _, o2 := range g.in.Apply(g.o.St, e.Callee, e.Args) {
							for _, e2 := range o2.St.Events[len(g.o.St.Events):] {
								if e2.Kind == "call" && e2.Fn != nil && e2.Fn.Name() == "RemoveAll" && len(e2.Args) > 0 {
									if a, _ := asString(e2.Args[0]); a == entry.tmp {
										idx["defer"] = i
									}
								}
							}
						}
					}
				}
			}
			// which directory each stage loads, and what else is removed
			var loads []string
			strayRemoval := ""
			noteRemoval := func(args []AV) {
				if len(args) > 0 {
					if a, ok := asString(args[0]); ok && a != entry.tmp {
						strayRemoval = a
					}
				}
			}
			for _, e := range g.o.St.Events {
				if e.Fn == nil {
					continue
				}
				if e.Kind == "call" && e.Fn.Name() == "MustNew" && len(e.Args) > 0 {
					d, _ := asString(e.Args[0])
					loads = append(loads, d)
				}
				if (e.Kind == "call" || e.Kind == "defer") && (e.Fn.Name() == "RemoveAll" || e.Fn.Name() == "Remove") {
					noteRemoval(e.Args)
				}
				if e.Kind == "defer" {
					if _, isClo := e.Callee.(Closure); isClo {
						for _, o2 := range g.in.Apply(g.o.St, e.Callee, e.Args) {
							for _, e2 := range o2.St.Events[len(g.o.St.Events):] {
								if e2.Kind == "call" && e2.Fn != nil && (e2.Fn.Name() == "RemoveAll" || e2.Fn.Name() == "Remove") {
									noteRemoval(e2.Args)
								}
							}
						}
					}
				}
			}
			if !testMode {
				src := ""
				if s0, ok := asString(entry.args[0]); ok {
					src = s0
				}
				c.check(len(loads) == 2 && loads[0] == src && loads[1] == entry.tmp, "DET.TMP", construct+": the stages load the source and the intermediate directory", pos,
					"first stage loads "+src+", second stage loads "+entry.tmp,
					fmt.Sprintf("the two stages load %q (expected the source directory, then the intermediate one)", loads))
				c.check(strayRemoval == "", "DET.TMP", construct+": nothing but the intermediate directory is removed", pos,
					"the only directory removed is "+entry.tmp, "the run removes "+strayRemoval+" (sources or output)")
			}
			fresh := idx["rm"] >= 0 && idx["mk"] > idx["rm"] && idx["load"] > idx["mk"]
			c.check(fresh, "DET.TMP", construct+": intermediate directory starts empty", pos,
				"the intermediate directory is removed and re-created before anything is loaded or written: leftovers of earlier runs cannot reach the output",
				"the intermediate directory "+entry.tmp+" is not emptied before use: whatever an earlier (killed or test-mode) run left there is optimised and written to the output")
			if !testMode {
				c.check(idx["defer"] >= 0, "DET.TMP", construct+": intermediate directory removed afterwards", pos,
					"its removal is deferred right after creation (runs on every exit, also on panics)",
					"the intermediate directory "+entry.tmp+" is not removed after the run: it is left behind next to the package")
			}
		}
	}
}

// ------------------------------------------------------------------ GEN.HEADER / TAG / FILTER / NAME / ENV

var generatedRe = regexp.MustCompile(`^// Code generated .* DO NOT EDIT\.$`)

func (r *rwRT) ruleGenHeader() {
	c := r.c
	c.min("GEN.HEADER", 1)
	obj, _ := r.w.Pkgs[pathRw].Types.Scope().Lookup("fileComment").(*types.Const)
	pos, format, text := "", "%s", ""
	if obj != nil && obj.Val().Kind() == constant.String {
		pos = r.w.Pos(obj.Pos())
		format = constant.StringVal(obj.Val())
		text = strings.ReplaceAll(format, "%s", "co")
	} else {
		// no such constant: the header is whatever the rewrite-stage printer of GoGen, run with the default
		// options, hands to the file writer (that it follows a custom tag is GEN.TAG's obligation)
		fn := r.w.Func(pathRw, "GoGen")
		pos = r.w.FnPos(fn)
		g, err := r.runPipeline("GoGen", []AV{mkString("/home/my_co.good/pkg"), SliceV{}}, false)
		if err != nil || g.print1 == nil {
			c.und("GEN.HEADER", "file header constant", pos, "neither a constant fileComment nor a rewrite-stage printer of GoGen found")
			return
		}
		st := g.o.St.clone()
		name := "/home/my_co.good/pkg/a_co.go"
		file := st.alloc(&Obj{Kind: 's', Fields: map[string]AV{"Filename": mkString(name)}})
		found := false
		for _, o := range g.in.Apply(st, g.print1, []AV{mkString(name), file}) {
			if o.Panicked {
				continue
			}
			for _, e := range o.St.Events[len(st.Events):] {
				if e.Kind == "call" && e.Fn != nil && strings.HasPrefix(e.Fn.Name(), "Write") && len(e.Args) >= 3 {
					if cm, ok := asString(e.Args[2]); ok {
						text, found = cm, true
					}
				}
			}
		}
		if !found {
			c.und("GEN.HEADER", "file header constant", pos, "the header the rewrite-stage printer writes is not a constant text")
			return
		}
	}
	lines := strings.Split(text, "\n")
	var err error
	switch {
	case strings.Count(format, "%s") != 1 || strings.Count(format, "%") != 1:
		err = fmt.Errorf("the header must take exactly the build tag as its single parameter")
	case len(lines) < 3:
		err = fmt.Errorf("header too short")
	default:
		expr, perr := constraint.Parse(lines[0])
		if perr != nil {
			err = fmt.Errorf("first line is not a build constraint: %v", perr)
		} else if expr.Eval(func(tag string) bool { return tag == "co" }) || !expr.Eval(func(tag string) bool { return false }) {
			err = fmt.Errorf("the constraint %q does not exclude the file exactly when the tag is set", lines[0])
		} else if lines[1] != "" {
			err = fmt.Errorf("the build constraint must be followed by a blank line")
		} else {
			found := false
			for _, l := range lines[2:] {
				if generatedRe.MatchString(l) {
					found = true
				}
			}
			if !found {
				err = fmt.Errorf("no line matches Go's generated-code convention `^// Code generated .* DO NOT EDIT\\.$`")
			}
		}
	}
	c.check(err == nil, "GEN.HEADER", "file header constant", pos, "`//go:build !<tag>`, blank line, `// Code generated ... DO NOT EDIT.`: outputs are excluded under the tag and recognised as generated", fmt.Sprint(err))
}

type wr struct{ name, comment string }

// goGenCustom: GoGen evaluated with a custom build tag and file suffix.
func (r *rwRT) goGenCustom(pos string, runPrinter func(g *gogenRun, p AV, filename string) (wr, error)) {
	c := r.c
	st0 := newState()
	mkOpt := func(ctor, val string) (AV, error) {
		fn := r.w.FuncOpt(pathRw, ctor)
		if fn == nil {
			return nil, fmt.Errorf("option constructor %s not found", ctor)
		}
		in := r.pipelineInterp(fn, false)
		outs := in.Run(st0, fn, []AV{mkString(val)}, nil)
		if len(outs) != 1 || outs[0].Panicked || len(outs[0].Ret) != 1 {
			return nil, fmt.Errorf("%s is not a single straight-line construction", ctor)
		}
		st0 = outs[0].St // the closure's captured cell lives in this state
		return outs[0].Ret[0], nil
	}
	tagOpt, e1 := mkOpt("WithBuildTag", "gen")
	sufOpt, e2 := mkOpt("WithFileSuffix", "src")
	if e1 != nil || e2 != nil {
		c.und("GEN.TAG", "custom options", pos, fmt.Sprint(e1, e2))
		return
	}
	st0.Events = nil
	g, err := r.runPipelineFrom(st0, "GoGen", []AV{mkString("/home/proj/pkg"), SliceV{Elems: []AV{tagOpt, sufOpt}}}, false)
	if err != nil {
		c.und("GEN.TAG", "custom options", pos, err.Error())
		return
	}
	var tagLoader AV
	for _, e := range g.o.St.Events {
		if e.Kind == "call" && e.Fn != nil && e.Fn.Name() == "WithBuildTag" && len(e.Args) == 1 && tagLoader == nil {
			tagLoader = e.Args[0]
		}
	}
	if g.print1 == nil || g.print2 == nil || g.filter == nil {
		c.und("GEN.TAG", "custom options", pos, "printers or file filter not found")
		return
	}
	dir, tmp := "/home/proj/pkg", "/home/proj/pkg_tmp"
	w1, err1 := runPrinter(g, g.print1, dir+"/a_src.go")
	var w2 wr
	var err2 error
	if err1 == nil {
		w2, err2 = runPrinter(g, g.print2, w1.name)
	}
	lt, _ := asString(tagLoader)
	h1 := strings.SplitN(w1.comment, "\n", 2)[0]
	h2 := strings.SplitN(w2.comment, "\n", 2)[0]
	c.check(err1 == nil && err2 == nil && lt == "gen" && h1 == "//go:build !gen" && h2 == "//go:build !gen", "GEN.TAG", "loader tag = header tag (WithBuildTag(\"gen\"))", pos,
		"with a custom tag the loader uses it and both stages write the header negating it",
		fmt.Sprintf("with WithBuildTag(\"gen\") the loader tag is %q, the intermediate header %q, the final header %q (%v %v): outputs carrying another constraint stay visible under the custom tag and are processed again by the next run", lt, h1, h2, err1, err2))
	c.check(err1 == nil && err2 == nil && w1.name == tmp+"/a.go" && w2.name == dir+"/a.go", "GEN.NAME", "output of a_src.go (WithFileSuffix(\"src\"))", pos, "written as a.go next to its source",
		fmt.Sprintf("with WithFileSuffix(\"src\") %s is written as %q (intermediate %q)", dir+"/a_src.go", w2.name, w1.name))
	for _, tc := range []struct {
		name string
		want bool
	}{{"/p/a_src.go", true}, {"/p/a_src_test.go", true}, {"/p/a_co.go", false}} {
		st := g.o.St.clone()
		file := st.alloc(&Obj{Kind: 's', Fields: map[string]AV{"Filename": mkString(tc.name)}})
		outs := g.in.Apply(st, g.filter, []AV{file})
		got, known := false, false
		if len(outs) == 1 && !outs[0].Panicked && len(outs[0].Ret) == 1 {
			got, known = asBool(outs[0].Ret[0])
		}
		c.check(known && got == tc.want, "GEN.FILTER", "file "+tc.name+" (WithFileSuffix(\"src\"))", pos, fmt.Sprintf("processed: %v", tc.want), fmt.Sprintf("file filter answers %v (known=%v), expected %v", got, known, tc.want))
	}
}

func (r *rwRT) ruleGoGen() {
	c := r.c
	c.min("GEN.TAG", 1)
	c.min("GEN.FILTER", 4)
	c.min("GEN.NAME", 5)
	fn := r.w.Func(pathRw, "GoGen")
	pos := r.w.FnPos(fn)
	g, err := r.runPipeline("GoGen", []AV{mkString("/home/my_co.good/pkg"), SliceV{}}, false)
	if err != nil {
		c.und("GEN.TAG", "GoGen", pos, err.Error())
		return
	}
	// GEN.TAG: the tag given to the rewrite-stage loader is the tag negated in the header
	var tagLoader, tagHeader AV
	suffixDefault := ""
	for _, e := range g.o.St.Events {
		if e.Kind == "call" && e.Fn != nil && e.Fn.Name() == "WithBuildTag" && len(e.Args) == 1 && tagLoader == nil {
			tagLoader = e.Args[0]
		}
	}
	// header: WriteWithComment(filename, comment) inside the printers; evaluate printer 1 on a file
	runPrinterFor := func(g *gogenRun, p AV, filename string) (wr, error) {
		st := g.o.St.clone()
		file := st.alloc(&Obj{Kind: 's', Fields: map[string]AV{"Filename": mkString(filename)}})
		outs := g.in.Apply(st, p, []AV{mkString(filename), file})
		if len(outs) != 1 || outs[0].Panicked {
			return wr{}, fmt.Errorf("printer is not a single path")
		}
		for _, e := range outs[0].St.Events[len(st.Events):] {
			if e.Kind == "call" && e.Fn != nil && strings.HasPrefix(e.Fn.Name(), "Write") && len(e.Args) >= 3 {
				n, ok1 := asString(e.Args[1])
				cm, ok2 := asString(e.Args[2])
				if !ok1 || !ok2 {
					return wr{}, fmt.Errorf("output name or header is not determined by the input name: %s / %s", e.Args[1], e.Args[2])
				}
				return wr{n, cm}, nil
			}
		}
		return wr{}, fmt.Errorf("printer does not write the file")
	}
	runPrinter := func(p AV, filename string) (wr, error) { return runPrinterFor(g, p, filename) }
	if g.print1 == nil || g.print2 == nil || g.filter == nil {
		c.und("GEN.NAME", "GoGen stages", pos, "rewrite-stage printer, optimise-stage printer or file filter not found")
		return
	}
	w1, err1 := runPrinter(g.print1, "/home/my_co.good/pkg/a_co.go")
	if err1 == nil {
		first := strings.SplitN(w1.comment, "\n", 2)[0]
		tagHeader = mkString(strings.TrimPrefix(first, "//go:build !"))
		if s, ok := asString(tagLoader); ok {
			suffixDefault = s
		}
	}
	c.check(err1 == nil && tagLoader != nil && sameAV(tagLoader, tagHeader), "GEN.TAG", "loader tag = header tag", pos,
		"the rewrite stage loads the package under the very tag the header of its outputs negates ("+suffixDefault+"): outputs are invisible to the next run, sources invisible to normal builds",
		fmt.Sprintf("the tag given to the loader (%v) and the tag negated in the header (%v) differ: %v", tagLoader, tagHeader, err1))
	// a package filter on the loader must not drop packages of the directory: the package itself and its external
	// test package `p_test` (a *_co_test.go file in package p_test gets its sibling too)
	for _, e := range g.o.St.Events {
		if e.Kind != "call" || e.Fn == nil || e.Fn.Name() != "WithPkgFilter" || len(e.Args) != 1 {
			continue
		}
		for _, pp := range []string{"example.com/m/pkg", "example.com/m/pkg_test", "example.com/m/pkg/sub"} {
			st := g.o.St.clone()
			po := st.alloc(&Obj{Kind: 's', Fields: map[string]AV{"PkgPath": mkString(pp), "ID": mkString(pp), "Name": mkString(pp[strings.LastIndex(pp, "/")+1:])}})
			outs := g.in.Apply(st, e.Args[0], []AV{po})
			keep, known := false, false
			if len(outs) == 1 && !outs[0].Panicked && len(outs[0].Ret) == 1 {
				keep, known = asBool(outs[0].Ret[0])
			}
			c.check(known && keep, "GEN.FILTER", "package "+pp+" passes the loader's package filter", pos, "processed",
				fmt.Sprintf("the package filter given to the loader answers %v (known=%v) for %s: its *_co.go / *_co_test.go files get no derived sibling", keep, known, pp))
		}
	}
	// the same with non-default options: GoGen(dir, WithBuildTag("gen"), WithFileSuffix("src")) — header, loader,
	// filter and name mapping must all follow the options (a header built from the default tag leaves the outputs
	// visible to the next run under the custom tag: every declaration is then seen twice)
	r.goGenCustom(pos, runPrinterFor)
	// GEN.FILTER: which files are processed
	for _, tc := range []struct {
		name string
		want bool
	}{{"/p/a_co.go", true}, {"/p/a_co_test.go", true}, {"/p/node_counter_co.go", true}, {"/p/a.go", false}, {"/p/a_test.go", false}, {"/p/aco.go", false}, {"/p/a_co.go.bak", false}} {
		st := g.o.St.clone()
		file := st.alloc(&Obj{Kind: 's', Fields: map[string]AV{"Filename": mkString(tc.name)}})
		outs := g.in.Apply(st, g.filter, []AV{file})
		got, known := false, false
		if len(outs) == 1 && !outs[0].Panicked && len(outs[0].Ret) == 1 {
			got, known = asBool(outs[0].Ret[0])
		}
		c.check(known && got == tc.want, "GEN.FILTER", "file "+tc.name, pos, fmt.Sprintf("processed: %v", tc.want), fmt.Sprintf("file filter answers %v (known=%v), expected %v: exactly the *_<suffix>.go and *_<suffix>_test.go files are processed", got, known, tc.want))
	}
	// GEN.NAME: name mapping of both stages
	dir, tmp := "/home/my_co.good/pkg", "/home/my_co.good/pkg_tmp"
	for _, tc := range []struct{ in, mid, out string }{
		{dir + "/a_co.go", tmp + "/a.go", dir + "/a.go"},
		{dir + "/a_co_test.go", tmp + "/a_test.go", dir + "/a_test.go"},
		{dir + "/node_counter_co.go", tmp + "/node_counter.go", dir + "/node_counter.go"},
		{dir + "/sub/b_co.go", tmp + "/sub/b.go", dir + "/sub/b.go"},
		{dir + "/sub_co/b_co_test.go", tmp + "/sub_co/b_test.go", dir + "/sub_co/b_test.go"},
	} {
		w1, e1 := runPrinter(g.print1, tc.in)
		var w2 wr
		var e2 error
		if e1 == nil {
			w2, e2 = runPrinter(g.print2, w1.name)
		}
		good := e1 == nil && e2 == nil && w1.name == tc.mid && w2.name == tc.out
		detail := ""
		if !good {
			detail = fmt.Sprintf("%s is written as %q (intermediate %q), expected %q (intermediate %q) %v %v: exactly one sibling with the suffix removed must be written", tc.in, w2.name, w1.name, tc.out, tc.mid, e1, e2)
		}
		c.check(good, "GEN.NAME", "output of "+strings.TrimPrefix(tc.in, dir+"/"), pos, "written as "+strings.TrimPrefix(tc.out, dir+"/")+" next to its source", detail)
	}
}

func (r *rwRT) ruleGenEnv() {
	c := r.c
	c.min("GEN.ENV", 1)
	fn := r.w.FuncOpt(pathCogen, "main")
	if fn == nil {
		c.und("GEN.ENV", "cogen main", "", "cmd/cogen main not found")
		return
	}
	c.fn(relName(fn))
	pos := r.w.FnPos(fn)
	ok := true
	why := ""
	for _, env := range []string{"", "walk_co.go", "walk_co_test.go", "gen.go"} {
		in := &Interp{W: r.w, MaxDepth: 6, Inline: func(f *ssa.Function) bool { return fnPkgPath(f) == pathCogen }}
		env := env
		in.OnCall = func(cc *CallCtx) []Answer {
			if cc.Fn != nil && cc.Fn.Name() == "Getenv" && fnPkgPath(cc.Fn) == "os" {
				return []Answer{{Ret: []AV{mkString(env)}}}
			}
			// os.LookupEnv: unset, and set-but-empty (both are "not in go:generate mode")
			if cc.Fn != nil && cc.Fn.Name() == "LookupEnv" && fnPkgPath(cc.Fn) == "os" {
				if env == "" {
					return []Answer{{Ret: []AV{mkString(""), mkBool(false)}, Label: "unset"}, {Ret: []AV{mkString(""), mkBool(true)}, Label: "empty"}}
				}
				return []Answer{{Ret: []AV{mkString(env), mkBool(true)}}}
			}
			if cc.Fn != nil && cc.Fn.Name() == "Getwd" {
				return []Answer{{Ret: []AV{mkString("/p/pkg"), Nil{}}}}
			}
			return nil
		}
		outs := in.Run(nil, fn, nil, nil)
		r.c.Paths += in.Paths
		calls := 0
		for _, o := range outs {
			for _, e := range o.St.Events {
				if e.Kind == "call" && e.Fn != nil && e.Fn.Name() == "GoGen" {
					calls++
					if env == "" {
						ok, why = false, "GoGen runs although GOFILE is not set (not in go:generate mode)"
					}
					if d, _ := asString(e.Args[0]); d != "/p/pkg" {
						ok, why = false, "GoGen is not run on the current directory"
					}
				}
			}
		}
		if env != "" && calls == 0 {
			ok, why = false, "GoGen is not called in go:generate mode when the directive sits in "+env+" (the directive may be in any file of the package, e.g. a *_co_test.go)"
		}
	}
	c.check(ok, "GEN.ENV", "cogen main", pos, "runs GoGen on the working directory, and only in go:generate mode (GOFILE set)", why)
}

var _ = token.NoPos

// ------------------------------------------------------------------ DET.TESTMODE
//
// The package has a "running under go test" switch (it disables the unique-name counter, the attached
// source comments and the removal of the intermediate directory so that the golden files are stable).
// It is decided once, when the package is initialised, from the name of the executable. The
// initialiser is evaluated abstractly for concrete executable paths: the switch must be on exactly
// for test binaries (`pkg.test`), not for a tool that merely lives under a path containing ".test" —
// otherwise the output of a real run (and what it leaves on disk) depends on where the tool is installed.
func (r *rwRT) ruleTestMode() {
	c := r.c
	c.min("DET.TESTMODE", 3)
	pkg := r.w.SSA[pathRw]
	initFn := pkg.Func("init")
	if initFn == nil {
		c.und("DET.TESTMODE", "package initialiser", "", "package rewriter has no init function")
		return
	}
	pos := r.w.FnPos(initFn)
	// which package-level booleans are computed from os.Args?
	for _, tc := range []struct {
		exe  string
		want bool
	}{
		{"/tmp/go-build123/b001/rewriter.test", true},
		{"/usr/local/bin/cogen", false},
		{"/builds/ci.test/bin/cogen", false},
		{"/home/u/.testbed/cogen", false},
	} {
		// helpers of the package itself are followed (the switch may be computed by a function of the executable's name)
		in := &Interp{W: r.w, MaxDepth: 8, MaxVisits: 4, Inline: func(f *ssa.Function) bool {
			return f != nil && f.Pkg != nil && f.Pkg.Pkg.Path() == pathRw && len(f.Blocks) > 0
		}}
		in.Fields = map[string]AV{"*global:Args": SliceV{Elems: []AV{mkString(tc.exe)}}}
		isTestBinary := tc.want
		in.OnCall = func(cc *CallCtx) []Answer {
			// the testing flags are registered only in a test binary (package testing is linked in)
			if cc.Fn != nil && cc.Fn.Name() == "Lookup" && fnPkgPath(cc.Fn) == "flag" {
				if isTestBinary {
					return []Answer{{Ret: []AV{NonNil{"flag"}}, NoEvent: true}}
				}
				return []Answer{{Ret: []AV{Nil{}}, NoEvent: true}}
			}
			return nil
		}
		outs := in.Run(nil, initFn, nil, nil)
		r.c.Paths += in.Paths
		found := 0
		for _, o := range outs {
			if o.Panicked {
				continue
			}
			for _, e := range o.St.Events {
				if e.Kind != "store" || !strings.HasPrefix(e.Target, "*global:") || len(e.Args) != 1 {
					continue
				}
				name := strings.TrimPrefix(e.Target, "*global:")
				if !strings.Contains(strings.ToLower(name), "test") {
					continue
				}
				found++
				b, known := asBool(e.Args[0])
				construct := fmt.Sprintf("%s for executable %s", name, tc.exe)
				if !known {
					c.und("DET.TESTMODE", construct, pos, "the switch is not determined by the executable's name: "+e.Args[0].String())
					continue
				}
				c.check(b == tc.want, "DET.TESTMODE", construct, pos, fmt.Sprintf("test mode = %v", tc.want),
					fmt.Sprintf("test mode is %v for this executable, expected %v: a real run of the tool from such a path produces test-mode output (iterator temporaries all named alike, no attached comments) and leaves the intermediate directory behind", b, tc.want))
			}
		}
		if found == 0 {
			c.ok("DET.TESTMODE", "no test-mode switch for executable "+tc.exe, pos, "the package initialiser computes no test-mode switch from the executable name")
		}
	}
}

// DET.PARTIALTYPES (C15, C16): the optimiser decides from go/types information (is the closure's type the
// callee's type, is the callee a declared function). The second stage loads the intermediate tree; when it
// asks the loader to suppress type errors, that information is silently incomplete exactly when an imported
// package has no derived files on disk yet (its co-tagged sources are invisible without the tag): a closure
// such as `func() bool { return ɪʇ.MoveNext() }` is then kept, and reduced on the next run, once the
// dependency has been generated. The bytes written for one package depend on what earlier runs left on disk.
func (r *rwRT) rulePartialTypes() {
	c := r.c
	for _, entry := range []struct {
		name string
		args []AV
	}{
		// (Compile works on untagged sources: the packages its intermediate tree imports are complete without any derived file)
		{"GoGen", []AV{mkString("/p/pkg"), SliceV{}}},
	} {
		fn := r.w.Func(pathRw, entry.name)
		pos := r.w.FnPos(fn)
		construct := "optimise stage of " + entry.name + " reads complete type information"
		g, err := r.runPipeline(entry.name, entry.args, false)
		if err != nil {
			c.und("DET.PARTIALTYPES", construct, pos, err.Error())
			continue
		}
		suppressed := ""
		for _, e := range g.o.St.Events {
			if e.Kind == "call" && e.Fn != nil && strings.Contains(e.Fn.Name(), "SuppressErrors") && strings.Contains(fnPkgPath(e.Fn), "loader") {
				suppressed = r.w.Pos(e.Pos)
			}
		}
		c.check(suppressed == "", "DET.PARTIALTYPES", construct, pos,
			"no stage is loaded with type errors suppressed",
			"the intermediate tree is loaded with type errors suppressed ("+suppressed+"): the optimiser's type-based decisions (eta reduction) silently change with the presence of the derived files of imported packages — generating a package before and after its dependency gives different bytes")
	}
}

// testModeGlobals: the package-level switches of package rewriter that say "running under go test" — found by what
// their initial value is computed from (flag.Lookup or os.Args, directly or through a function of the package), not
// by name. Their key in the configured memory is "*global:<name>".
func (r *rwRT) testModeGlobals() []string {
	sp := r.w.SSA[pathRw]
	if sp == nil {
		return []string{"runningWithGoTest"}
	}
	initFn := sp.Func("init")
	var names []string
	if initFn != nil {
		var fromProcess func(v ssa.Value, depth int, seen map[ssa.Value]bool) bool
		scanBody := func(f *ssa.Function) bool {
			for _, b := range f.Blocks {
				for _, ins := range b.Instrs {
					if call, ok := ins.(ssa.CallInstruction); ok {
						if cal := call.Common().StaticCallee(); cal != nil && cal.Pkg != nil && cal.Pkg.Pkg.Path() == "flag" && cal.Name() == "Lookup" {
							return true
						}
					}
					for _, op := range ins.Operands(nil) {
						if g, ok := (*op).(*ssa.Global); ok && g.Pkg != nil && g.Pkg.Pkg.Path() == "os" && g.Name() == "Args" {
							return true
						}
					}
				}
			}
			return false
		}
		fromProcess = func(v ssa.Value, depth int, seen map[ssa.Value]bool) bool {
			if v == nil || depth > 12 || seen[v] {
				return false
			}
			seen[v] = true
			if g, ok := v.(*ssa.Global); ok {
				return g.Pkg != nil && g.Pkg.Pkg.Path() == "os" && g.Name() == "Args"
			}
			if call, ok := v.(*ssa.Call); ok {
				if cal := call.Common().StaticCallee(); cal != nil && cal.Pkg != nil {
					if cal.Pkg.Pkg.Path() == "flag" && cal.Name() == "Lookup" {
						return true
					}
					if cal.Pkg == sp && scanBody(cal) {
						return true
					}
				}
			}
			if ins, ok := v.(ssa.Instruction); ok {
				for _, op := range ins.Operands(nil) {
					if op != nil && fromProcess(*op, depth+1, seen) {
						return true
					}
				}
			}
			return false
		}
		for _, b := range initFn.Blocks {
			for _, ins := range b.Instrs {
				st, ok := ins.(*ssa.Store)
				if !ok {
					continue
				}
				g, ok := st.Addr.(*ssa.Global)
				if !ok || g.Pkg != sp {
					continue
				}
				if bt, isB := g.Type().(*types.Pointer).Elem().Underlying().(*types.Basic); !isB || bt.Info()&types.IsBoolean == 0 {
					continue
				}
				if fromProcess(st.Val, 0, map[ssa.Value]bool{}) {
					names = append(names, g.Name())
				}
			}
		}
	}
	if len(names) == 0 {
		names = []string{"runningWithGoTest"}
	}
	return names
}

// setTestMode configures every test-mode switch of the package.
func (r *rwRT) setTestMode(in *Interp, on bool) {
	for _, n := range r.testModeGlobals() {
		in.Fields["*global:"+n] = mkBool(on)
	}
}
