package main

// RW.BRANCHCTX — the break/continue/fallthrough/goto pass (pass3) decided
// against the Go specification's targets (properties C01, C11, C12).
//
// The pre/post callbacks that rewriteBreakContinues hands to astutil.Apply are
// extracted by K1 and then *driven abstractly* over every nesting of context
// nodes {for, range, switch, type switch, select, func literal} up to depth 3
// with a branch statement at the leaf; the context stacks live in K1's abstract
// heap. For each nesting the decision (kept native / replaced by
// seq.Break() / seq.Continue() / rejected) is compared with the spec:
//   break    targets the innermost for/range/switch/type switch/select of the same function,
//   continue targets the innermost for/range of the same function,
//   a function literal is a boundary.
// Since the pass runs on the *rewritten* body, a remaining context node is a
// native statement: a branch with a native target is kept, one without becomes
// the corresponding signal (or is rejected when labelled).

import (
	"fmt"
	"go/types"
	"os"
	"strings"
)

type branchDriver struct {
	r        *rwRT
	in       *Interp
	base     *State
	pre, pst AV
	cur      AV // node returned by cursor.Node()
}

func (r *rwRT) newBranchDriver() *branchDriver {
	fn := r.method("yieldRewriter", "rewriteBreakContinues")
	r.c.fn(relName(fn))
	d := &branchDriver{r: r}
	in := r.interp(rwConfig{root: fn, boundaries: map[string]bool{"rewriteBreakContinues": false}})
	in.MaxDepth = 14
	in.MaxRecur = 2
	prev := in.OnCall
	in.OnCall = func(cc *CallCtx) []Answer {
		if cc.Fn != nil && cc.Fn.Name() == "Node" && cc.Fn.Signature.Recv() != nil && strings.Contains(cc.Fn.Signature.Recv().Type().String(), "astutil.Cursor") {
			return []Answer{{Ret: []AV{d.cur}, NoEvent: true}}
		}
		return prev(cc)
	}
	d.in = in
	outs := in.Run(nil, fn, []AV{Sym{Name: "r", NN: true}, Sym{Name: "body", NN: true}}, nil)
	for _, o := range outs {
		for _, e := range o.St.Events {
			if e.Kind == "call" && e.Fn != nil && e.Fn.Name() == "Apply" && len(e.Args) == 3 {
				if _, ok := e.Args[1].(Closure); ok {
					d.base, d.pre, d.pst = o.St, e.Args[1], e.Args[2]
				}
			}
		}
	}
	if d.base == nil || len(outs) != 1 {
		undecided("rewriteBreakContinues does not hand a pre and a post callback to astutil.Apply on a single path")
	}
	return d
}

// step applies a callback to the current node; returns resulting states.
func (d *branchDriver) step(st *State, cb AV, node AV) []Outcome {
	d.cur = node
	if n, known := nilness(cb); known && n {
		return []Outcome{{St: st}}
	}
	return d.in.Apply(st, cb, []AV{Sym{Name: "cursor", NN: true}})
}

type ctxKind string

var ctxKinds = []ctxKind{"ForStmt", "RangeStmt", "SwitchStmt", "TypeSwitchStmt", "SelectStmt", "FuncLit"}

func isLoopCtx(k ctxKind) bool  { return k == "ForStmt" || k == "RangeStmt" }
func isBreakCtx(k ctxKind) bool { return k != "FuncLit" }

// expected decision per the Go spec
func expectBranch(chain []ctxKind, tok string, labelled bool) string {
	switch tok {
	case "GOTO":
		for _, k := range chain {
			if k == "FuncLit" {
				return "keep" // goto inside a nested ordinary closure is plain Go
			}
		}
		return "reject"
	case "FALLTHROUGH":
		if len(chain) > 0 && (chain[len(chain)-1] == "SwitchStmt") {
			return "keep"
		}
		if len(chain) > 0 && chain[len(chain)-1] != "FuncLit" {
			return "n/a" // not valid Go: fallthrough must be the last statement of a case clause
		}
		return "reject"
	}
	for i := len(chain) - 1; i >= 0; i-- {
		k := chain[i]
		if k == "FuncLit" {
			break
		}
		if tok == "BREAK" && isBreakCtx(k) {
			return "keep"
		}
		if tok == "CONTINUE" && isLoopCtx(k) {
			return "keep"
		}
	}
	if labelled {
		return "reject"
	}
	if tok == "BREAK" {
		return "Break"
	}
	return "Continue"
}

func (d *branchDriver) branchNode(st *State, tok string, labelled bool) (*State, AV) {
	st = st.clone()
	var label AV = Nil{}
	if labelled {
		label = st.alloc(&Obj{T: d.r.astPtr("Ident").Underlying(), Kind: 's', Fields: map[string]AV{"Name": mkString("L")}})
	}
	t := d.r.astPtr("BranchStmt")
	ref := st.alloc(&Obj{T: t, Kind: 's', Fields: map[string]AV{"Tok": d.r.tokConst(tok), "Label": label}})
	return st, Dyn{T: t, V: ref}
}

// decide runs pre+post on a branch leaf and classifies the outcome.
func (d *branchDriver) decide(st *State, tok string, labelled bool) (string, []string) {
	st2, node := d.branchNode(st, tok, labelled)
	var verdicts []string
	var trace []string
	for _, o1 := range d.step(st2, d.pre, node) {
		if o1.Panicked {
			verdicts = append(verdicts, "reject")
			continue
		}
		for _, o2 := range d.step(o1.St, d.pst, node) {
			if o2.Panicked {
				verdicts = append(verdicts, "reject")
				continue
			}
			v := "keep"
			for _, e := range o2.St.Events[len(st2.Events):] {
				if e.Kind == "call" && e.Fn != nil && (e.Fn.Name() == "Replace" || e.Fn.Name() == "InsertBefore" || e.Fn.Name() == "InsertAfter" || e.Fn.Name() == "Delete") {
					rendered := ""
					if len(e.Args) >= 2 {
						rendered = o2.St.Render(e.Args[1])
					}
					trace = append(trace, e.Fn.Name()+" "+rendered)
					switch {
					case strings.Contains(rendered, "ReturnStmt") && strings.Contains(rendered, `"Break"`):
						v = "Break"
					case strings.Contains(rendered, "ReturnStmt") && strings.Contains(rendered, `"Continue"`):
						v = "Continue"
					default:
						v = "other:" + rendered
					}
				}
			}
			verdicts = append(verdicts, v)
		}
	}
	if len(verdicts) == 0 {
		return "none", trace
	}
	for _, v := range verdicts[1:] {
		if v != verdicts[0] {
			return "ambiguous:" + strings.Join(verdicts, "/"), trace
		}
	}
	return verdicts[0], trace
}

func (d *branchDriver) enter(st *State, k ctxKind) (*State, AV, bool) {
	node := d.r.node(string(k), "ctx")
	outs := d.step(st, d.pre, node)
	if len(outs) != 1 || outs[0].Panicked {
		return nil, nil, false
	}
	if len(outs[0].Ret) == 1 {
		if b, ok := asBool(outs[0].Ret[0]); ok && !b {
			return nil, nil, false // subtree skipped
		}
	}
	return outs[0].St, node, true
}

func (d *branchDriver) exit(st *State, node AV) (*State, bool) {
	outs := d.step(st, d.pst, node)
	if len(outs) != 1 || outs[0].Panicked {
		return nil, false
	}
	return outs[0].St, true
}

func (r *rwRT) ruleBranchCtx() {
	c := r.c
	c.min("RW.BRANCHCTX", 200)
	d := r.newBranchDriver()
	fn := r.method("yieldRewriter", "rewriteBreakContinues")
	pos := r.w.FnPos(fn)
	var chains [][]ctxKind
	chains = append(chains, nil)
	for _, a := range ctxKinds {
		chains = append(chains, []ctxKind{a})
		for _, b := range ctxKinds {
			chains = append(chains, []ctxKind{a, b})
			for _, e := range ctxKinds {
				chains = append(chains, []ctxKind{a, b, e})
				if c.Tier == "thorough" {
					for _, f := range ctxKinds {
						chains = append(chains, []ctxKind{a, b, e, f})
					}
				}
			}
		}
	}
	baseline := map[string]string{}
	for _, tok := range []string{"BREAK", "CONTINUE", "FALLTHROUGH", "GOTO"} {
		for _, lab := range []bool{false, true} {
			v, _ := d.decide(d.base, tok, lab)
			baseline[fmt.Sprintf("%s/%v", tok, lab)] = v
		}
	}
	nBad := 0
	for _, chain := range chains {
		st := d.base
		var nodes []AV
		ok := true
		for _, k := range chain {
			s2, n, good := d.enter(st, k)
			if !good {
				ok = false
				break
			}
			st = s2
			nodes = append(nodes, n)
		}
		name := "top"
		if len(chain) > 0 {
			var xs []string
			for _, k := range chain {
				xs = append(xs, strings.TrimSuffix(string(k), "Stmt"))
			}
			name = strings.Join(xs, ">")
		}
		if os.Getenv("VERIF_DEBUG_BRANCH") != "" && ok {
			for id, o := range st.heap {
				for k, v := range o.Fields {
					if k == "frames" {
						fmt.Fprintf(os.Stderr, "BRANCH %s obj%d frames=%s\n", name, id, v)
						if r, isRef := v.(Ref); isRef {
							fmt.Fprintf(os.Stderr, "BRANCH    -> %v\n", st.heap[r.ID].Elems)
						}
					}
				}
			}
		}
		if !ok {
			c.und("RW.BRANCHCTX", name, pos, "the pre-order callback does not descend into this context on a single path")
			continue
		}
		for _, tok := range []string{"BREAK", "CONTINUE", "FALLTHROUGH", "GOTO"} {
			for _, lab := range []bool{false, true} {
				if lab && (tok == "FALLTHROUGH") || !lab && tok == "GOTO" {
					continue // not Go: fallthrough takes no label, goto needs one
				}
				want := expectBranch(chain, tok, lab)
				if want == "n/a" {
					continue
				}
				got, trace := d.decide(st, tok, lab)
				construct := fmt.Sprintf("%s: %s", name, strings.ToLower(tok))
				if lab {
					construct += " L"
				}
				if got == want {
					c.ok("RW.BRANCHCTX", construct, pos, "decision "+got+" equals the Go spec's target rule")
				} else {
					nBad++
					pre := ""
					if got == "reject" {
						pre = "over-rejection: "
					}
					c.bad("RW.BRANCHCTX", construct, pos, fmt.Sprintf(pre+"the branch pass decides %q, the Go spec's target rule requires %q (contexts are the native statements left in the rewritten body; a function literal is a boundary)", got, want), trace...)
				}
			}
		}
		// balance: leaving all contexts restores the initial decisions
		bal := true
		for i := len(nodes) - 1; i >= 0 && bal; i-- {
			s2, good := d.exit(st, nodes[i])
			if !good {
				bal = false
				break
			}
			st = s2
		}
		if bal && len(chain) > 0 {
			for _, tok := range []string{"BREAK", "CONTINUE"} {
				got, _ := d.decide(st, tok, false)
				if got != baseline[tok+"/false"] {
					bal = false
				}
			}
		}
		if len(chain) > 0 {
			c.check(bal, "RW.BRANCHCTX", name+": stacks balanced", pos, "after leaving the contexts the pass decides as at top level (every push has its pop)", "context stacks are not balanced: after leaving "+name+" a top-level branch is decided differently")
		}
	}
	r.account(d.in)
	r.ruleRmRedundantReturn(d, pos)
}

// ruleRmRedundantReturn: after a branch was replaced by `return seq.Break()/Continue()`
// the pass may drop a trailing `return Normal()` of the enclosing body — but only
// that statement and only when what precedes it is terminating (otherwise the
// thunk loses its final return, or a needed Normal).
func (r *rwRT) ruleRmRedundantReturn(d *branchDriver, pos string) {
	c := r.c
	st2, node := d.branchNode(d.base, "BREAK", false)
	removed, kept, bad := 0, 0, ""
	for _, o1 := range d.step(st2, d.pre, node) {
		if o1.Panicked {
			continue
		}
		for _, o2 := range d.step(o1.St, d.pst, node) {
			if o2.Panicked {
				continue
			}
			var store *Event
			evs := o2.St.Events[len(st2.Events):]
			for i := range evs {
				if evs[i].Kind == "store" && strings.HasSuffix(evs[i].Target, ".List") {
					store = &evs[i]
				}
			}
			term, notTerm, isNormal := false, false, false
			for _, l := range o2.St.Labels {
				if strings.HasPrefix(l, "isTerminating(") && strings.HasSuffix(l, "=true") {
					term = true
				}
				if strings.HasPrefix(l, "isTerminating(") && strings.HasSuffix(l, "=false") {
					notTerm = true
				}
				if strings.Contains(l, "callNormal") && strings.HasPrefix(l, "==(") && strings.HasSuffix(l, "=true") {
					isNormal = true
				}
			}
			if store == nil {
				kept++
				continue
			}
			removed++
			val := canon(store.Args[0])
			switch {
			case !term || notTerm:
				bad = "the trailing return is removed on a path where the preceding statements were not found terminating: " + pathSummary(o2)
			case !isNormal:
				bad = "a trailing return other than `return Normal()` is removed: " + pathSummary(o2)
			case !strings.HasPrefix(val, "slice(") || !strings.Contains(val, "-1"):
				bad = "the statement list is not shortened by exactly its last element: " + val
			}
		}
	}
	if removed == 0 {
		c.Notes = append(c.Notes, "rmRedundantReturn: no removing path seen (clean-up of redundant returns absent)")
		return
	}
	c.check(bad == "", "RW.BRANCHCTX.RMRET", "redundant `return Normal()` removal", pos,
		fmt.Sprintf("%d removing / %d keeping paths: only a trailing `return Normal()` is dropped, exactly one statement, and only when the statements before it are terminating", removed, kept), bad)
}

// ------------------------------------------------------------------ RW.SIG

// ruleSig: the stores that mark a function as generator (yieldFuncDecls /
// yieldFuncLits map updates) are dominated by a call of the signature check,
// and that check asserts single result + iterator type.
func (r *rwRT) ruleSig() {
	c := r.c
	c.min("RW.SIG", 2)
	fn := r.method("rewriter", "collectYieldFunc")
	c.fn(relName(fn))
	pos := r.w.FnPos(fn)
	// The traversal callbacks of collectYieldFunc are driven over `func F() { Yield() }` with the type
	// oracles answering that F's signature is NOT a generator's (result is not the iterator type; not exactly
	// one result): on no path may F end up recorded as a generator — whatever the recording looks like (a map
	// update, a helper call, a store into the rewriter). With a proper signature the recording must happen.
	yieldObj := Sym{Name: "obj:Yield", NN: true, Uniq: true}
	fromObj := Sym{Name: "obj:YieldFrom", NN: true, Uniq: true}
	for _, tc := range []struct {
		name     string
		isIter   bool
		nResults int64
		wantMark bool
	}{
		{"result type is not the iterator type", false, 1, false},
		{"no result", true, 0, false},
		{"two results", true, 2, false},
		{"one result of the iterator type", true, 1, true},
	} {
		for _, fkind := range []string{"FuncDecl", "FuncLit", "FuncDecl+YieldFrom"} { // a declaration or a literal; its only yield may be a delegation
			tc := tc
			apiObj := AV(yieldObj)
			if strings.HasSuffix(fkind, "+YieldFrom") {
				fkind = "FuncDecl"
				apiObj = fromObj
				tc.name += " (only a delegation inside)"
			}
			tc.name = tc.name + map[string]string{"FuncDecl": "", "FuncLit": " (function literal)"}[fkind]
			d := r.newApplyDriver(fn, []AV{Sym{Name: "r", NN: true}, Sym{Name: "pkg", NN: true}, Sym{Name: "f", NN: true}},
				rwConfig{root: fn, boundaries: map[string]bool{"collectYieldFunc": false}},
				map[string]AV{"r.yieldFunc": yieldObj, "r.yieldFromFunc": fromObj},
				func(cc *CallCtx) []Answer {
					if cc.Fn == nil {
						return nil
					}
					switch cc.Fn.Name() {
					case "Callee":
						return []Answer{{Ret: []AV{apiObj}, NoEvent: true}}
					case "isIterator":
						return []Answer{{Ret: []AV{mkBool(tc.isIter)}, NoEvent: true}}
					case "Len":
						if strings.Contains(fnPkgPath(cc.Fn), "go/types") {
							return []Answer{{Ret: []AV{mkInt(tc.nResults)}, NoEvent: true}}
						}
					case "TypeOf":
						tp := r.w.importedPkg(pathRw, "go/types")
						// the type of the function itself is a signature; the type of anything else asked about
						// (the operand of a delegation) is some named type
						if tp != nil && len(cc.Args) > 0 && !strings.HasPrefix(argLabel(cc.Args[len(cc.Args)-1]), "F") {
							return []Answer{{Ret: []AV{Dyn{T: types.NewPointer(tp.Scope().Lookup("Named").Type()), V: Sym{Name: "operandType", NN: true}}}, NoEvent: true}}
						}
						if tp != nil {
							return []Answer{{Ret: []AV{Dyn{T: types.NewPointer(tp.Scope().Lookup("Signature").Type()), V: Sym{Name: "sig", NN: true}}}, NoEvent: true}}
						}
					}
					return nil
				})
			// the sets the collector fills are re-initialised for every file before it runs (RW.FILEPASSES decides that)
			d.in.EmptyMaps = func(key string) bool { return strings.HasPrefix(key, "r.") }
			F := r.node(fkind, "F")
			call := r.node("CallExpr", "call")
			marked, completed := false, false
			sts := []*State{d.base}
			for _, stp := range []struct {
				cb   string
				node AV
			}{{"pre", F}, {"pre", call}, {"post", call}, {"post", F}} {
				cb := d.pre
				if stp.cb == "post" {
					cb = d.pst
				}
				var next []*State
				for _, st := range sts {
					for _, o := range d.step(st, cb, stp.node) {
						if !o.Panicked {
							next = append(next, o.St)
						}
					}
				}
				sts = next
			}
			allMarked := true
			for _, st := range sts {
				completed = true
				this := false
				for _, e := range st.Events[len(d.base.Events):] {
					// an update of a set the rewriter holds (not of a map local to the collector, e.g. its visited cache)
					if e.Kind == "mapupdate" && len(e.Args) == 3 {
						if ob := st.Obj(unwrap(e.Args[0])); ob != nil && strings.HasPrefix(ob.Site, "emptymap:") {
							marked, this = true, true
						}
					}
					if e.Kind == "store" && strings.HasPrefix(e.Target, "r.") {
						marked, this = true, true
					}
				}
				if !this {
					allMarked = false
				}
				if os.Getenv("VERIF_DEBUG_SIG") != "" {
					var evs []string
					for _, e := range st.Events[len(d.base.Events):] {
						evs = append(evs, shortEvent(e))
						if e.Kind == "mapupdate" {
							evs = append(evs, fmt.Sprintf("<%T %s key=%s>", e.Args[0], e.Args[0], argLabel(e.Args[1])))
						}
					}
					fmt.Fprintf(os.Stderr, "SIG %s marked=%v labels=%v events=%v\n", tc.name, this, st.Labels, evs)
				}
			}
			if tc.wantMark && !allMarked {
				marked = false // a proper generator is recorded on every path, whatever further type queries answer
			}
			r.account(d.in)
			if tc.wantMark {
				c.check(completed && marked, "RW.SIG", tc.name, pos, "the function is recorded as a generator", "a function with a proper generator signature is not recorded")
			} else {
				c.check(!marked, "RW.SIG", tc.name, pos,
					"rejected: the function is never recorded as a generator (every path ends in the diagnostic)",
					"a function containing a Yield is recorded as generator although its signature is wrong ("+tc.name+"): it would be rewritten instead of rejected")
			}
		}
	}
}
