package main

func init() {
	register(propSpec{
		ID: "C12",
		Explanation: "Decided on a symbolic AST of every go/ast statement kind (with all optional parts present/absent): the statement rewriter is abstractly evaluated with its recursion into nested statement lists as boundary events and the yield-freeness predicates as two-valued oracles. RW.DISPATCH: kinds the README lists as unsupported (select, labels, defer, goto, stray clauses) are rejected on every path, supported kinds have an accepting path. RW.FIELDCOV: on every accepting path, each original part that can contain a yield and is still reachable from what is emitted is covered by a yield-freeness test answered true (otherwise a Yield survives as a no-op stub). RW.DEEPVISIT: each nested statement list that reaches the output went through the recursion (so nested unsupported constructs were seen). RW.BRANCHCTX: labelled break/continue, goto and misplaced fallthrough are rejected by the branch pass. RW.SIG: a function is only marked as generator after its signature was checked.",
		Trusted: []string{"go/ast grammar facts: a for/if/switch init and a for post are simple statements; switch bodies contain only case clauses", "go/ssa construction"},
		Run: func(c *Ctx) {
			r := newRwRT(c)
			c.guard("RW.DISPATCH", r.ruleCover)
			c.guard("RW.BRANCHCTX", r.ruleBranchCtx)
			c.guard("RW.SIG", r.ruleSig)
		},
	})
}
