package main

func init() {
	register(propSpec{
		ID: "C12",
		Explanation: "Decided on a symbolic AST of every go/ast statement kind (with all optional parts present/absent): the statement rewriter is abstractly evaluated with its recursion into nested statement lists as boundary events and the yield-freeness predicates as two-valued oracles. RW.DISPATCH: kinds the README lists as unsupported (select, labels, defer, goto, stray clauses) are rejected on every path, supported kinds have an accepting path. RW.FIELDCOV: on every accepting path, each original part that can contain a yield and is still reachable from what is emitted is covered by a yield-freeness test answered true (otherwise a Yield survives as a no-op stub). RW.DEEPVISIT: each nested statement list that reaches the output went through the recursion (so nested unsupported constructs were seen). RW.BRANCHCTX: labelled break/continue, goto and misplaced fallthrough are rejected by the branch pass. RW.SIG: a function is only marked as generator after its signature was checked.",
		Trusted: []string{"go/ast grammar facts: a for/if/switch init and a for post are simple statements; switch bodies contain only case clauses", "go/ssa construction"},
		Run: func(c *Ctx) {
			r := newRwRT(c)
			c.guard("RW.DISPATCH", r.ruleCover)
			c.guard("RW.BRANCHCTX", r.ruleBranchCtx)
			c.guard("RW.SIG", r.ruleSig)
		},
	})
}

func init() {
	register(propSpec{
		ID: "C01",
		Explanation: "Whole-program equivalence of source and compiled generator is not decidable here; decided are the structural facts it rests on, for every path of the code that implements them: RW.KINDTAB (combine / implicit-Normal / yield-freeness decision tables of the block abstraction vs the wording of the property), RW.BRANCHCTX (the break/continue pass driven over every nesting of native contexts up to depth 3 vs the Go spec's target rule), RW.TERM (termination checker vs an independent reference of the spec's 'terminating statements' on ~2000 enumerated shapes: never over-approximates), RW.TMPL.FOR (choice of Loop/While/For and argument roles), RW.SCOPEAGREE (the lowering of every break/continue target agrees with the signal tables extracted from the runtime), and the runtime tables of C08 (SEQ.ROLE/COMBINE/FOR/DELAY/SUSPEND).",
		Trusted: []string{"Go semantics of closures", "go/ssa construction", "go/ast grammar facts"},
		Run: func(c *Ctx) {
			r := newRwRT(c)
			c.guard("RW.KINDTAB", r.ruleKindTab)
			c.guard("RW.BRANCHCTX", r.ruleBranchCtx)
			c.guard("RW.TERM", r.ruleTerm)
			s := newSeqRT(c)
			c.guard("SEQ.ROLE", func() { s.ruleRole() })
			c.guard("SEQ.COMBINE", s.ruleCombine)
			c.guard("SEQ.DELAY", s.ruleDelay)
			c.guard("SEQ.SUSPEND", s.ruleSuspend)
			c.guard("SEQ.FOR", s.ruleFor)
			forOK := true
			for _, o := range c.Obls {
				if o.Rule == "SEQ.FOR" && o.Status != OK {
					forOK = false
				}
			}
			c.guard("RW.SCOPEAGREE", func() { r.ruleScopeAgree(forOK) })
			c.guard("RW.TMPL.FOR", r.ruleTmplFor)
		},
	})
}
