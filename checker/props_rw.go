package main

import "strings"

func init() {
	register(propSpec{
		ID:          "C12",
		Explanation: "Decided on a symbolic AST of every go/ast statement kind (with all optional parts present/absent): the statement rewriter is abstractly evaluated with its recursion into nested statement lists as boundary events and the yield-freeness predicates as two-valued oracles. RW.DISPATCH: kinds the README lists as unsupported (select, labels, defer, goto, stray clauses) are rejected on every path, supported kinds have an accepting path. RW.FIELDCOV: on every accepting path, each original part that can contain a yield and is still reachable from what is emitted is covered by a yield-freeness test answered true (otherwise a Yield survives as a no-op stub). RW.DEEPVISIT: each nested statement list that reaches the output went through the recursion (so nested unsupported constructs were seen). RW.BRANCHCTX: labelled break/continue, goto and misplaced fallthrough are rejected by the branch pass. RW.SIG: a function is only marked as generator after its signature was checked.",
		Trusted:     []string{"go/ast grammar facts: a for/if/switch init and a for post are simple statements; switch bodies contain only case clauses", "go/ssa construction"},
		Run: func(c *Ctx) {
			r := newRwRT(c)
			c.guard("RW.DISPATCH", r.ruleCover)
			c.guard("RW.BRANCHCTX", r.ruleBranchCtx)
			c.guard("RW.SIG", r.ruleSig)
			c.guard("RW.ORACLE", r.ruleOracles)
			c.guard("RW.RECOVER", r.ruleRecover)
			// "invalid signature": a function returning a type that only spells like the iterator type is not a generator
			c.guard("RW.ITERPRED", r.ruleIterPred)
			// range over func / pointer-to-array / type parameter: rejected or left native, never lowered
			// through an iterator that does not exist for them
			c.guard("RW.RANGEDISPATCH", r.ruleRangeDispatch)
			// C12 answers for the unsupported forms: labelled break/continue, goto, fallthrough out of a yielding case
			c.keep(func(o Obligation) bool {
				if o.Rule == "RW.BRANCHCTX" {
					if strings.HasPrefix(o.Detail, "over-rejection") {
						return false // rejecting with a diagnostic is always admissible for C12 (it is C11's concern)
					}
					// plus: a range loop that stays native (unsupported operand kinds are left alone) is a break /
					// continue target of its own
					return strings.HasSuffix(o.Construct, " L") || strings.Contains(o.Construct, ": goto") || strings.Contains(o.Construct, ": fallthrough") || strings.Contains(o.Construct, "Range")
				}
				if o.Rule == "RW.RANGEDISPATCH" { // the supported kinds are C04's
					return strings.Contains(o.Construct, "pointer") || strings.Contains(o.Construct, "func") || strings.Contains(o.Construct, "type parameter") || strings.Contains(o.Construct, "typeparam")
				}
				if o.Rule == "RW.DISPATCH" && strings.HasSuffix(o.Construct, "(yield-free)") {
					return false // a yield-free statement that is rejected is over-rejection: C11's
				}
				return o.Rule != "RW.NOLOSS" && o.Rule != "RW.BLOCKSTATE" // loss of a part of a supported statement is C01's, compiler panics are C11's
			})
			c.min("RW.DISPATCH", 21)
			c.min("RW.FIELDCOV", 8)
			c.min("RW.DEEPVISIT", 6)
			c.min("RW.BRANCHCTX", 100)
			c.min("RW.SIG", 2)
		},
	})
}

func init() {
	register(propSpec{
		ID:          "C01",
		Explanation: "Whole-program equivalence of source and compiled generator is not decidable here; decided are the structural facts it rests on, for every path of the code that implements them: RW.KINDTAB (combine / implicit-Normal / yield-freeness decision tables of the block abstraction vs the wording of the property), RW.BRANCHCTX (the break/continue pass driven over every nesting of native contexts up to depth 3 vs the Go spec's target rule), RW.TERM (termination checker vs an independent reference of the spec's 'terminating statements' on ~2000 enumerated shapes: never over-approximates), RW.TMPL.FOR (choice of Loop/While/For and argument roles), RW.SCOPEAGREE (the lowering of every break/continue target agrees with the signal tables extracted from the runtime), and the runtime tables of C08 (SEQ.ROLE/COMBINE/FOR/DELAY/SUSPEND).",
		Trusted:     []string{"Go semantics of closures", "go/ssa construction", "go/ast grammar facts"},
		Run: func(c *Ctx) {
			r := newRwRT(c)
			c.guard("RW.KINDTAB", r.ruleKindTab)
			c.guard("RW.BRANCHCTX", r.ruleBranchCtx)
			s := newSeqRT(c)
			c.guard("SEQ.ROLE", func() { s.ruleRole() })
			c.guard("SEQ.COMBINE", s.ruleCombine)
			c.guard("SEQ.DELAY", s.ruleDelay)
			c.guard("SEQ.SUSPEND", s.ruleSuspend)
			c.guard("SEQ.FOR", s.ruleFor)
			forOK := true
			for _, o := range c.Obls {
				if o.Rule == "SEQ.FOR" && o.Status != OK {
					forOK = false
				}
			}
			c.guard("RW.SCOPEAGREE", func() { r.ruleScopeAgree(forOK, "agree") })
			c.guard("RW.TMPL.FOR", r.ruleTmplFor)
			c.guard("RW.TMPL.COMBINESPLIT", r.ruleTmplCombineSplit)
			c.guard("RW.TMPL.IF", r.ruleTmplStmts)
			c.guard("RW.NOLOSS", r.ruleCover)
			// "iteration ends exactly where the source body would return": `return` lowers to the Return signal
			c.guard("RW.TMPL.RETURN", r.rulePass0)
			// "iteration ends exactly where the source body would return": once an advance reported false no
			// generator code runs again (a stale continuation re-runs the tail of the body)
			c.guard("SEQ.GEN", s.ruleGenHist)
			// statements run in source order: what follows a yielding if / switch / loop waits for it
			c.guard("RW.CLOSE", r.ruleCloseContract)
			c.guard("RW.TMPL.FORPOST", func() { r.ruleScopeAgree(true, "forpost") })
			// the yields of for / switch / if headers are produced too: the containment scan that decides whether a
			// header (and a switch's breaks) needs lowering sees a yield however the call is spelled
			c.guard("RW.ORACLE", r.ruleOracles)
			// C01 answers for the supported subset: unlabelled break/continue (labelled forms, goto and fallthrough are C12's)
			c.keep(func(o Obligation) bool {
				if o.Rule == "RW.BRANCHCTX" {
					return strings.HasSuffix(o.Construct, ": break") || strings.HasSuffix(o.Construct, ": continue") || strings.HasSuffix(o.Construct, "stacks balanced")
				}
				switch o.Rule {
				case "SEQ.LAZY", "RW.DISPATCH", "RW.FIELDCOV", "RW.DEEPVISIT", "RW.BLOCKSTATE": // rejection and yield coverage are C12's, panics C11's
					return false
				case "RW.TMPL.HOIST": // scoping, C03
					return false
				case "RW.TMPL.RETURN": // ordinary closures are C13's
					return !strings.HasPrefix(o.Construct, "nested ordinary closure")
				case "SEQ.GEN":
					return strings.HasPrefix(o.Construct, "MoveNext") || o.Construct == "coverage"
				case "RW.CLOSE": // closing of thunk bodies is C11's
					return strings.HasPrefix(o.Construct, "combine decision between statements")
				case "RW.TMPL.FORPOST": // the scope of the post statement is C03's
					return strings.HasPrefix(o.Construct, "yielding for-post is appended to the body only after")
				case "RW.ORACLE": // which function a yield belongs to is C12's / C13's
					return strings.HasPrefix(o.Construct, "containsYield")
				}
				return true
			})
			c.min("RW.NOLOSS", 20)
			c.min("RW.TMPL.RETURN", 4)
			c.min("SEQ.GEN", 2)
			c.min("RW.BRANCHCTX", 200)
			c.min("RW.KINDTAB", 3)
			c.min("SEQ.FOR", 6)
			c.min("RW.SCOPEAGREE", 3)
		},
	})
}

func init() {
	register(propSpec{
		ID:          "C03",
		Explanation: "Scoping across suspension is decided as obligations on the syntax the rewriter constructs (templates extracted by abstract interpretation, user syntax as holes): S1 the continuation after a yield is the body of the thunk passed to Bind and is pushed into the enclosing block (later statements stay lexically nested under earlier declarations); S2 statements are only moved to the second half of a Combine after a statement with its own scope (combine table); S3 ':=' initialisers of for/switch/type-switch are hoisted into a fresh block, only inside generators; if-initialisers are never moved; S4 a ':=' range loop keeps its original body as one nested block after the generated binding, with the loop's own token; S5 a yielding for-post is lowered into a thunk of its own; S6 iterator temporaries come from gensym. Go's closure semantics (capture by reference) is trusted.",
		Trusted:     []string{"Go closures capture variables by reference", "go/ssa construction", "go/ast grammar facts"},
		Run: func(c *Ctx) {
			r := newRwRT(c)
			c.guard("RW.TMPL.BIND", r.ruleTmplBind)
			c.guard("RW.TMPL.COMBINE", r.ruleTmplCombine)
			c.guard("RW.KINDTAB", r.ruleKindTab)
			c.guard("RW.TMPL.HOIST", r.rulePass0)
			c.guard("RW.TMPL.RANGE", r.ruleTmplRange)
			c.guard("RW.TMPL.CONSUMER", r.ruleTmplConsumer)
			c.guard("RW.TMPL.YIELDFUNC", r.ruleTmplYieldFunc)
			c.guard("RW.SCOPE.INIT", r.ruleScopeInit)
			c.guard("RW.TMPL.FORPOST", func() { r.ruleScopeAgree(true, "forpost") })
			c.guard("RW.TMPL.COMBINESPLIT", r.ruleTmplCombineSplit)
			c.guard("RW.TMPL.SWITCH.GUARD", r.ruleTmplStmts)
			// a loop condition / post statement refers to its variables each time it runs: they are wrapped in
			// function literals (a bare callee `f` for `for f() {…}` copies the func variable's value once)
			c.guard("RW.TMPL.FOR", r.ruleTmplFor)
			// no statement runs that the source does not run: a loop value that is run again starts from scratch
			// (a post statement fired before the first iteration changes a local between suspensions)
			s3 := newSeqRT(c)
			c.guard("SEQ.FOR", s3.ruleFor)
			// a yielded expression reads its variables when the yield is reached: the Delay around a Bind may only
			// be elided for basic literals (a composite literal mentioning locals would be evaluated once, early)
			c.guard("OPT.WHITELIST", func() { r.ruleOptWhitelist(s3) })
			// a nested block is a scope: it reaches the output as a block, its statements are not spliced into the
			// enclosing list (a `var` / `const` / `type` declared in it would shadow for the rest of the outer block)
			c.guard("RW.NOLOSS", func() { r.ruleCoverKinds(map[string]bool{"BlockStmt": true}) })
			c.guard("RW.SCOPE.REDECL", func() { ruleRwRedecl(c) })
			// "closures … observe updates made after it": a closure over a function variable keeps reading the variable
			// (reduced to the variable's value it would copy it once, whichever way the callee was resolved)
			c.guard("OPT.ETA", r.ruleOptEta)
			// scoping only: the combine table, hoisting (not return rewriting), the consumer loop's binding form
			c.keep(func(o Obligation) bool {
				switch o.Rule {
				case "RW.KINDTAB":
					return o.Construct == "combineRequired"
				case "RW.TMPL.RETURN", "RW.TMPL.RANGE.TUPLE": // evaluation order of '=' range bindings is C04's
					return false
				case "OPT.ETA":
					return strings.HasPrefix(o.Construct, "callee is a function variable") || o.Construct == "pattern shape" || o.Construct == "liveness"
				case "RW.NOLOSS":
					return strings.HasPrefix(o.Construct, "block") && !strings.Contains(o.Construct, "no part twice")
				case "RW.DISPATCH", "RW.FIELDCOV", "RW.DEEPVISIT", "RW.BLOCKSTATE":
					return false
				case "RW.TMPL.SWITCH": // dropped clauses are C01's; only the guard's binding is scoping
					return false
				case "RW.TMPL.IF": // each if / else-if keeps its *own* initialiser in place (shadowing in initialisers)
					return true
				case "RW.TMPL.FOR":
					return strings.Contains(o.Construct, "wrapped in a thunk")
				case "SEQ.FOR":
					return strings.Contains(o.Construct, "second run")
				case "SEQ.LAZY":
					return false
				case "RW.TMPL.CONSUMER":
					return strings.Contains(o.Construct, "<Ident>") || strings.Contains(o.Construct, "nested in its own block")
				case "RW.TMPL.YIELDFUNC":
					return o.Construct == "generator body"
				}
				return true
			})
			c.min("RW.TMPL.HOIST", 6)
			c.min("RW.TMPL.RANGE", 12)
			c.min("RW.SCOPE.INIT", 4)
			c.min("RW.TMPL.BIND", 1)
		},
	})
}

func init() {
	register(propSpec{
		ID:          "C04",
		Explanation: "Range loops inside generators are decided as (a) the template of the lowered loop for every variable form (key/value omitted, blank, named) x ':=' / '=': `it := seq.NewXIter(x)` inserted before the loop (operand evaluated once, before the first iteration), cond-only `for it.MoveNext()`, key from .Key and value from .Val with the loop's own token, original body nested as one block for ':=', iterator variable from gensym; (b) the dispatch table operand kind -> constructor, cross-checked with the constructor's parameter kind in package seq and with Go's range table; the traversal descends into nested closures; (c) the iterators themselves (C10's inductive rules, re-established in this run). Element-level equality is C10.",
		Trusted:     []string{"reflect / unicode/utf8 contracts", "go/ssa construction", "go/types kinds"},
		Run: func(c *Ctx) {
			r := newRwRT(c)
			c.guard("RW.TMPL.RANGE", r.ruleTmplRange)
			c.guard("RW.RANGEDISPATCH", r.ruleRangeDispatch)
			// "break/continue work": a range loop that stays native (no yield in it, or an operand kind that
			// is not lowered) is a break/continue target of its own in the branch pass
			c.guard("RW.BRANCHCTX", r.ruleBranchCtx)
			s := newSeqRT(c)
			s.ruleIters()
			c.keep(func(o Obligation) bool {
				if o.Rule == "RW.BRANCHCTX" {
					return strings.Contains(o.Construct, "Range") && (strings.HasSuffix(o.Construct, ": break") || strings.HasSuffix(o.Construct, ": continue"))
				}
				if o.Rule == "RW.RANGEDISPATCH" && strings.HasPrefix(o.Construct, "range statement that is not an element") {
					return false // a compiler crash on a labelled loop: C11's, and C13's for ordinary closures
				}
				return true
			})
			c.min("RW.TMPL.RANGE", 12)
			c.min("RW.RANGEDISPATCH", 8)
			c.min("RW.BRANCHCTX", 40)
		},
	})
	register(propSpec{
		ID:          "C05",
		Explanation: "YieldFrom is decided as templates plus pass ordering: rewriteYieldFrom turns YieldFrom(x) into `for v := range x { Yield(v) }` for every form of x (identifier, call, selector, index) with x occurring exactly once as the range operand and a body of exactly one Yield of the loop variable; the consumer lowering evaluates the operand once in the init statement, advances once per iteration in the condition and reads Current once per iteration (no prefetch); in rewriteFile the YieldFrom pass precedes the range-over-iterator pass which precedes the generator pass; following statements run only after the delegate reported exhaustion by the runtime tables SEQ.FOR/SEQ.COMBINE (re-established in this run).",
		Trusted:     []string{"Go semantics of closures", "go/ssa construction"},
		Run: func(c *Ctx) {
			r := newRwRT(c)
			c.guard("RW.TMPL.YIELDFROM", r.ruleTmplYieldFrom)
			c.guard("RW.TMPL.CONSUMER", r.ruleTmplConsumer)
			c.guard("RW.TMPL.CONSUMER", r.ruleConsumerDispatch)
			c.guard("RW.FILEPASSES", r.ruleFilePasses)
			// a delegation in for-post position must reach the lowering (not be re-emitted verbatim)
			c.guard("RW.FIELDCOV", r.ruleCover)
			// "at any statement position": a delegation inside an if/else-if chain or a switch clause is only
			// reached (and only for the right inputs) if the lowering keeps every branch, clause and statement
			c.guard("RW.TMPL.IF", r.ruleTmplStmts)
			// a delegation in for-post position runs after every iteration, also one whose body ended in a yielding switch
			c.guard("RW.TMPL.FORPOST", func() { r.ruleScopeAgree(true, "forpost") })
			// a delegation in a switch initialiser: the switch itself stays a native statement in the thunk of the
			// delegation's last Bind, and what follows it runs after it — its breaks must still be breaks
			c.guard("RW.SCOPEAGREE", func() { r.ruleScopeAgree(true, "agree") })
			s := newSeqRT(c)
			// delegation lowers to a post-less loop: only those runtime shapes matter here
			c.guard("SEQ.FOR", func() { s.ruleForOnly(func(fc forCase) bool { return fc.postNil }) })
			c.guard("SEQ.COMBINE", s.ruleCombine)
			c.guard("SEQ.SUSPEND", s.ruleSuspend)
			// "every remaining element": a delegate that has reported exhaustion delivers nothing more when it is
			// delegated to again (a delegation starts with MoveNext)
			c.guard("SEQ.GEN", s.ruleGenHist)
			// a delegation is seen wherever a yield is looked for (for-post, initialisers), under every import form,
			// and a function whose only yield is a delegation is a generator
			c.guard("RW.ORACLE", r.ruleOracles)
			c.guard("RW.SIG", r.ruleSig)
			c.keep(func(o Obligation) bool {
				switch o.Rule {
				case "RW.ORACLE":
					return o.Construct == "containsYield"
				case "RW.SIG":
					return strings.HasPrefix(o.Construct, "one result of the iterator type")
				case "RW.FILEPASSES":
					// the delegation pass sees the form its predecessors produce, and it starts from scratch for every
					// file (an instance kept from the previous file patches the type information of the wrong package:
					// the synthetic Yield is then not recognised and the delegate is drained natively)
					return strings.HasPrefix(o.Construct, "order of passes") || strings.HasPrefix(o.Construct, "per-file state")
				case "SEQ.GEN": // only: an exhausted delegate stays exhausted; a delegation advances with MoveNext
					return strings.HasPrefix(o.Construct, "MoveNext") || o.Construct == "coverage"
				case "RW.TMPL.FORPOST":
					return strings.HasPrefix(o.Construct, "yielding for-post is appended to the body only after")
				case "RW.SCOPEAGREE": // which signal a break becomes inside a yielding clause is C01's
					return strings.HasPrefix(o.Construct, "breaks of a ")
				case "RW.DISPATCH", "RW.DEEPVISIT", "SEQ.LAZY":
					return false
				case "RW.FIELDCOV":
					return strings.Contains(o.Construct, "post=true")
				}
				return true
			})
			c.min("RW.TMPL.YIELDFROM", 2)
			c.min("RW.TMPL.CONSUMER", 2)
			c.min("RW.FIELDCOV", 4)
			c.min("SEQ.FOR", 4)
		},
	})
	register(propSpec{
		ID:          "C06",
		Explanation: "Consumer-side loops are decided as the template of rewriteForRange for every operand form and both ':=' and '=': operand exactly once (in the init statement), one MoveNext per iteration in the condition and nothing else (no prefetch: break/continue/return pull nothing further), one Current bound with the loop's own token. The iterator type replacement is decided as: an index expression is replaced iff the iterator-type predicate holds, by seq.Iterator[<same index>] under the file's import name, and the generator's own result type is built the same way; the passes run in the order the lowering relies on. Completeness of the replacement in every syntactic position is a build-time matter and not decided.",
		Trusted:     []string{"go/ssa construction", "astutil.Apply visits every IndexExpr"},
		Run: func(c *Ctx) {
			r := newRwRT(c)
			c.guard("RW.TMPL.CONSUMER", r.ruleTmplConsumer)
			c.guard("RW.TMPL.CONSUMER", r.ruleConsumerDispatch)
			c.guard("RW.TMPL.ITERTYPE", r.ruleIterType)
			c.guard("RW.ITERPRED", r.ruleIterPred)
			c.guard("RW.FILEPASSES", r.ruleFilePasses)
			// pull-style code: a consumer's closure `func() bool { return cur.MoveNext() }` over its own iterator
			// variable must keep reading the variable at each call (a method value binds the receiver once)
			c.guard("OPT.ETA", r.ruleOptEta)
			// "without pulling any further element": an iterator that reported exhaustion stays exhausted when the
			// same value is pulled or ranged over again
			s6 := newSeqRT(c)
			c.guard("SEQ.GEN", s6.ruleGenHist)
			// inside a generator a consumer loop is lowered to a condition-only runtime loop whose condition is
			// the pull: the runtime evaluates that condition exactly once per iteration, and not again after a break
			c.guard("SEQ.FOR", func() { s6.ruleForOnly(func(fc forCase) bool { return fc.postNil }) })
			c.keep(func(o Obligation) bool {
				switch o.Rule {
				case "SEQ.GEN":
					return strings.HasPrefix(o.Construct, "MoveNext") || o.Construct == "coverage"
				case "SEQ.LAZY":
					return false
				case "RW.FILEPASSES":
					// ... and what the iterator-type predicate remembers does not outlive the file it was learnt in
					return strings.HasPrefix(o.Construct, "order of passes") || strings.HasPrefix(o.Construct, "per-file state")
				case "OPT.ETA":
					return strings.HasPrefix(o.Construct, "callee is a method value") || o.Construct == "pattern shape" || o.Construct == "liveness"
				}
				return true
			})
			c.min("RW.TMPL.CONSUMER", 2)
			c.min("RW.TMPL.ITERTYPE", 3)
			c.min("OPT.ETA", 3)
		},
	})
}

func init() {
	register(propSpec{
		ID:          "C07",
		Explanation: "The optimiser is decided from the source of its two passes. OPT.WHITELIST/OPT.BINDLIT: the Delay-elision pattern is recovered as a term tree (the pattern-combinator library is interpreted as term constructors); every callee under which a Delay is elided unconditionally must be certified by the analysis of package seq in the same run (all parameters function/Seq-typed, calling it only allocates a closure), a callee with a value parameter (Bind) only with that position restricted to basic literals; the thunk must consist of the single return. OPT.ETA: the callback of etaReduction is abstractly evaluated on 26 closure shapes x callee classes; it may replace the closure only where that is meaning-preserving (arguments forwarded in order, variadic spread kept, identical types, callee a declared function / explicitly instantiated generic / method value on a rewriter-generated iterator variable). OPT.ORDER: imports are cleaned before a file is printed, files not using seq are not written. Not decided: the go-imports dependency; timing of effects inside user expressions.",
		Trusted:     []string{"semantics of the go-matcher pattern combinators (BasicLitPattern matches only *ast.BasicLit)", "go-imports.Clean", "go/ssa construction"},
		Run: func(c *Ctx) {
			r := newRwRT(c)
			s := newSeqRT(c)
			c.guard("OPT.WHITELIST", func() { r.ruleOptWhitelist(s) })
			// eliding the Delay around a constructor call turns "a fresh term per run of the enclosing loop" into
			// "one term value entered again and again": sound only if every term is re-enterable (a second run of
			// the same Seq value starts from scratch, overlapping runs keep their own continuations, no state
			// outside the per-run closure)
			c.guard("SEQ.FOR", s.ruleFor)
			c.guard("SEQ.OVERLAP", s.ruleOverlap)
			c.guard("SEQ.STATE", s.ruleState)
			c.guard("OPT.RULES", r.ruleOptRules)
			c.guard("OPT.ETA", r.ruleOptEta)
			c.guard("OPT.ORDER", r.ruleOptOrder)
			// a verdict of the optimiser that is remembered must be remembered under something that determines it
			// (the resolved callee, not its spelling: a shadowing function variable of the same name is not stable)
			c.guard("OPT.MEMO", r.ruleMemo)
			c.guard("RW.TMPL.COMBINE", r.ruleTmplCombine)
			c.guard("RW.TMPL.FOR", r.ruleTmplFor)
			c.keep(func(o Obligation) bool {
				if o.Rule == "OPT.ORDER" {
					return o.Construct == "file using seq" || o.Construct == "second file using seq" || o.Construct == "imports cleaned after the last optimisation"
				}
				if o.Rule == "SEQ.FOR" {
					return strings.Contains(o.Construct, "second run")
				}
				return o.Rule != "SEQ.LAZY"
			})
			c.min("OPT.WHITELIST", 4)
			c.min("OPT.BINDLIT", 1)
			c.min("OPT.ETA", 20)
		},
	})
}

func init() {
	register(propSpec{
		ID:          "C13",
		Explanation: "Bystander code is decided as: RW.MUTGUARD — every Cursor.Replace/Insert/Delete call site of package rewriter is enumerated; the five file-level callbacks are abstractly evaluated on 15 node kinds and may edit only on paths where a generator / iterator-type / Yield-call predicate answered true; all other sites are reachable only through rewriteYieldFunc or an optimiser callback. OPT.ETA — the only pass that rewrites arbitrary closures: 26 closure shapes x callee classes (function variable, builtin, conversion, method value, generic function, swapped/duplicated arguments, differing types, variadic spread) must be kept. RW.TMPL.RETURN / RW.TMPL.HOIST — returns and initialisers inside ordinary closures nested in a generator are left alone. RW.BRANCHCTX — a function literal is a boundary for break/continue/goto rewriting. RW.NODECL — no declaration is added or the declaration list rewritten. Not decided: loss of free-floating comments (behaviour-neutral except for //go: directives inside co files).",
		Trusted:     []string{"go-imports.Clean", "go/ssa construction", "pattern combinator semantics"},
		Run: func(c *Ctx) {
			r := newRwRT(c)
			c.guard("RW.MUTGUARD", r.ruleMutGuard)
			c.guard("OPT.ETA", r.ruleOptEta)
			c.guard("OPT.RULES", r.ruleOptRules)
			// a processed file that is not written takes its plain declarations (init functions, registrations) with it;
			// per-file state carried over from an earlier file replaces the doc comments (//go:embed, //go:noinline) of plain declarations
			c.guard("OPT.ORDER", r.ruleOptOrder)
			c.guard("RW.ALLFILES", func() { r.ruleAllFiles(false) })
			c.guard("RW.FILEPASSES", r.ruleFilePasses)
			c.guard("RW.COMMENTS", r.ruleComments)
			c.guard("RW.TMPL.HOIST", r.rulePass0)
			c.guard("RW.BRANCHCTX", r.ruleBranchCtx)
			c.guard("RW.TMPL.ITERTYPE", r.ruleIterType)
			c.guard("RW.NODECL", func() { ruleRwNoDecl(c) })
			c.guard("RW.ORACLE", r.ruleOracles)
			c.guard("OPT.MEMO", r.ruleMemo)
			// a bystander's own type that merely spells like the API's iterator type is not rewritten
			c.guard("RW.ITERPRED", r.ruleIterPred)
			// the range pass enters ordinary closures nested in a generator: a labelled range loop there must survive it
			c.guard("RW.RANGEDISPATCH", r.ruleRangeDispatch)
			// C13 answers for code that is not a generator: ordinary closures nested in generators, non-iterator index expressions
			c.keep(func(o Obligation) bool {
				switch o.Rule {
				case "RW.TMPL.HOIST", "RW.TMPL.RETURN":
					return strings.HasPrefix(o.Construct, "nested ordinary closure")
				case "RW.BRANCHCTX":
					return strings.Contains(o.Construct, "FuncLit")
				case "RW.TMPL.ITERTYPE":
					return strings.Contains(o.Construct, "= false")
				case "RW.RANGEDISPATCH":
					return strings.HasPrefix(o.Construct, "range statement that is not an element")
				case "RW.ORACLE": // a yield function used as a value is C12's (silently mistranslated)
					return !strings.HasPrefix(o.Construct, "a use of ")
				case "OPT.ORDER":
					return o.Construct == "file using seq" || o.Construct == "second file using seq" || strings.HasPrefix(o.Construct, "a file is chosen for writing") || strings.HasPrefix(o.Construct, "a file visited twice")
				case "RW.ALLFILES":
					return o.Construct == "file using the API"
				case "RW.FILEPASSES":
					return strings.HasPrefix(o.Construct, "per-file state")
				}
				return true
			})
			c.min("RW.MUTGUARD", 10)
			c.min("OPT.ETA", 20)
			c.min("RW.TMPL.HOIST", 3)
			c.min("RW.TMPL.RETURN", 2)
			c.min("RW.BRANCHCTX", 100)
		},
	})
	register(propSpec{
		ID:          "C02",
		Explanation: "Demand-driven execution is decided as the structural reasons nothing runs early or twice. Runtime: every constructor of package seq runs nothing when called (SEQ.LAZY); Bind/BindRecv store the step and return without calling the thunk or the continuation (SEQ.SUSPEND); a resumption runs the thunk once inside the call and takes-and-clears the pending step (SEQ.TAKE); Start runs nothing and its first advance starts the Seq (SEQ.START); Combine starts its second half only from the continuation of the first (SEQ.COMBINE); exhaustion is absorbing with no generator code run (SEQ.GEN). Rewriter: the generator body becomes exactly `return Start(Delay(func(){...}))` (RW.TMPL.YIELDFUNC); the statements after a yield are the body of the thunk passed to Bind and the yielded expression is its unwrapped first argument (RW.TMPL.BIND); loop conditions/posts are wrapped in function literals and bodies in Delay thunks (RW.TMPL.FOR), both halves of a Combine are thunks. Optimiser: a Delay is elided only around certified effect-free constructors or Bind with a basic literal (OPT.WHITELIST/OPT.BINDLIT). Not decided: relative timing of effects inside one user expression (Go evaluation order).",
		Trusted:     []string{"Go evaluation order inside an expression", "go/ssa construction", "pattern combinator semantics"},
		Run: func(c *Ctx) {
			r := newRwRT(c)
			s := newSeqRT(c)
			c.guard("SEQ.ROLE", func() { s.ruleRole() })
			c.guard("SEQ.DELAY", s.ruleDelay)
			c.guard("SEQ.SUSPEND", s.ruleSuspend)
			c.guard("SEQ.START", func() { s.ruleStart() })
			c.guard("SEQ.COMBINE", s.ruleCombine)
			c.guard("SEQ.FOR", s.ruleFor)
			c.guard("SEQ.GEN", s.ruleGenHist)
			c.guard("SEQ.LAZY", s.ruleLazyIters)
			c.guard("RW.TMPL.YIELDFUNC", r.ruleTmplYieldFunc)
			c.guard("RW.TMPL.BIND", r.ruleTmplBind)
			c.guard("RW.TMPL.COMBINE", r.ruleTmplCombine)
			c.guard("RW.TMPL.FOR", r.ruleTmplFor)
			// "exactly the source statements ... in source order": no part of a statement is dropped, conditions,
			// tags and guards stay where the statement is (a hoisted tag runs before the initialiser / a step early)
			c.guard("RW.NOLOSS", r.ruleCover)
			c.guard("RW.TMPL.IF", r.ruleTmplStmts)
			// the operand of a generator's `return <expr>` is evaluated by the advance that reaches the return
			c.guard("RW.TMPL.RETURN", r.rulePass0)
			c.guard("OPT.WHITELIST", func() { r.ruleOptWhitelist(s) })
			c.guard("OPT.RULES", r.ruleOptRules)
			// what a loop condition reads is read when the condition runs (a method value binds its receiver when
			// the loop is built); which map entry comes next is decided when it is demanded (no snapshot)
			c.guard("OPT.ETA", r.ruleOptEta)
			c.guard("ITER.MAP", s.ruleIterMap)
			// ... and which channel element comes next is received when it is demanded (no read-ahead)
			c.guard("ITER.CHAN", s.ruleIterChan)
			c.guard("RW.CLOSE", r.ruleCloseContract)
			// a range operand is evaluated once, by the advance that enters the loop: it is the argument of the
			// iterator constructor placed in front of the loop (inside a loop condition it would run at every advance)
			c.guard("RW.RANGEDISPATCH", r.ruleRangeDispatch)
			c.keep(func(o Obligation) bool {
				switch o.Rule {
				case "RW.RANGEDISPATCH": // which kinds are supported, and whether the result builds, is C04's / C11's / C12's
					return strings.HasPrefix(o.Construct, "range over ") && !strings.Contains(o.Construct, "pointer") && !strings.Contains(o.Construct, "func") && !strings.Contains(o.Construct, "type param") && !strings.Contains(o.Construct, "typeparam") && !strings.Contains(o.Construct, "defined type")
				case "RW.CLOSE":
					return strings.HasPrefix(o.Construct, "combine decision between statements")
				case "OPT.ETA":
					return strings.HasPrefix(o.Construct, "callee is a method value") || strings.HasPrefix(o.Construct, "callee is a function variable") || o.Construct == "pattern shape" || o.Construct == "liveness"
				case "ITER.PURE", "ITER.ASSERT":
					return false
				case "RW.DISPATCH", "RW.FIELDCOV", "RW.DEEPVISIT", "RW.BLOCKSTATE": // rejection and yield coverage are C12's, panics C11's
					return false
				case "RW.TMPL.HOIST":
					return false
				case "RW.TMPL.RETURN":
					return !strings.HasPrefix(o.Construct, "nested ordinary closure")
				}
				return true
			})
			c.min("RW.NOLOSS", 20)
			c.min("RW.TMPL.RETURN", 4)
			c.min("RW.TMPL.SWITCH.GUARD", 4)
			c.min("SEQ.FOR", 6)
			c.min("SEQ.GEN", 10)
			c.min("OPT.WHITELIST", 4)
		},
	})
}

func init() {
	register(propSpec{
		ID:          "C11",
		Explanation: "'The output builds for every accepted program' is not decidable here; decided are the classes of compiler panics and ill-formed output the property names, over symbolic ASTs of every supported statement kind with every optional part present/absent: RW.DISPATCH (every supported kind has an accepting path), RW.FACTORY (the AST factory never panics, e.g. on the nil tag of a tag-less switch), RW.EXH/RW.TERM (the termination checker is total and never over-approximates on ~2000 shapes, incl. unlabelled break in trailing native loops/switches), RW.KINDTAB (block tables defined for every block kind that becomes a thunk body), RW.CLOSE (every statement list wrapped into a thunk is closed with a final return on its path; the list contract closes the block that is actually open), RW.TMPL.FOR (no nil node in a loop call's arguments), RW.BRANCHCTX (break/continue/goto in nested closures stay native: select is a break target), OPT.ETA (closures over builtins, conversions, generic functions, differing types are kept), RW.IMPORT / OPT.ORDER (seq is referred to under the name it is imported under; imports cleaned before printing), RW.YIELDTYPE (a yield whose operand is assignable to the element type is never rejected), RW.TMPL.CONSUMER and RW.RANGEDISPATCH (recorded build-breaking findings D15, D16, D21).",
		Trusted:     []string{"go/printer, go/packages", "go-imports", "go/ssa construction", "go/ast grammar facts"},
		Run: func(c *Ctx) {
			r := newRwRT(c)
			c.guard("RW.DISPATCH", r.ruleCover)
			c.guard("RW.FACTORY", r.ruleFactory)
			c.guard("RW.TERM", r.ruleTerm)
			c.guard("RW.TERM", r.ruleTermPanicSites)
			c.guard("RW.KINDTAB", r.ruleKindTab)
			c.guard("RW.CLOSE", r.ruleCloseContract)
			c.guard("RW.CLOSE", r.ruleCloseNil)
			c.guard("RW.CLOSE", r.ruleCloseWrap)
			c.guard("RW.TMPL.FOR", r.ruleTmplFor)
			c.guard("RW.BRANCHCTX", r.ruleBranchCtx)
			c.guard("OPT.ETA", r.ruleOptEta)
			c.guard("RW.IMPORT", r.ruleImport)
			c.guard("RW.YIELDTYPE", r.ruleYieldType)
			// an ordinary closure nested in a generator keeps its statements as written: a hoisted `:=`
			// initialiser puts a label in front of a block (`L: { i := 0; for … }`), `continue L` no longer builds
			c.guard("RW.TMPL.HOIST", r.rulePass0)
			c.guard("RW.ALLFILES", func() { r.ruleAllFiles(true) })
			c.guard("RW.ALLFILES", r.ruleNoAPIPkg)
			c.guard("OPT.ORDER", r.ruleOptOrder)
			c.guard("RW.TMPL.CONSUMER", r.ruleTmplConsumer)
			c.guard("RW.RANGEDISPATCH", r.ruleRangeDispatch)
			// every mention of the iterator type is replaced, however it is spelled (a result that became
			// seq.Iterator[T] does not fit a parameter / field / variable that stayed co.Iter[T])
			c.guard("RW.TMPL.ITERTYPE", r.ruleIterType)
			// a yield statement is recognised as one however the call is spelled (collected as a generator but not
			// recognised by the statement rewriter, the compiler ends in "yield not supported here")
			c.guard("RW.ORACLE", r.ruleOracles)
			// C11 answers for panics and unbuildable output only
			buildBreaking := []string{"builtin", "conversion", "generic function with inferred", "types differ", "unresolved identifier", "pattern shape", "liveness"}
			c.keep(func(o Obligation) bool {
				switch o.Rule {
				case "RW.FIELDCOV", "RW.DEEPVISIT", "RW.NOLOSS":
					return false // behaviour, C12 / C01
				case "RW.ALLFILES":
					return o.Construct != "file visited twice" // byte identity, C15
				case "RW.TMPL.HOIST", "RW.TMPL.RETURN":
					return strings.HasPrefix(o.Construct, "nested ordinary closure")
				case "RW.KINDTAB":
					return o.Construct == "returnNormalRequired"
				case "RW.BRANCHCTX":
					// a branch inside a function literal: a wrong replacement puts `return seq.Break()` into an ordinary closure
					return strings.Contains(o.Construct, "FuncLit") && !strings.HasSuffix(o.Construct, " L") && !strings.Contains(o.Construct, "fallthrough")
				case "OPT.ETA":
					for _, b := range buildBreaking {
						if strings.Contains(o.Construct, b) {
							return true
						}
					}
					return false
				case "RW.TMPL.CONSUMER":
					return strings.Contains(o.Construct, "nested in its own block") || strings.Contains(o.Construct, "no loop variable")
				case "RW.TMPL.ITERTYPE": // leaving other index expressions alone is C13's
					return !strings.Contains(o.Construct, "= false")
				case "RW.ORACLE":
					return strings.HasPrefix(o.Construct, "isCallStmtOf")
				}
				return true
			})
			c.min("RW.DISPATCH", 21)
			c.min("RW.TERM", 2)
			c.min("RW.EXH", 1)
			c.min("RW.CLOSE", 3)
			c.min("RW.BRANCHCTX", 100)
			c.min("OPT.ETA", 5)
			c.min("RW.IMPORT", 2)
		},
	})
}

func init() {
	register(propSpec{
		ID:          "C15",
		Explanation: "Determinism is decided as the absence of every source of run-to-run or context dependence in the output path: OPT.MEMO (no table outliving a call is filled with a value that its key does not determine: no verdict of one file is reused for another), DET.MAPRANGE (no range over a map anywhere in package rewriter / cmd/cogen), DET.SOURCES (no call into time, math/rand, crypto/rand, os.Getpid/Hostname/MkdirTemp/Getenv), RW.FILEPASSES (import names, generator sets and collected comments are re-initialised for every file before the first pass; passes in fixed order), DET.GENSYM (the unique-name counter advances by one per temporary, names use the new value, and the counter lives in an object allocated once per file or is reset per file), DET.TMP (the intermediate directory is emptied before use and its removal deferred, so outputs of earlier runs cannot reach the result), RW.TMPL.RANGE (iterator temporaries come from gensym). File order from the loader and go/printer are trusted.",
		Trusted:     []string{"go/packages file order", "go/printer", "go/ssa construction"},
		Run: func(c *Ctx) {
			r := newRwRT(c)
			c.guard("DET.MAPRANGE", func() { ruleDetScan(c) })
			c.guard("RW.FILEPASSES", r.ruleFilePasses)
			c.guard("RW.ALLFILES", func() { r.ruleAllFiles(false) })
			c.guard("DET.GENSYM", r.ruleGensym)
			c.guard("OPT.MEMO", r.ruleMemo)
			c.guard("DET.PARTIALTYPES", r.rulePartialTypes)
			c.guard("DET.TMP", r.ruleTmpDir)
			c.guard("RW.TMPL.RANGE", r.ruleTmplRange)
			// "regardless of outputs of earlier runs present on disk": the outputs carry the negation of the very tag
			// the sources are loaded under, also for a custom tag, so a later run never sees them
			c.guard("GEN.TAG", r.ruleGoGen)
			c.guard("DET.TESTMODE", r.ruleTestMode)
			// the optimisation passes run over every loaded file each time one file is visited: a file's imports are
			// cleaned after they have run for it, otherwise the first visited file alone keeps what the others lose
			c.guard("OPT.ORDER", r.ruleOptOrder)
			c.keep(func(o Obligation) bool {
				switch o.Rule {
				case "OPT.ORDER": // (... and the bytes of a file do not depend on whether its package has a test file)
					return o.Construct == "imports cleaned after the last optimisation" || strings.HasPrefix(o.Construct, "a file visited twice")
				case "GEN.FILTER", "GEN.NAME":
					return false // C16
				case "RW.TMPL.RANGE", "RW.TMPL.RANGE.TUPLE":
					return false // shape of the loop is C04's; only the naming of the temporary matters here
				case "RW.FILEPASSES":
					return strings.HasPrefix(o.Construct, "per-file state")
				case "DET.TMP":
					// (leftovers of earlier runs; and the generated files exist at all: the stages load the right
					// directories and nothing but the intermediate directory is removed)
					return strings.Contains(o.Construct, "starts empty") || strings.Contains(o.Construct, "the stages load") || strings.Contains(o.Construct, "nothing but")
				}
				return true
			})
			c.min("RW.TMPL.RANGE.GENSYM", 12)
			c.min("DET.GENSYM", 2)
			c.min("DET.TMP", 4)
			c.min("RW.FILEPASSES", 1)
		},
	})
	register(propSpec{
		ID:          "C16",
		Explanation: "go:generate mode is decided as necessary conditions read from GoGen / cmd/cogen by abstract interpretation with constant folding of the string functions involved: GEN.HEADER (the header constant is `//go:build !<tag>`, blank line, a line matching Go's generated-code convention; parsed with go/build/constraint), GEN.TAG (the tag given to the rewrite-stage loader is the tag the header negates), GEN.FILTER (exactly *_<suffix>.go and *_<suffix>_test.go are processed: 7 names), GEN.NAME (both printers evaluated on 5 paths incl. base names and directories containing '_co': exactly the sibling with the suffix removed is written, via the intermediate directory), DET.TMP (intermediate directory emptied before and removed after, on every exit), OPT.ORDER (a rewritten file that does not use seq is not written), GEN.ENV (cogen runs GoGen on the working directory only when GOFILE is set). Not decided: that the package builds and its tests pass afterwards, byte-idempotence of a second run, the exact directory contents — these quantify over file-system states and toolchain behaviour.",
		Trusted:     []string{"go-loader file filter / build tag options", "go/ssa construction", "os and path/filepath"},
		Run: func(c *Ctx) {
			r := newRwRT(c)
			c.guard("GEN.HEADER", r.ruleGenHeader)
			c.guard("GEN.TAG", r.ruleGoGen)
			c.guard("DET.TMP", r.ruleTmpDir)
			c.guard("OPT.ORDER", r.ruleOptOrder)
			c.guard("RW.ALLFILES", func() { r.ruleAllFiles(false) })
			c.guard("GEN.ENV", r.ruleGenEnv)
			c.guard("DET.TESTMODE", r.ruleTestMode)
			// a derived file is written for every co file with a generator: the second stage recognises such a file by
			// its import of the runtime, which the first stage adds to the *file* when the file lacks it
			c.guard("RW.IMPORT", r.ruleImport)
			c.keep(func(o Obligation) bool {
				switch o.Rule {
				case "RW.IMPORT":
					return strings.Contains(o.Construct, "absent")
				case "DET.TMP":
					return strings.HasPrefix(o.Construct, "GoGen")
				case "OPT.ORDER": // exactly one derived file per source file that uses the API
					return o.Construct == "file not using seq" || o.Construct == "file using seq" || o.Construct == "second file using seq" || strings.HasPrefix(o.Construct, "a file is chosen for writing")
				}
				return true
			})
			c.min("GEN.HEADER", 1)
			c.min("GEN.TAG", 1)
			c.min("GEN.FILTER", 4)
			c.min("GEN.NAME", 5)
			c.min("DET.TMP", 3)
			c.min("GEN.ENV", 1)
		},
	})
}
