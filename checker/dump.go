package main

// Debug helper: print the abstract paths of a rewriter function.
//   gocoverif dump [--repo DIR] <Type|-> <func> [param=spec ...] [field:name=spec ...] [noblock]
// spec: Kind (ast node kind, e.g. IfStmt) | nil | true | false | nn | sym | tok:BREAK

import (
	"fmt"
	"os"
	"sort"
	"strings"

	"golang.org/x/tools/go/ssa"
)

func cmdDump(args []string) int {
	repo := "/repo"
	if len(args) >= 2 && args[0] == "--repo" {
		repo = args[1]
		args = args[2:]
	}
	if len(args) < 2 {
		fmt.Println("usage: dump <Type|-> <func> [param=spec...]")
		return 2
	}
	w, err := loadWorld(repo, nil)
	if err != nil {
		fmt.Println(err)
		return 2
	}
	c := newCtx("dump", "quick", 0, w)
	r := newRwRT(c)
	var fn *ssa.Function
	if args[0] == "-" {
		fn = w.Func(pathRw, args[1])
	} else if args[0] == "seq" {
		fn = w.Func(pathSeq, args[1])
	} else {
		fn = w.Method(pathRw, args[0], args[1])
	}
	spec := map[string]string{}
	fields := map[string]AV{}
	blockOr := true
	parse := func(name, sp string) AV {
		switch {
		case sp == "nil":
			return Nil{}
		case sp == "true":
			return mkBool(true)
		case sp == "false":
			return mkBool(false)
		case sp == "nn":
			return Sym{Name: name, NN: true}
		case sp == "sym":
			return Sym{Name: name}
		case strings.HasPrefix(sp, "tok:"):
			return r.tokConst(sp[4:])
		case strings.HasPrefix(sp, "int:"):
			var n int64
			fmt.Sscan(sp[4:], &n)
			return mkInt(n)
		default:
			return r.node(sp, name)
		}
	}
	for _, a := range args[2:] {
		if a == "noblock" {
			blockOr = false
			continue
		}
		kv := strings.SplitN(a, "=", 2)
		if len(kv) != 2 {
			continue
		}
		if strings.HasPrefix(kv[0], "field:") {
			n := strings.TrimPrefix(kv[0], "field:")
			fields[n] = parse(n, kv[1])
		} else {
			spec[kv[0]] = kv[1]
		}
	}
	var av []AV
	for _, p := range fn.Params {
		if sp, ok := spec[p.Name()]; ok {
			av = append(av, parse(p.Name(), sp))
		} else {
			av = append(av, Sym{Name: p.Name(), NN: true})
		}
	}
	in := r.interp(rwConfig{root: fn, blockOracles: blockOr})
	for k, v := range fields {
		in.Fields[k] = v
	}
	func() {
		defer func() {
			if e := recover(); e != nil {
				fmt.Fprintln(os.Stderr, "error:", e)
			}
		}()
		outs := in.Run(nil, fn, av, nil)
		var lines []string
		for _, o := range outs {
			s := pathSummary(o)
			if !o.Panicked && len(o.Ret) > 0 {
				var rs []string
				for _, x := range o.Ret {
					rs = append(rs, o.St.Render(x))
				}
				s += "  => " + strings.Join(rs, ", ")
			}
			if o.St.Truncated {
				s += " (truncated)"
			}
			lines = append(lines, s)
		}
		sort.Strings(lines)
		for _, l := range lines {
			fmt.Println(" ", l)
		}
		fmt.Printf("%d paths, %d steps\n", len(outs), in.Steps)
	}()
	return 0
}
