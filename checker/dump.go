package main

import "fmt"

func cmdDump(args []string) int {
	fmt.Println("no dumps yet")
	return 0
}
