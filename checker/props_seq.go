package main

import "strings"

func init() {
	register(propSpec{
		ID:          "C08",
		Explanation: "Structural necessary conditions of the resumption-monad semantics, decided for every path of package seq: each exported combinator is abstractly evaluated (finite-domain abstract interpretation of its SSA, nothing is run) on symbolic arguments and the Seq it returns is applied to a symbolic (c,k); the resulting event traces are compared with the reference semantics of the property for all 4 signals, both nil-nesses of cond/post, both answers of cond, all 5 body behaviours (suspend / completes with each signal), resumption after suspension and a second run of the same Seq value. Decides: signal roles, Combine's short-circuit table (hence associativity and Normal as unit), Delay, Bind/BindRecv suspension, step take-and-clear, Start, For/While/Loop ordering of post/cond/body and signal translation, laziness of every constructor. Not decided: Seq values written by users; numeric stack bounds (C17).",
		Trusted:     []string{"Go semantics of closures and calls", "go/ssa construction (x/tools v0.29.0)", "continuations are used linearly by well-formed Seq values"},
		Run: func(c *Ctx) {
			s := newSeqRT(c)
			c.guard("SEQ.ROLE", func() { s.ruleRole() })
			c.guard("SEQ.COMBINE", s.ruleCombine)
			c.guard("SEQ.DELAY", s.ruleDelay)
			c.guard("SEQ.SUSPEND", s.ruleSuspend)
			c.guard("SEQ.START", func() { s.ruleStart() })
			c.guard("SEQ.FOR", s.ruleFor)
			c.guard("SEQ.OVERLAP", s.ruleOverlap)
			// a term is iterated through the iterator Start returns: a step must not be consumed twice
			c.guard("SEQ.GEN", s.ruleGenHist)
			c.guard("SEQ.LAZY", s.ruleLazyIters)
			c.keep(func(o Obligation) bool {
				if o.Rule == "SEQ.GEN" { // iterating a term = advancing (BindRecv terms: with a sent value) and reading its result; Current is C09's
					return strings.HasPrefix(o.Construct, "MoveNext") || strings.HasPrefix(o.Construct, "Send") || strings.HasPrefix(o.Construct, "Result") || o.Construct == "coverage"
				}
				return true
			})
			c.min("SEQ.ROLE", 5)
			c.min("SEQ.FOR", 6)
			c.min("SEQ.OVERLAP", 2)
			c.min("SEQ.GEN", 4)
		},
	})
}

func init() {
	register(propSpec{
		ID:          "C09",
		Explanation: "The iterator protocol is decided observationally: seq.Start(opaque body) is evaluated abstractly and the concrete iterator it returns is driven through every history of MoveNext / Send(v) / Current / Result up to a depth bound (5 quick, 8 thorough; equal abstract states are merged), the generator body being an oracle that yields (storing the pending step as Bind does) or returns at every step it is run. After each operation the returned values and which piece of generator code ran with which received value are compared with the protocol of the property: an exhausted iterator runs nothing and reports false; Send primes only a never-advanced iterator and passes its value to the pending yield; Current is the last delivered value (zero before the first advance and after exhaustion) and stores nothing; Result is the returned value once the generator has completed. Independent of how the generator represents its state.",
		Trusted:     []string{"Go semantics of closures and calls", "go/ssa construction (x/tools v0.29.0)"},
		Run: func(c *Ctx) {
			s := newSeqRT(c)
			c.guard("SEQ.GEN", s.ruleGenHist)
			c.guard("SEQ.START", func() { s.ruleStart() })
			c.guard("SEQ.TAKE", s.ruleSuspend)
			// "Result returns the generator's return value": the value of a Return signal reaches Start's final
			// continuation unchanged through every combinator it crosses
			c.guard("SEQ.ROLE", func() { s.ruleRole() })
			c.guard("SEQ.COMBINE", s.ruleCombine)
		},
	})
}

func init() {
	register(propSpec{
		ID:          "C17",
		Explanation: "Decides the structural cause of per-iteration stack growth, not a numeric bound: For/While/Loop are abstractly evaluated with a body that completes synchronously (Normal and Continue) for several iterations, before and after a resumption; the height of the abstract activation stack at successive calls of the body must not increase (abstract stack-height analysis over the K1 state graph). Plus: no cycle among statically resolved calls in package seq. Growth that is linear in term size or delegation depth is not a violation.",
		Trusted:     []string{"stack depth contributed by user thunks is bounded by term size", "go/ssa construction"},
		Run: func(c *Ctx) {
			s := newSeqRT(c)
			c.guard("SEQ.STACK.HEIGHT", s.ruleStack)
			c.guard("SEQ.STACK.HEIGHT", s.ruleStackNested)
			c.guard("SEQ.STACK.HEIGHT", s.ruleStackCombineBody)
			c.guard("SEQ.STACK.HEIGHT", s.ruleStackRerun)
			c.guard("SEQ.STACK.REC", s.ruleNoStaticRecursion)
		},
	})
	register(propSpec{
		ID:          "C18",
		Explanation: "Decides the mechanism the property rests on: (SEQ.SYNC) package seq contains no go/defer/recover/select/send and no sync/time/runtime call, so a panic raised by a step can only unwind through the advancing call; (SEQ.CHAIN) MoveNext and Send call the pending resumption synchronously and overwrite current/next only after it returned, so values delivered earlier are untouched when it panics; (SEQ.TAKE/SEQ.START/SEQ.LAZY) a resumption runs the thunk inside the call and constructors run nothing; (RW.NOASYNC) the rewriter never emits go/defer/select/recover into generated code. All clauses are structural.",
		Trusted:     []string{"Go panic propagation semantics", "go/ssa construction"},
		Run: func(c *Ctx) {
			s := newSeqRT(c)
			c.guard("SEQ.SYNC", s.ruleSync)
			// "out of exactly the MoveNext or Send call whose step executed the panicking statement": each
			// consumer call runs exactly the steps the protocol assigns to it (a Send that primes twice runs
			// the panicking step one call early); with the generator code panicking at any step: the panic comes
			// out of that call and the value delivered before is untouched (SEQ.CHAIN)
			c.guard("SEQ.GEN", s.ruleGenHistPanics)
			c.guard("SEQ.TAKE", s.ruleSuspend)
			c.guard("SEQ.START", func() { s.ruleStart() })
			c.guard("SEQ.DELAY", s.ruleDelay)
			c.guard("RW.NOASYNC", func() { ruleRwNoAsync(c) })
			// a panicking expression must be evaluated by the step that reaches it: no early evaluation
			// through Delay elision, no dropped result expression of `return <expr>`
			r := newRwRT(c)
			c.guard("OPT.WHITELIST", func() { r.ruleOptWhitelist(s) })
			c.guard("OPT.RULES", r.ruleOptRules)
			// a closure replaced by a method value evaluates its receiver when the closure is created:
			// a nil receiver then panics in an earlier step (or when the generator function is called)
			c.guard("OPT.ETA", r.ruleOptEta)
			c.guard("RW.TMPL.RETURN", r.rulePass0)
			c.guard("RW.TMPL.FOR", r.ruleTmplFor)
			// a statement that is dropped, or that runs before the yields preceding it, cannot raise its panic in
			// the advance the source raises it in
			c.guard("RW.NOLOSS", r.ruleCover)
			c.guard("RW.CLOSE", r.ruleCloseContract)
			c.keep(func(o Obligation) bool {
				switch o.Rule {
				case "RW.DISPATCH", "RW.FIELDCOV", "RW.DEEPVISIT", "RW.BLOCKSTATE":
					return false
				case "RW.CLOSE":
					return strings.HasPrefix(o.Construct, "combine decision between statements")
				case "RW.TMPL.FOR":
					return strings.Contains(o.Construct, "wrapped in a thunk")
				case "RW.TMPL.HOIST":
					return false
				case "SEQ.GEN": // which step runs in which advancing call; the values of Current/Result are C09's,
					// but a Current/Result that runs generator code lets its panics out of a call that is not an advance
					return strings.HasPrefix(o.Construct, "MoveNext") || strings.HasPrefix(o.Construct, "Send") || o.Construct == "coverage" ||
						strings.Contains(o.Detail+strings.Join(o.Trace, " "), "generator code run")
				case "RW.TMPL.RETURN":
					return !strings.HasPrefix(o.Construct, "nested ordinary closure")
				case "OPT.ETA":
					// only the shapes where the reduction moves the evaluation of an operand (receiver,
					// function variable, field, callee call) to the creation of the closure
					for _, p := range []string{"callee is a method value", "callee is a function variable", "callee is a struct field", "callee is a call", "pattern shape", "liveness"} {
						if strings.HasPrefix(o.Construct, p) {
							return true
						}
					}
					return false
				}
				return true
			})
			c.min("OPT.ETA", 4)
			c.min("SEQ.CHAIN", 2)
			c.min("SEQ.TAKE", 2)
			c.min("OPT.BINDLIT", 1)
			c.min("RW.TMPL.RETURN", 4)
		},
	})
	register(propSpec{
		ID:          "C14",
		Explanation: "Decides the structural cause of independence (no state reachable from two iterators through the runtime or through generated code): (SEQ.STATE) package seq has no package-level variable touched by runtime code, and no closure created by a Seq constructor assigns a variable that lives outside the returned Seq (state is allocated per run); (SEQ.START) every Start call allocates its own generator and coroutine state; (SEQ.FOR second-run) a second run of the same loop Seq starts from scratch; (RW.NODECL) the rewriter never introduces declarations or rewrites a file's declaration list. Data races in user code are out of scope.",
		Trusted:     []string{"Go memory model for unshared data", "go/ssa construction"},
		Run: func(c *Ctx) {
			s := newSeqRT(c)
			c.guard("SEQ.STATE", s.ruleState)
			c.guard("SEQ.START", func() { s.ruleStart() })
			c.guard("SEQ.FOR", s.ruleFor)
			c.guard("SEQ.OVERLAP", s.ruleOverlap)
			c.guard("RW.NODECL", func() { ruleRwNoDecl(c) })
			// Delay elision turns "evaluated on every run of the enclosing loop" into "evaluated once": admissible
			// only for operands that cannot produce a fresh object (basic literals) — `Yield(gen())` in a loop must
			// hand out a new iterator each time
			r14 := newRwRT(c)
			c.guard("OPT.WHITELIST", func() { r14.ruleOptWhitelist(s) })
			c.guard("OPT.RULES", r14.ruleOptRules)
			// an advance meant for one iterator must reach that iterator: `for a.MoveNext() { …; a, b = b, a }`
			// reads the variable at every round (a method value would keep advancing the first one)
			c.guard("OPT.ETA", r14.ruleOptEta)
			// of the loop tables only the independence of two runs of one Seq value belongs here
			c.keep(func(o Obligation) bool {
				if o.Rule == "SEQ.FOR" {
					return strings.Contains(o.Construct, "second run")
				}
				if o.Rule == "OPT.ETA" {
					return strings.HasPrefix(o.Construct, "callee is a method value") || o.Construct == "pattern shape" || o.Construct == "liveness"
				}
				return o.Rule != "SEQ.ROLE" && o.Rule != "SEQ.LAZY"
			})
			c.min("SEQ.STATE", 7)
			c.min("SEQ.START", 3)
			c.min("SEQ.FOR", 4)
		},
	})
}

func init() {
	register(propSpec{
		ID:          "C10",
		Explanation: "Each built-in range iterator is decided by an inductive argument over its abstract state, extracted from the SSA of its constructor, MoveNext and Current (base: the constructor's state advanced once; step: a fully symbolic state advanced once): integer and slice iterators have first key 0, key' = key+1, guard key' < n / len(own slice header) (length snapshot) and live element reads; the string iterator keeps the string itself, decodes the remaining bytes with unicode/utf8, reports the offset it decoded at and advances by the decoder's width; the map iterator delegates to reflect.MapRange of the live map and no path of Current can panic (nil interface keys/values); the channel iterator reports the comma-ok receive; every Current is pure. This decides 0..n-1 / nothing for n<=0 / byte offsets / U+FFFD width 1 / deleted-before-reached for every input at once. Not decided: element equality beyond these facts; correctness of reflect and unicode/utf8.",
		Trusted:     []string{"reflect.MapIter iterates like Go's range over a map", "unicode/utf8.DecodeRuneInString decodes like Go's range over a string", "go/ssa construction"},
		Run: func(c *Ctx) {
			s := newSeqRT(c)
			s.ruleIters()
			c.guard("SEQ.LAZY", s.ruleLazyIters)
		},
	})
}
