package main

func init() {
	register(propSpec{
		ID: "C08",
		Explanation: "Structural necessary conditions of the resumption-monad semantics, decided for every path of package seq: each exported combinator is abstractly evaluated (finite-domain abstract interpretation of its SSA, nothing is run) on symbolic arguments and the Seq it returns is applied to a symbolic (c,k); the resulting event traces are compared with the reference semantics of the property for all 4 signals, both nil-nesses of cond/post, both answers of cond, all 5 body behaviours (suspend / completes with each signal), resumption after suspension and a second run of the same Seq value. Decides: signal roles, Combine's short-circuit table (hence associativity and Normal as unit), Delay, Bind/BindRecv suspension, step take-and-clear, Start, For/While/Loop ordering of post/cond/body and signal translation, laziness of every constructor. Not decided: Seq values written by users; numeric stack bounds (C17).",
		Trusted: []string{"Go semantics of closures and calls", "go/ssa construction (x/tools v0.29.0)", "continuations are used linearly by well-formed Seq values"},
		Run: func(c *Ctx) {
			s := newSeqRT(c)
			c.guard("SEQ.ROLE", func() { s.ruleRole() })
			c.guard("SEQ.COMBINE", s.ruleCombine)
			c.guard("SEQ.DELAY", s.ruleDelay)
			c.guard("SEQ.SUSPEND", s.ruleSuspend)
			c.guard("SEQ.START", func() { s.ruleStart() })
			c.guard("SEQ.FOR", s.ruleFor)
			c.guard("SEQ.LAZY", s.ruleLazyIters)
		},
	})
}
