#!/bin/sh
# usage: check.sh <Cxx> [quick|thorough]
# Runs one check against /repo's current working tree. Rebuilds the checker
# binary when it is missing or older than its sources.
cd "$(dirname "$0")" || exit 2
export GOFLAGS=-mod=mod GOPROXY=off GOSUMDB=off GOTOOLCHAIN=local GOWORK=off
need=0
[ -x bin/gocoverif ] || need=1
if [ $need = 0 ] && [ -n "$(find checker -name '*.go' -newer bin/gocoverif 2>/dev/null | head -1)" ]; then need=1; fi
if [ $need = 1 ]; then ./setup.sh >/dev/null || { echo "cannot build checker"; exit 2; }; fi
tier="${2:-${VERIF_TIER:-quick}}"
exec ./bin/gocoverif check "$1" --tier "$tier" --repo "${GOCO_REPO:-/repo}" --verif "$(pwd)"
