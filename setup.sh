#!/bin/sh
# Builds the checker from files on disk only (offline).
set -e
cd "$(dirname "$0")/checker"
export GOFLAGS=-mod=mod GOPROXY=off GOSUMDB=off GOTOOLCHAIN=local GOWORK=off
mkdir -p ../bin ../evidence/replay
go build -o ../bin/gocoverif .
echo "built $(cd .. && pwd)/bin/gocoverif"
